"""Concrete reproductions of the genuine defects found by the static rules.

Not part of any check (the checks are static).  Each function returns True when
the behaviour is CORRECT (defect absent) and False when the defect shows.
Usage: /venv/bin/python findings/repro.py [F1 F2 ...]   (PYTHONPATH=/repo or a scratch tree)
"""
import sys
import warnings
from pokerkit import *  # noqa
from pokerkit.state import State, Street, Opening, BettingStructure, Automation, Mode
from pokerkit.hands import OmahaHoldemHand, OmahaEightOrBetterLowHand, StandardLowHand
from pokerkit.utilities import Deck, Card

A = Automation
ALL = tuple(Automation)


def F1():
    """hi-lo side pot whose contenders have no low must go to the best high."""
    autos = tuple(a for a in ALL if a not in (A.HOLE_DEALING, A.BOARD_DEALING))
    s = State(
        autos, Deck.STANDARD, (OmahaHoldemHand, OmahaEightOrBetterLowHand),
        (
            Street(False, (False,) * 4, 0, False, Opening.POSITION, 2, None),
            Street(True, (), 3, False, Opening.POSITION, 2, None),
            Street(True, (), 1, False, Opening.POSITION, 2, None),
            Street(True, (), 1, False, Opening.POSITION, 2, None),
        ),
        BettingStructure.NO_LIMIT, True, 0, (1, 2), 0, (100, 100, 50, 10), 4,
    )
    s.deal_hole('QcQdJh9h', 0)
    s.deal_hole('JcJdTh9s', 1)
    s.deal_hole('KcKdQh9c', 2)
    s.deal_hole('As2s9dTc', 3)
    while s.actor_index is not None:
        if s.can_complete_bet_or_raise_to(s.max_completion_betting_or_raising_to_amount):
            s.complete_bet_or_raise_to(s.max_completion_betting_or_raising_to_amount)
        else:
            s.check_or_call()
    s.deal_board('3c4d8h')
    s.deal_board('Kh')
    s.deal_board('Ks')
    return tuple(s.payoffs) == (0, -100, 90, 10) or tuple(s.payoffs)


def F2():
    try:
        NoLimitTexasHoldem.create_state(
            tuple(a for a in ALL if a is not A.CARD_BURNING),
            True, 0, (1, 2), 2, (1, 2), 2,
        )
    except ValueError as e:
        return False
    return True


def F3():
    s = NoLimitTexasHoldem.create_state(
        tuple(a for a in ALL if a not in (A.RUNOUT_COUNT_SELECTION, A.HOLE_CARDS_SHOWING_OR_MUCKING)),
        True, 0, (1, 2), 2, (50, 50), 2, mode=Mode.CASH_GAME,
    )
    s.complete_bet_or_raise_to(50)
    s.check_or_call()
    assert s.can_select_runout_count()
    return (not s.can_select_runout_count(-3, 1)) and s.can_select_runout_count(2, 0)


def F4():
    s = NoLimitTexasHoldem.create_state(ALL, True, 0, (1, 2), 2, (50, 50), 2)
    s.fold()
    assert not s.status
    w = s.statuses.index(True)
    try:
        s.can_show_or_muck_hole_cards(tuple(s.hole_cards[w])[:1], w)
    except AssertionError:
        return False
    return True


def F5():
    g = FixedLimitOmahaHoldemHighLowSplitEightOrBetter
    return (g.betting_structure == BettingStructure.FIXED_LIMIT
            and g.max_completion_betting_or_raising_count == 4)


def F6():
    from pokerkit.notation import HandHistory
    g = NoLimitTexasHoldem(ALL, True, {1: 3}, (1, 2), 2)
    s = g((100, 100, 100), 3)
    while s.status:
        s.check_or_call()
    hh = HandHistory.from_game_state(g, s)
    t = tuple(HandHistory.loads(hh.dumps()))[-1]
    return list(t.stacks) == list(s.stacks) or (list(s.stacks), list(t.stacks))


def F7():
    from pokerkit.analysis import calculate_equities
    from pokerkit.hands import OmahaHoldemHand, OmahaEightOrBetterLowHand
    e = calculate_equities(
        ([list(Card.parse('KcKdQhJh'))], [list(Card.parse('QcQdJs9s'))]),
        Card.parse('KhKsTd9d9h'), 4, 5, Deck.STANDARD,
        (OmahaHoldemHand, OmahaEightOrBetterLowHand), sample_count=4,
    )
    return e == [1.0, 0.0] or e


def F8():
    try:
        State((), Deck.STANDARD, (StandardHighHand,),
              (Street(False, (False, False), 0, False, Opening.POSITION, 4, None),),
              BettingStructure.NO_LIMIT, True, 0, (1, 2), 1, 100, 3)
    except ValueError:
        return True
    return False


def F9():
    s = NoLimitDeuceToSevenLowballSingleDraw.create_state(
        tuple(a for a in ALL), True, 0, (1, 2), 2, (50, 50), 2)
    s.check_or_call(); s.check_or_call()
    c = s.hole_cards[s.stander_pat_or_discarder_index][0]
    if not s.can_stand_pat_or_discard((c, c)):
        return True
    try:
        s.stand_pat_or_discard((c, c))
    except ValueError:
        return False
    return True


def F10():
    s = NoLimitTexasHoldem.create_state(
        tuple(a for a in ALL if a is not A.HOLE_CARDS_SHOWING_OR_MUCKING),
        True, 0, (1, 2), 2, (100, 100), 2)
    s.check_or_call(); s.check_or_call()
    for _ in range(3):
        s.check_or_call(); s.check_or_call()
    s.show_or_muck_hole_cards(False); s.show_or_muck_hole_cards(False)
    return sum(s.stacks) == 200 or list(s.stacks)


def F11():
    from pokerkit.notation import HandHistory
    g = NoLimitTexasHoldem(ALL, True, 0, (1, 2), 2)
    s = g((50, 50), 2)
    s.fold()
    bad = []
    for k, v in (('_x#y', 1), ('_a', 'line1\nline2'), ('_b', "it's '''x"), ('_a.b', 2)):
        hh = HandHistory.from_game_state(g, s, user_defined_fields={k: v})
        t = hh.dumps()
        try:
            if HandHistory.loads(t).dumps() != t:
                bad.append(k)
        except Exception:
            bad.append(k)
    return not bad or bad


def F12():
    """lone survivor (everybody else mucks at an all-in showdown) takes every pot."""
    autos = tuple(a for a in ALL if a is not A.HOLE_CARDS_SHOWING_OR_MUCKING)
    s = NoLimitTexasHoldem.create_state(autos, True, 0, (1, 2), 2, (100, 100, 50), 3, mode=Mode.CASH_GAME)
    while s.actor_index is not None:
        m = s.max_completion_betting_or_raising_to_amount
        if m and s.can_complete_bet_or_raise_to(m):
            s.complete_bet_or_raise_to(m)
        else:
            s.check_or_call()
    try:
        while s.status and s.showdown_index is not None:
            s.show_or_muck_hole_cards(s.showdown_index == 2)
    except AssertionError:
        return False
    return (not s.status and list(s.stacks) == [0, 0, 250]) or list(s.stacks)


if __name__ == '__main__':
    warnings.simplefilter('ignore')
    names = sys.argv[1:] or [f'F{i}' for i in range(1, 13)]
    rc = 0
    for n in names:
        try:
            r = globals()[n]()
        except Exception as e:  # noqa
            r = f'EXC {type(e).__name__}: {e}'
        ok = r is True
        print(n, 'OK' if ok else f'DEFECT ({r})')
        rc |= (not ok)
    sys.exit(rc)
