#!/venv/bin/python
"""dev tool: freeze the names of the functions, methods and nested functions of the reviewed tree (pkstatic/known_names.json).
Anything not in this list is treated as a helper extracted later and is read at its call sites (pkstatic/inline.py)."""
import ast, json, sys
sys.path.insert(0, '/verif')
from pkstatic.inline import qualnames
out = {}
for m in ('utilities', 'lookups', 'hands', 'state', 'games', 'notation', 'analysis'):
    out[m] = sorted(qualnames(ast.parse(open(f'/repo/pokerkit/{m}.py').read())))
json.dump(out, open('/verif/pkstatic/known_names.json', 'w'), indent=0, sort_keys=True)
print({k: len(v) for k, v in out.items()})

# ... and, per function, the attributes of self / cls it writes (pkstatic/known_writes.json): a reviewed function that later writes
# another attribute has a side effect no rule was written for (<PID>.writers)
from pkstatic.model import Program
from pkstatic.defined import loop_exits, written_attrs
prog = Program()
w = {}
def module_names(mi):
    g = set(mi.imports) | set(mi.functions) | set(mi.classes) | {k for k in mi.assigns if '.' not in k}
    for st in mi.tree.body:
        if not isinstance(st, (ast.FunctionDef, ast.ClassDef)):
            g |= {n.id for n in ast.walk(st) if isinstance(n, ast.Name) and isinstance(n.ctx, ast.Store)}
    return g


for mname, mi in prog.modules.items():
    names = module_names(mi)
    for ci in mi.classes.values():
        for fi in ci.methods.values():
            w[f'{mname}:{fi.qualname}'] = dict(sorted(written_attrs(fi.node, names).items()), **{'<loop exits>': loop_exits(fi.node)})
    for fi in mi.functions.values():
        w[f'{mname}:{fi.qualname}'] = dict(sorted(written_attrs(fi.node, names).items()), **{'<loop exits>': loop_exits(fi.node)})
json.dump(w, open('/verif/pkstatic/known_writes.json', 'w'), indent=0, sort_keys=True)
print(len(w), 'methods with write sets')
