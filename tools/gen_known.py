#!/venv/bin/python
"""dev tool: freeze the names of the functions, methods and nested functions of the reviewed tree (pkstatic/known_names.json).
Anything not in this list is treated as a helper extracted later and is read at its call sites (pkstatic/inline.py)."""
import ast, json, sys
sys.path.insert(0, '/verif')
from pkstatic.inline import qualnames
out = {}
for m in ('utilities', 'lookups', 'hands', 'state', 'games', 'notation', 'analysis'):
    out[m] = sorted(qualnames(ast.parse(open(f'/repo/pokerkit/{m}.py').read())))
json.dump(out, open('/verif/pkstatic/known_names.json', 'w'), indent=0, sort_keys=True)
print({k: len(v) for k, v in out.items()})
