#!/venv/bin/python
"""dev tool: apply one patch to a scratch copy of the sources and print the failures of the given checks in full.
usage: trypatch.py <patch.diff> PID [PID ...]   (--keep prints the scratch directory and leaves it)"""
import os, shutil, subprocess, sys, tempfile
sys.path.insert(0, '/verif')
from pkstatic.selftest import _copy_sources

args = [a for a in sys.argv[1:] if not a.startswith('--')]
d = tempfile.mkdtemp(prefix='pktry-')
try:
    _copy_sources(d)
    r = subprocess.run(['git', 'apply', os.path.abspath(args[0])], cwd=d, capture_output=True, text=True)
    if r.returncode:
        sys.exit('patch does not apply: ' + r.stderr)
    for pid in args[1:]:
        r = subprocess.run(['/venv/bin/python', '-m', 'pkstatic', 'check', pid, '--repo', d], cwd='/verif', capture_output=True, text=True,
                           env=dict(os.environ, PKSTATIC_NO_EVIDENCE='1'))
        print(pid, 'rc', r.returncode)
        for line in (r.stdout + r.stderr).splitlines():
            if line.startswith(('FAIL', 'ANALYSIS', 'VIOLATION', '  ', 'Traceback')) or 'Error' in line:
                print('   ', line[:600])
    if '--keep' in sys.argv:
        print('kept', d)
finally:
    if '--keep' not in sys.argv:
        shutil.rmtree(d, ignore_errors=True)
