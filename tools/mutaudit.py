#!/venv/bin/python
"""dev tool: generic mutation audit of the rule coverage.

Applies generic mutation operators (comparison flips, and/or, statement deletion, constant tweaks,
+/-, min/max, index 0/-1, not-removal) to one module of /repo/pokerkit, analyses every mutant
statically with the checks that read that module, and lists the SURVIVORS (mutants no rule notices)
grouped by function.  Survivors are blind spots to look at by hand (many are equivalent mutants or
would be caught by the 145 tests; nothing here is part of a registered check).
usage: mutaudit.py <module> [--jobs N] [--funcs a,b,c] [--limit N]"""
import ast
import copy
import os
import shutil
import sys
import tempfile
from concurrent.futures import ProcessPoolExecutor

sys.path.insert(0, '/verif')
READERS = {
    'state': ['C01', 'C02', 'C03', 'C06', 'C07', 'C08', 'C09', 'C10', 'C12', 'C13', 'C14', 'C15', 'C19', 'C11'],
    'hands': ['C04', 'C05'], 'lookups': ['C04', 'C13'], 'utilities': ['C01', 'C04', 'C19', 'C13', 'C16', 'C20'], 'games': ['C11'],
    'notation': ['C11', 'C16', 'C17', 'C20'], 'analysis': ['C18'],
}
CMP = {ast.Lt: ast.LtE, ast.LtE: ast.Lt, ast.Gt: ast.GtE, ast.GtE: ast.Gt, ast.Eq: ast.NotEq, ast.NotEq: ast.Eq,
       ast.Is: ast.IsNot, ast.IsNot: ast.Is, ast.In: ast.NotIn, ast.NotIn: ast.In}


def sites(tree, only_funcs):
    """yield (description, mutator(tree_copy)) for every mutation site"""
    out = []
    funcs = []
    for n in ast.walk(tree):
        if isinstance(n, ast.FunctionDef):
            funcs.append(n)

    def owner(node):
        best = None
        for f in funcs:
            if f.lineno <= getattr(node, 'lineno', 0) <= (f.end_lineno or 0):
                if best is None or f.lineno >= best.lineno:
                    best = f
        return best.name if best else '<module>'
    idx = 0
    for n in ast.walk(tree):
        n._mid = idx
        idx += 1
    in_assert = set()
    for n in ast.walk(tree):
        if isinstance(n, ast.Assert):
            in_assert |= {id(x) for x in ast.walk(n)}
    for n in ast.walk(tree):
        if not hasattr(n, 'lineno') or id(n) in in_assert:
            continue
        fn = owner(n)
        if only_funcs and fn not in only_funcs:
            continue
        if fn == '<module>':
            continue
        if isinstance(n, ast.Assert) or any(isinstance(p, ast.Assert) for p in []):
            continue
        if isinstance(n, ast.Compare) and len(n.ops) == 1 and type(n.ops[0]) in CMP:
            out.append((fn, n.lineno, f'cmp {type(n.ops[0]).__name__}->{CMP[type(n.ops[0])].__name__}', n._mid, 'cmp'))
        if isinstance(n, ast.BoolOp):
            out.append((fn, n.lineno, 'and<->or', n._mid, 'bool'))
        if isinstance(n, ast.UnaryOp) and isinstance(n.op, ast.Not):
            out.append((fn, n.lineno, 'drop not', n._mid, 'not'))
        if isinstance(n, ast.BinOp) and isinstance(n.op, (ast.Add, ast.Sub)):
            out.append((fn, n.lineno, '+<->-', n._mid, 'arith'))
        if isinstance(n, ast.Constant) and isinstance(n.value, bool):
            out.append((fn, n.lineno, f'{n.value}->{not n.value}', n._mid, 'const'))
        elif isinstance(n, ast.Constant) and isinstance(n.value, int):
            out.append((fn, n.lineno, f'{n.value}->{n.value + 1}', n._mid, 'const'))
        if isinstance(n, ast.Call) and isinstance(n.func, ast.Name) and n.func.id in ('min', 'max', 'min_or_none', 'max_or_none', 'any', 'all'):
            out.append((fn, n.lineno, f'{n.func.id} swapped', n._mid, 'minmax'))
        if isinstance(n, (ast.Expr, ast.Assign, ast.AugAssign)) and not (isinstance(n, ast.Expr) and isinstance(n.value, ast.Constant)):
            out.append((fn, n.lineno, 'delete statement', n._mid, 'del'))
        if isinstance(n, ast.Call) and len(n.args) >= 2 and not n.keywords and all(isinstance(a, (ast.Name, ast.Attribute)) for a in n.args[:2]):
            out.append((fn, n.lineno, 'swap first two args', n._mid, 'swap'))
    return out


class Apply(ast.NodeTransformer):
    def __init__(self, mid, kind):
        self.mid, self.kind = mid, kind
        self.done = False

    def generic_visit(self, node):
        if getattr(node, '_mid', None) == self.mid and not self.done:
            self.done = True
            k = self.kind
            if k == 'cmp':
                node.ops = [CMP[type(node.ops[0])]()]
            elif k == 'bool':
                node.op = ast.Or() if isinstance(node.op, ast.And) else ast.And()
            elif k == 'not':
                return node.operand
            elif k == 'arith':
                node.op = ast.Sub() if isinstance(node.op, ast.Add) else ast.Add()
            elif k == 'const':
                node.value = (not node.value) if isinstance(node.value, bool) else node.value + 1
            elif k == 'minmax':
                node.func.id = {'min': 'max', 'max': 'min', 'min_or_none': 'max_or_none', 'max_or_none': 'min_or_none', 'any': 'all', 'all': 'any'}[node.func.id]
            elif k == 'del':
                return ast.copy_location(ast.Pass(), node)
            elif k == 'swap':
                node.args[0], node.args[1] = node.args[1], node.args[0]
            return node
        return super().generic_visit(node)


def work(job):
    module, src, (fn, line, desc, mid, kind), pids = job
    from pkstatic.selftest import _analyse, _copy_sources
    tree = ast.parse(src)
    i = 0
    for n in ast.walk(tree):
        n._mid = i
        i += 1
    tree = Apply(mid, kind).visit(tree)
    ast.fix_missing_locations(tree)
    try:
        out = ast.unparse(tree)
        compile(out, module, 'exec')
    except Exception:  # noqa
        return (fn, line, desc, 'invalid', [], mid, kind)
    d = tempfile.mkdtemp(prefix='pkmut-')
    try:
        _copy_sources(d)
        open(os.path.join(d, 'pokerkit', f'{module}.py'), 'w').write(out)
        hits = []
        errs = []
        for pid in pids:
            rc, fails = _analyse(d, pid)
            if rc == 1:
                hits.append(pid)
            elif rc >= 2:
                errs.append(pid)
        return (fn, line, desc, 'killed' if hits else ('error' if errs else 'SURVIVED'), hits or errs, mid, kind)
    finally:
        shutil.rmtree(d, ignore_errors=True)


def main():
    module = sys.argv[1]
    jobs_n = int(next((a.split('=')[1] for a in sys.argv if a.startswith('--jobs=')), 16))
    only = next((a.split('=')[1].split(',') for a in sys.argv if a.startswith('--funcs=')), None)
    limit = int(next((a.split('=')[1] for a in sys.argv if a.startswith('--limit=')), 100000))
    src = open(f'/repo/pokerkit/{module}.py').read()
    # work on the unparsed form so that node numbering is stable between parent and workers
    src = ast.unparse(ast.parse(src))
    tree = ast.parse(src)
    ss = sites(tree, only)[:limit]
    pids = READERS[module]
    print(f'{module}: {len(ss)} mutants x {len(pids)} checks', flush=True)
    with ProcessPoolExecutor(max_workers=jobs_n) as ex:
        res = list(ex.map(work, [(module, src, s, pids) for s in ss], chunksize=4))
    by = {}
    import json
    jout = next((a.split('=')[1] for a in sys.argv if a.startswith('--json=')), None)
    if jout:
        json.dump([dict(module=module, fn=fn, line=line, desc=desc, status=status, hits=hits, mid=mid, kind=kind,
                        text=src.splitlines()[line - 1].strip()) for fn, line, desc, status, hits, mid, kind in res], open(jout, 'w'), indent=0)
    for fn, line, desc, status, hits, mid, kind in res:
        by.setdefault(status, []).append((fn, line, desc, hits))
    print({k: len(v) for k, v in by.items()})
    surv = {}
    for fn, line, desc, hits in by.get('SURVIVED', []):
        surv.setdefault(fn, []).append((line, desc))
    lines = src.splitlines()
    for fn in sorted(surv, key=lambda f: -len(surv[f])):
        print(f'--- {fn}: {len(surv[fn])} survivors')
        for line, desc in surv[fn][:40]:
            print(f'    L{line} {desc}: {lines[line - 1].strip()[:110]}')
    errs = {}
    for fn, line, desc, hits in by.get('error', []):
        errs.setdefault(fn, 0)
        errs[fn] += 1
    print('analysis-errors (exit 2) by function:', errs)


if __name__ == '__main__':
    main()
