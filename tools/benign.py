#!/venv/bin/python
"""dev helper: whole-package behaviour-preserving transformations, then run every check on the result.
usage: benign.py <transform> [PID ...]    transforms: rename reformat flipcmp swapif all"""
import ast
import os
import shutil
import subprocess
import sys
import tempfile

MODS = ('utilities', 'lookups', 'hands', 'state', 'games', 'notation', 'analysis')


sys.path.insert(0, '/verif')
from pkstatic.benign import TRANSFORMS  # noqa


def main():
    tname = sys.argv[1]
    pids = sys.argv[2:] or [f'C{i:02d}' for i in range(1, 21)]
    d = tempfile.mkdtemp(prefix='pkbenign_')
    try:
        os.makedirs(os.path.join(d, 'pokerkit'))
        shutil.copy('/repo/pokerkit/__init__.py', os.path.join(d, 'pokerkit'))
        for m in MODS:
            src = open(f'/repo/pokerkit/{m}.py').read()
            tree = ast.parse(src)
            for t in TRANSFORMS[tname]:
                tree = t().visit(tree)
            ast.fix_missing_locations(tree)
            out = ast.unparse(tree)
            compile(out, m, 'exec')
            open(os.path.join(d, 'pokerkit', f'{m}.py'), 'w').write(out)
        if '--keep' in sys.argv:
            print('kept', d)
        # sanity: the transformed package still passes a quick smoke import + the repro script
        r = subprocess.run(['/venv/bin/python', '-c', 'import pokerkit, sys; print(pokerkit.__file__)'], cwd=d, capture_output=True, text=True, env={**os.environ, 'PYTHONPATH': d})
        print('import:', r.stdout.strip() or r.stderr.strip()[-200:])
        for pid in pids:
            if pid.startswith('--'):
                continue
            r = subprocess.run(['/venv/bin/python', '-m', 'pkstatic', 'check', pid, '--repo', d], cwd='/verif', capture_output=True, text=True, timeout=600)
            lines = [l for l in r.stdout.splitlines() if l.startswith(('  FAIL', 'ANALYSIS'))]
            print(f'{pid}: exit={r.returncode}', *[l[:230] for l in lines[:8]], sep='\n   ')
    finally:
        if '--keep' not in sys.argv:
            shutil.rmtree(d)


if __name__ == '__main__':
    main()
