#!/venv/bin/python
"""dev tool: run every check on every stored seed (scratch copies) and print who catches what."""
import glob, json, os, shutil, subprocess, sys, tempfile
from concurrent.futures import ProcessPoolExecutor
sys.path.insert(0, '/verif')
PIDS = [f'C{i:02d}' for i in range(1, 21)]

def work(patch):
    from pkstatic.selftest import _analyse, _copy_sources
    name = os.path.basename(os.path.dirname(patch))
    d = tempfile.mkdtemp(prefix='pkseed-')
    try:
        _copy_sources(d)
        r = subprocess.run(['git', 'apply', patch], cwd=d, capture_output=True, text=True)
        if r.returncode:
            return name, 'stale', {}
        res = {}
        for pid in PIDS:
            rc, fails = _analyse(d, pid)
            if rc:
                res[pid] = (rc, fails[:3])
        return name, 'ok', res
    finally:
        shutil.rmtree(d, ignore_errors=True)

if __name__ == '__main__':
    # optional arguments: substrings of seed names; only those seeds are re-judged and merged into the stored table
    only = sys.argv[1:]
    patches = sorted(p for p in glob.glob('/verif/seeded/*/patch.diff') if not only or any(o in p for o in only))
    with ProcessPoolExecutor(16) as ex:
        rows = list(ex.map(work, patches))
    out = json.load(open('/verif/seeded/MATRIX.json')) if only and os.path.exists('/verif/seeded/MATRIX.json') else {}
    for name, st, res in rows:
        own = name.split('_')[0]
        catch = sorted(p for p, (rc, f) in res.items() if rc == 1)
        errs = sorted(p for p, (rc, f) in res.items() if rc >= 2)
        rules = sorted({f for p, (rc, fs) in res.items() if rc == 1 for f in fs})
        out[name] = {'status': st, 'caught_by': catch, 'own': own in catch, 'errors': errs, 'rules': rules}
        print(f'{name:12s} {st:5s} own={"Y" if own in catch else "-"} by={catch} err={errs} {rules[:4]}')
    json.dump(out, open('/verif/seeded/MATRIX.json', 'w'), indent=1, sort_keys=True)
    n = [v for v in out.values() if v['status'] == 'ok']
    print(f'{len(n)} applicable seeds: caught by any check {sum(bool(v["caught_by"]) for v in n)}, by their own property {sum(v["own"] for v in n)}')
