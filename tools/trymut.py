#!/venv/bin/python
"""dev helper: apply a textual edit to a scratch copy of /repo/pokerkit and run checks on it.
usage: trymut.py <PID[,PID]> <module> <old> <new> [count]"""
import os, shutil, subprocess, sys, tempfile
pids, mod, old, new = sys.argv[1:5]
cnt = int(sys.argv[5]) if len(sys.argv) > 5 else 1
d = tempfile.mkdtemp(prefix='pkmut_')
try:
    shutil.copytree('/repo/pokerkit', os.path.join(d, 'pokerkit'), ignore=shutil.ignore_patterns('tests', '__pycache__'))
    p = os.path.join(d, 'pokerkit', mod + '.py')
    s = open(p).read()
    if s.count(old) < 1:
        print('PATTERN NOT FOUND'); sys.exit(3)
    s = s.replace(old, new, cnt)
    compile(s, p, 'exec')
    open(p, 'w').write(s)
    for pid in pids.split(','):
        r = subprocess.run(['/venv/bin/python', '-m', 'pkstatic', 'check', pid, '--repo', d], cwd='/verif', capture_output=True, text=True, timeout=300)
        lines = [l for l in r.stdout.splitlines() if l.startswith(('  FAIL', 'ANALYSIS'))]
        print(f'{pid}: exit={r.returncode}', *lines[:6], sep='\n   ')
        if r.returncode not in (0, 1): print(r.stdout[-600:], r.stderr[-600:])
finally:
    shutil.rmtree(d)
