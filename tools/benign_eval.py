#!/venv/bin/python
"""dev tool: run every check on behaviour-preserving patches produced by independent sub-agents
(<root>/<PID>/seeds/<name>/patch.diff) and print the alarms (each one is a false alarm to fix, or a patch that is not benign).
usage: benign_eval.py <root> [--tests] [--store]   (--store copies confirmed-silent-and-tested ones to /verif/seeded_benign/)"""
import glob, json, os, shutil, subprocess, sys, tempfile
from concurrent.futures import ProcessPoolExecutor
sys.path.insert(0, '/verif')
PIDS = [f'C{i:02d}' for i in range(1, 21)]
PREFIX = next((a.split('=', 1)[1] for a in sys.argv if a.startswith('--prefix=')), '')


def work(job):
    patch, tests = job
    from pkstatic.selftest import _analyse, _copy_sources
    name = os.path.basename(os.path.dirname(patch))
    d = tempfile.mkdtemp(prefix='pkbenign-')
    try:
        _copy_sources(d)
        r = subprocess.run(['git', 'apply', patch], cwd=d, capture_output=True, text=True)
        if r.returncode:
            return name, patch, 'stale', {}, None
        res = {}
        for pid in PIDS:
            rc, fails = _analyse(d, pid)
            if rc:
                res[pid] = (rc, fails[:4])
        t = None
        if tests and not res:
            wt = os.path.dirname(os.path.dirname(os.path.dirname(patch)))
            d2 = tempfile.mkdtemp(prefix='pkbenignt-')
            try:
                shutil.copytree('/repo/pokerkit', os.path.join(d2, 'pokerkit'), ignore=shutil.ignore_patterns('__pycache__'))
                subprocess.run(['git', 'apply', patch], cwd=d2, check=True, capture_output=True)
                r = subprocess.run('/venv/bin/python -m pytest -q -p no:cacheprovider -n 3 --timeout=900 2>&1 | tail -1', cwd=d2, shell=True,
                                   capture_output=True, text=True, env=dict(os.environ, PYTHONPATH=d2))
                t = r.stdout.strip()
            finally:
                shutil.rmtree(d2, ignore_errors=True)
        return name, patch, 'ok', res, t
    finally:
        shutil.rmtree(d, ignore_errors=True)


if __name__ == '__main__':
    root = sys.argv[1]
    tests = '--tests' in sys.argv
    only = [a for a in sys.argv[2:] if not a.startswith('--')]
    patches = sorted(glob.glob(os.path.join(root, '*', 'seeds', '*', 'patch.diff')))
    if only:
        patches = [p for p in patches if any(o in p for o in only)]
    with ProcessPoolExecutor(5 if tests else 16) as ex:
        rows = list(ex.map(work, [(p, tests) for p in patches]))
    n_alarm = 0
    for name, patch, st, res, t in rows:
        alarms = {p: v for p, v in res.items()}
        n_alarm += bool(alarms)
        print(f'{name:10s} {st:5s} tests={t} alarms={alarms if alarms else "-"}')
        if '--store' in sys.argv and st == 'ok' and not alarms and (t is None or '145 passed' in t):
            dst = f'/verif/seeded_benign/{PREFIX}{name}'
            os.makedirs(dst, exist_ok=True)
            shutil.copy(patch, dst)
            meta = os.path.join(os.path.dirname(patch), 'meta.json')
            if os.path.exists(meta):
                shutil.copy(meta, dst)
    print(f'{len(rows)} patches, {n_alarm} with alarms')
