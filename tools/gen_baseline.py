#!/venv/bin/python
"""dev tool: freeze the per-rule instance counts of the current (reviewed) tree as vacuity floors.
Run after every deliberate change of a rule; the file is read by report.Check.finish."""
import json
out = {}
for i in range(1, 21):
    pid = f'C{i:02d}'
    out[pid] = json.load(open(f'/verif/evidence/{pid}.json'))['coverage']['rules']
json.dump(out, open('/verif/pkstatic/baseline_counts.json', 'w'), indent=1, sort_keys=True)
print(sum(len(v) for v in out.values()), 'rules frozen')
