#!/venv/bin/python
"""Regenerates /verif/MANIFEST.json from the table below (kept valid at all times)."""
import json
import os
import sys

HERE = os.path.dirname(os.path.dirname(os.path.abspath(__file__)))
sys.path.insert(0, HERE)
from pkstatic.registry import CHECKS, NOT_APPLICABLE  # noqa

PY = '/venv/bin/python'


def main():
    checks = []
    for pid, c in sorted(CHECKS.items()):
        checks.append({
            'property_id': pid,
            'quick_cmd': f'{PY} -m pkstatic check {pid} --tier quick',
            'thorough_cmd': f'{PY} -m pkstatic check {pid} --tier thorough',
            'evidence_file': f'/verif/evidence/{pid}.json',
            'replay_cmd_template': f'{PY} -m pkstatic explain {{path}}',
            'engine': 'pkstatic',
            'level_claimed': {
                'category': 'other',
                'text': c['level'],
                'design_ref': f'DESIGN.md section 3, {pid}',
            },
            'level_note': c['note'],
            'technique': c['technique'],
        })
    m = {
        'version': 1,
        'setup_cmd': f'{PY} -m pkstatic setup',
        'hooks': {
            'guard': 'POKERKIT_VERIF',
            'enable': 'none: static analysis reads the source of /repo/pokerkit, no instrumentation exists',
            'baseline_off_cmd': 'cd /repo && /venv/bin/python -m pytest -ra -q -p no:cacheprovider --timeout=900 --continue-on-collection-errors',
            'source_commits': [],
            'add_only': True,
        },
        'engines': [{
            'name': 'pkstatic',
            'path': '/verif/pkstatic',
            'serves_properties': sorted(CHECKS),
            'kind_free_text': 'repository-specific static analysis on the stdlib ast: program model + C3 MRO + resolved self-call graph, '
                              'structured path-sensitive symbolic walker, canonical term normaliser (spec formulas pushed through the same normaliser), '
                              'MOD/RAISES effect closure, static evaluator of declarations; never imports or runs pokerkit',
        }],
        'checks': checks,
        'not_applicable': [{'property_id': k, 'reason': v} for k, v in sorted(NOT_APPLICABLE.items())],
        'notes': 'All checks are static (ast) and decide named structural clauses that are necessary conditions of the property; '
                 'what is not decided is listed per property in DESIGN.md section 3 and in each level_note. '
                 'Genuine defects found and repaired are listed in known_findings.txt (fixed:), unrepaired ones as known:.',
    }
    with open(os.path.join(HERE, 'MANIFEST.json'), 'w') as fp:
        json.dump(m, fp, indent=1)
        fp.write('\n')
    print('claimed', sorted(CHECKS), 'n/a', sorted(NOT_APPLICABLE))


if __name__ == '__main__':
    main()
