#!/venv/bin/python
"""dev tool: run the repository's test suite on the mutants that survived tools/mutaudit.py (--json output),
to separate blind spots that matter (mutant passes all 145 tests) from mutants the tests kill anyway.
usage: mutfilter.py <audit.json> [--jobs=N] [--out=file]"""
import ast, json, os, shutil, subprocess, sys, tempfile
from concurrent.futures import ThreadPoolExecutor
sys.path.insert(0, '/verif/tools')
from mutaudit import Apply  # noqa

PY = '/venv/bin/python'
STAGES = [
    # fast first: everything but the md5 lookups, the equities and the WSOP replays
    ['-x', '--ignore=pokerkit/tests/test_wsop', '--deselect', 'pokerkit/tests/test_lookups.py', '--deselect',
     'pokerkit/tests/test_analysis.py::HandHistoryTestCase::test_calculate_equities'],
    ['-x', 'pokerkit/tests/test_lookups.py', 'pokerkit/tests/test_analysis.py', '-n', '3'],
    ['-x', 'pokerkit/tests/test_wsop', '-n', '4'],
]


def mutant_source(module, mid, kind):
    src = ast.unparse(ast.parse(open(f'/repo/pokerkit/{module}.py').read()))
    tree = ast.parse(src)
    for i, n in enumerate(ast.walk(tree)):
        n._mid = i
    tree = Apply(mid, kind).visit(tree)
    ast.fix_missing_locations(tree)
    return ast.unparse(tree)


def work(m):
    d = tempfile.mkdtemp(prefix='pkmutf-')
    try:
        shutil.copytree('/repo/pokerkit', os.path.join(d, 'pokerkit'), ignore=shutil.ignore_patterns('__pycache__'))
        open(os.path.join(d, 'pokerkit', f"{m['module']}.py"), 'w').write(mutant_source(m['module'], m['mid'], m['kind']))
        env = dict(os.environ, PYTHONPATH=d)
        for k, st in enumerate(STAGES):
            r = subprocess.run([PY, '-m', 'pytest', '-q', '-p', 'no:cacheprovider', '--timeout=600'] + st, cwd=d, env=env, capture_output=True, text=True)
            if r.returncode != 0:
                return dict(m, tests=f'killed@{k}')
        return dict(m, tests='PASS')
    finally:
        shutil.rmtree(d, ignore_errors=True)


def main():
    ms = [m for m in json.load(open(sys.argv[1])) if m['status'] == 'SURVIVED']
    jobs = int(next((a.split('=')[1] for a in sys.argv if a.startswith('--jobs=')), 4))
    out = next((a.split('=')[1] for a in sys.argv if a.startswith('--out=')), sys.argv[1].replace('.json', '.tested.json'))
    print(len(ms), 'survivors to test', flush=True)
    with ThreadPoolExecutor(jobs) as ex:
        res = list(ex.map(work, ms))
    json.dump(res, open(out, 'w'), indent=0)
    for r in res:
        if r['tests'] == 'PASS':
            print(f"PASSES-TESTS {r['module']}.{r['fn']} L{r['line']} {r['desc']}: {r['text'][:120]}")
    print({k: sum(1 for r in res if r['tests'] == k) for k in sorted({r['tests'] for r in res})})


if __name__ == '__main__':
    main()
