#!/venv/bin/python
"""dev helper: print the canonical (post source-level canonicalisation) form of a function.  usage: canon.py <module> <name> [repo]"""
import ast, sys
sys.path.insert(0, '/verif')
from pkstatic.model import Program
prog = Program(sys.argv[3] if len(sys.argv) > 3 else None)
mi = prog.modules[sys.argv[1]]
for n in ast.walk(mi.tree):
    if isinstance(n, ast.FunctionDef) and n.name == sys.argv[2]:
        body = [s for s in n.body if not (isinstance(s, ast.Expr) and isinstance(s.value, ast.Constant))]
        n2 = ast.FunctionDef(name=n.name, args=n.args, body=body, decorator_list=[], lineno=n.lineno, col_offset=0, type_params=[])
        print(ast.unparse(n2)); print()
