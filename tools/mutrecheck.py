#!/venv/bin/python
"""dev tool: re-analyse, with the current rules, the mutants that passed the whole test suite (from mutfilter's *.tested.json)."""
import json, os, shutil, sys, tempfile
from concurrent.futures import ProcessPoolExecutor
sys.path.insert(0, '/verif'); sys.path.insert(0, '/verif/tools')
from mutaudit import READERS  # noqa
from mutfilter import mutant_source  # noqa


def work(m):
    from pkstatic.selftest import _analyse, _copy_sources
    d = tempfile.mkdtemp(prefix='pkmutr-')
    try:
        _copy_sources(d)
        open(os.path.join(d, 'pokerkit', f"{m['module']}.py"), 'w').write(mutant_source(m['module'], m['mid'], m['kind']))
        hits = {}
        for pid in READERS[m['module']]:
            rc, fails = _analyse(d, pid)
            if rc:
                hits[pid] = (rc, fails[:2])
        return m, hits
    finally:
        shutil.rmtree(d, ignore_errors=True)


if __name__ == '__main__':
    ms = []
    for f in sys.argv[1:]:
        ms += [m for m in json.load(open(f)) if m.get('tests') == 'PASS']
    with ProcessPoolExecutor(12) as ex:
        res = list(ex.map(work, ms))
    left = 0
    for m, hits in res:
        tag = 'caught' if any(rc == 1 for rc, _ in hits.values()) else ('error' if hits else 'SURVIVES')
        left += tag != 'caught'
        print(f"{tag:8s} {m['module']}.{m['fn']} L{m['line']} {m['desc']}: {m['text'][:90]}  {hits if tag != 'SURVIVES' else ''}"[:260])
    print(f'{len(res)} test-passing mutants, {left} not caught')
