#!/venv/bin/python
"""Confirm seeded changes produced by independent sub-agents and run the checks on them.

For every <worktree>/seeds/<ID>_<k>/ (patch.diff, demo.py, meta.json):
  * demo passes on the clean worktree, fails with the patch,
  * the full pinned test suite passes with the patch,
  * every claimed pkstatic check is run against the patched source (--repo <worktree>),
then the seed is stored as /verif/seeded/<ID>_<k>/ with meta.json extended by what was run and seen.
Nothing is applied to /repo itself.  usage: seed_eval.py <worktree> [--no-tests] [names...]
"""
import json
import os
import shutil
import subprocess
import sys

VERIF = '/verif'
PY = '/venv/bin/python'


def sh(cmd, cwd, timeout=1500, env=None):
    e = dict(os.environ)
    e.update(env or {})
    r = subprocess.run(cmd, cwd=cwd, shell=isinstance(cmd, str), capture_output=True, text=True, timeout=timeout, env=e)
    return r.returncode, (r.stdout + r.stderr)


def claimed():
    sys.path.insert(0, VERIF)
    from pkstatic.registry import CHECKS
    return sorted(CHECKS)


def run_checks(repo, pids):
    out = {}
    for pid in pids:
        rc, txt = sh([PY, '-m', 'pkstatic', 'check', pid, '--repo', repo], VERIF, 600, env={'PKSTATIC_NO_EVIDENCE': '1'})
        fails = [l.strip() for l in txt.splitlines() if l.startswith('  FAIL')]
        out[pid] = {'exit': rc, 'fails': [f[:260] for f in fails][:8]}
        if rc not in (0, 1):
            out[pid]['error'] = txt[-400:]
    return out


def main():
    wt = sys.argv[1]
    no_tests = '--no-tests' in sys.argv
    names = [a for a in sys.argv[2:] if not a.startswith('--')]
    rnd = next((a.split('=')[1] for a in sys.argv if a.startswith('--round=')), None)
    sdir = os.path.join(wt, 'seeds')
    pids = claimed()
    env = {'PYTHONPATH': wt}
    for name in sorted(os.listdir(sdir)):
        if names and name not in names:
            continue
        d = os.path.join(sdir, name)
        patch = os.path.join(d, 'patch.diff')
        demo = os.path.join(d, 'demo.py')
        if not (os.path.exists(patch) and os.path.exists(demo)):
            print(name, 'INCOMPLETE')
            continue
        sh('git checkout -- .', wt)
        res = {'seed': name}
        rc0, out0 = sh([PY, demo], wt, 600, env)
        res['demo_clean_exit'] = rc0
        rc, out = sh(['git', 'apply', patch], wt)
        if rc != 0:
            print(name, 'PATCH DOES NOT APPLY', out[-200:])
            continue
        try:
            rc1, out1 = sh([PY, demo], wt, 600, env)
            res['demo_patched_exit'] = rc1
            res['demo_patched_tail'] = out1.strip().splitlines()[-1][:300] if out1.strip() else ''
            rc, imp = sh([PY, '-c', 'import pokerkit;print(pokerkit.__file__)'], wt, 60, env)
            res['imports_worktree'] = imp.strip().startswith(wt)
            if not no_tests:
                rct, outt = sh(f'{PY} -m pytest -q -p no:cacheprovider -n 4 --timeout=900 2>&1 | tail -1', wt, 1500, env)
                res['tests'] = outt.strip()
            res['checks'] = run_checks(wt, pids)
        finally:
            sh('git checkout -- .', wt)
        caught = sorted(p for p, r in res['checks'].items() if r['exit'] == 1)
        broken = sorted(p for p, r in res['checks'].items() if r['exit'] not in (0, 1))
        res['caught_by'] = caught
        res['analysis_errors'] = broken
        ok = rc0 == 0 and res['demo_patched_exit'] != 0 and (no_tests or '145 passed' in res.get('tests', ''))
        res['confirmed'] = ok
        meta = {}
        try:
            meta = json.load(open(os.path.join(d, 'meta.json')))
        except Exception as ex:  # noqa
            meta = {'meta_error': str(ex)}
        meta['confirmation'] = res
        if ok:
            pid_, _, k_ = name.partition('_')
            pid3, suffix = pid_[:3], pid_[3:]          # (C16b_2 of round 10 is stored as C16_r10_b2)
            dst = os.path.join(VERIF, 'seeded', f'{pid3}_r{rnd}_{suffix}{k_}' if rnd else name)
            os.makedirs(dst, exist_ok=True)
            shutil.copy(patch, dst)
            shutil.copy(demo, dst)
            json.dump(meta, open(os.path.join(dst, 'meta.json'), 'w'), indent=1)
        print(name, 'confirmed' if ok else 'NOT CONFIRMED', 'caught_by', caught, 'errors', broken,
              '| tests:', res.get('tests', 'skipped'), '| demo clean/patched:', rc0, res['demo_patched_exit'])


if __name__ == '__main__':
    main()
