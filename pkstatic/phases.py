"""Shared analyses over State's hand-written typestate machine:
phase preconditions of operations, freshness of facts along a path,
verified-or-None wrapper properties, automation sites."""
from __future__ import annotations

import ast

from . import terms as T
from .model import AnalysisError, self_attr, walk_no_nested
from .paths import Path, unversion

# operation -> (phase update method, pending structure it must make progress on)
OPERATIONS = {
    'post_ante': ('_update_ante_posting', 'ante_posting_statuses'),
    'collect_bets': ('_update_bet_collection', 'bet_collection_status'),
    'post_blind_or_straddle': ('_update_blind_or_straddle_posting', 'blind_or_straddle_posting_statuses'),
    'burn_card': ('_update_dealing', 'card_burning_status'),
    'deal_hole': ('_update_dealing', 'hole_dealing_statuses'),
    'deal_board': ('_update_dealing', 'board_dealing_counts'),
    'stand_pat_or_discard': ('_update_dealing', 'standing_pat_or_discarding_statuses'),
    'fold': ('_update_betting', 'actor_indices'),
    'check_or_call': ('_update_betting', 'actor_indices'),
    'post_bring_in': ('_update_betting', 'actor_indices'),
    'complete_bet_or_raise_to': ('_update_betting', 'actor_indices'),
    'select_runout_count': ('_update_showdown', 'runout_count_selector_statuses'),
    'show_or_muck_hole_cards': ('_update_showdown', 'showdown_indices'),
    'kill_hand': ('_update_hand_killing', 'hand_killing_statuses'),
    'push_chips': ('_update_chips_pushing', '_sub_pots'),
    'pull_chips': ('_update_chips_pulling', 'chips_pulling_statuses'),
    'no_operate': ('_update', None),
}

AUTOMATION_OPS = {
    'ANTE_POSTING': 'post_ante',
    'BET_COLLECTION': 'collect_bets',
    'BLIND_OR_STRADDLE_POSTING': 'post_blind_or_straddle',
    'CARD_BURNING': 'burn_card',
    'HOLE_DEALING': 'deal_hole',
    'BOARD_DEALING': 'deal_board',
    'RUNOUT_COUNT_SELECTION': 'select_runout_count',
    'HOLE_CARDS_SHOWING_OR_MUCKING': 'show_or_muck_hole_cards',
    'HAND_KILLING': 'kill_hand',
    'CHIPS_PUSHING': 'push_chips',
    'CHIPS_PULLING': 'pull_chips',
}


def only_state(t) -> bool:
    """term mentions no local name / parameter (only self state, constants, builtins)"""
    for s in T.subterms(t):
        if isinstance(s, tuple) and s and s[0] in ('name',) and s[1] not in ('self', 'Automation', 'Mode', 'Opening', 'BettingStructure'):
            return False
        if isinstance(s, tuple) and s and s[0] in ('elem', 'proj', 'bound', 'opaque'):
            return False
    return True


def conjuncts(t):
    if t[0] == 'and':
        out = []
        for x in t[1]:
            out.extend(conjuncts(x))
        return out
    return [t]


def top_level_raise_guards(fi):
    """(guard term, polarity path) for top-level ``if/elif`` chains of fi whose
    arm raises; only arms reached without passing a parameter-dependent test"""
    out = []
    for st in fi.body:
        cur = st
        while isinstance(cur, ast.If):
            raises = any(isinstance(x, ast.Raise) for x in cur.body)
            g = T.cond(cur.test)
            if raises and only_state(g):
                out.append((g, cur))
            cur = cur.orelse[0] if len(cur.orelse) == 1 and isinstance(cur.orelse[0], ast.If) else None
    return out


def verifier_chain(ctx, verifier: str):
    """the verifier and the argument-free ``_verify_*`` helpers it calls"""
    ms = ctx.state.methods
    vf = ms[verifier]
    helpers = []
    for n in walk_no_nested(vf.node):
        if isinstance(n, ast.Call) and self_attr(n.func) in ms:
            name = self_attr(n.func)
            if name.startswith('_verify_') and not n.args and not n.keywords:
                helpers.append(ms[name])
    return vf, helpers


def phase_pre(ctx, verifier: str):
    """phase precondition of the operation guarded by ``verifier`` when called
    with default arguments: the negated state-only raise guards, as
    (conjunct term, origin function name)."""
    vf, helpers = verifier_chain(ctx, verifier)
    out = []
    for f in helpers + [vf]:
        for g, node in top_level_raise_guards(f):
            for c in conjuncts(T.mk_not(g)):
                out.append((c, f.name))
    return out


def wrapper_properties(ctx):
    """{property: helper}: a property whose first statement is
    ``try: self._verify_X() except ...: return None`` (verified-or-None)"""
    ms = ctx.state.methods
    out = {}
    for name, fi in ms.items():
        if not fi.is_property:
            continue
        for st in fi.body[:1]:
            if isinstance(st, ast.Try):
                cs = [self_attr(n.func) for s in st.body for n in ast.walk(s)
                      if isinstance(n, ast.Call) and self_attr(n.func) in ms]
                cs = [c for c in cs if c.startswith(('_verify_', 'verify_'))]
                none_handler = all(
                    any(isinstance(x, ast.Return) and (x.value is None or (isinstance(x.value, ast.Constant) and x.value.value is None))
                        for x in h.body)
                    or any(isinstance(x, ast.Assign) and isinstance(x.value, ast.Constant) and x.value.value is None for x in h.body)
                    for h in st.handlers)
                if len(cs) == 1 and none_handler:
                    out[name] = cs[0]
    return out


def aliases_at(ctx, node) -> dict:
    """local aliases of storage (``x = self.A[i]``) of the State method that contains ``node``"""
    from .effects import local_aliases
    cache = ctx.__dict__.setdefault('_alias_cache', {})
    for name, fi in ctx.state.methods.items():
        if name not in cache:
            cache[name] = (set(map(id, ast.walk(fi.node))), local_aliases(fi.node))
        ids, al = cache[name]
        if id(node) in ids:
            return al
    return {}


def loop_body_mod(ctx, node) -> set:
    """attributes a loop body may modify (direct writes + MOD* of self calls)"""
    eff = ctx.eff
    mod = set()
    for n in ast.walk(node):
        if isinstance(n, ast.Call) and self_attr(n.func) in eff.methods:
            mod |= eff.mod.get(self_attr(n.func), set())
        a = self_attr(n)
        if a is not None and a in eff.methods and ctx.state.methods[a].is_property:
            mod |= eff.mod.get(a, set())
    from .effects import local_aliases, storage_roots, MUTATORS
    al = aliases_at(ctx, node)
    for n in ast.walk(node):
        tg = []
        if isinstance(n, ast.Assign):
            tg = n.targets
        elif isinstance(n, (ast.AugAssign, ast.AnnAssign)):
            tg = [n.target]
        for t in tg:
            mod |= storage_roots(t, al) if not isinstance(t, ast.Name) else set()
        if isinstance(n, ast.Call) and isinstance(n.func, ast.Attribute) and n.func.attr in MUTATORS:
            mod |= storage_roots(n.func.value, al)
    return mod


def fresh_facts(ctx, path: Path, k: int) -> list:
    """conjuncts assumed on ``path`` before event k that no later event
    (write, mutating call, loop back edge) may have invalidated"""
    eff = ctx.eff
    facts = []   # (term, attrs)
    evs = path.events

    def kill(mod):
        nonlocal facts
        if mod:
            facts = [(t, a) for (t, a) in facts if not (a & mod) and '*' not in mod]

    for i, e in enumerate(evs[:k]):
        if e.kind == 'assume':
            for c in conjuncts(unversion(e.term)):
                facts.append((c, T.self_attrs(c) | _prop_reads(ctx, c)))
        elif e.kind == 'write':
            r = T.root_self_attr(e.term)
            kill({r} if r else set())
        elif e.kind == 'call':
            if e.value[0] == 'self':
                kill(eff.mod.get(e.value[1], set()))
        elif e.kind == 'loop' and e.op == 'enter':
            mod = loop_body_mod(ctx, e.node)
            keep = None
            if isinstance(e.node, ast.While) and i > 0 and evs[i - 1].kind == 'assume' and evs[i - 1].node is e.node:
                keep = [c for c in conjuncts(unversion(evs[i - 1].term))]
            kill(mod)
            if keep:
                for c in keep:
                    if all(c != t for t, _ in facts):
                        facts.append((c, T.self_attrs(c) | _prop_reads(ctx, c)))
    return [t for t, _ in facts]


def _prop_reads(ctx, term) -> set:
    """attributes read (transitively) by the properties / methods a term mentions"""
    eff = ctx.eff
    out = set()
    for a in T.self_attrs(term):
        if a in eff.methods:
            for m in [a] + sorted(eff.reach.get(a, ())):
                out |= eff.reads.get(m, set())
    for s in T.subterms(term):
        if isinstance(s, tuple) and s and s[0] == 'mcall' and s[1] == ('name', 'self') and s[2] in eff.methods:
            for m in [s[2]] + sorted(eff.reach.get(s[2], ())):
                out |= eff.reads.get(m, set())
    return out


def implied(ctx, need, origin, facts, verifier, wrappers) -> tuple[bool, str]:
    """is the precondition conjunct ``need`` (coming from function ``origin``)
    implied by the fresh facts?"""
    if need in facts:
        return True, 'stated'
    if need[0] == 'or' and any(d in facts for d in need[1]):
        return True, 'disjunct stated'
    # self.can_X() for the operation's own query
    for f in facts:
        if f[0] == 'mcall' and f[1] == ('name', 'self') and f[2].startswith('can_'):
            for ops, v, q in ctx.triples():
                if q == f[2] and v == verifier and not f[3] and not f[4]:
                    return True, f'{q}()'
        if f[0] == 'isnot' and ('const', None) in f[1]:
            other = [x for x in f[1] if x != ('const', None)][0]
            if other[0] == 'self' and wrappers.get(other[1]) == origin:
                return True, f'{other[1]} is not None (verified-or-None wrapper of {origin})'
    return False, ''


def automation_sites(ctx):
    """every ``Automation.M in self.automations`` test in State with the calls
    it guards: (method, member, test node, guarded statements)"""
    out = []
    for name, fi in ctx.state.methods.items():
        for n in walk_no_nested(fi.node):
            if isinstance(n, (ast.If, ast.While)):
                for c in _conj_nodes(n.test):
                    m = _automation_member(c)
                    if m is not None:
                        out.append((fi, m, n, n.body))
    return out


def _conj_nodes(test):
    if isinstance(test, ast.BoolOp) and isinstance(test.op, ast.And):
        out = []
        for v in test.values:
            out.extend(_conj_nodes(v))
        return out
    return [test]


def _automation_member(c):
    if isinstance(c, ast.Compare) and len(c.ops) == 1 and isinstance(c.ops[0], ast.In) \
            and self_attr(c.comparators[0]) == 'automations' \
            and isinstance(c.left, ast.Attribute) and isinstance(c.left.value, ast.Name) \
            and c.left.value.id == 'Automation':
        return c.left.attr
    return None


def self_calls_in(stmts):
    out = []
    for st in stmts:
        for n in ast.walk(st):
            if isinstance(n, ast.Call) and self_attr(n.func) is not None:
                out.append(n)
    return out
