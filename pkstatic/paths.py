"""Engine B: structured, path-sensitive symbolic walk of one function.

The repo's code is structured (if/elif/else, while, for-else, try/except/else,
match/case, return, raise, break/continue, assert, nested def), so paths are
enumerated directly over the syntax tree; loop bodies are taken 0 or 1 times.
Each path carries: the environment of local bindings (terms), the ordered list
of events (assumptions, writes to storage reachable from ``self``, calls,
asserts, yields) and its outcome (return term / raised exception / fall-off).
Nothing is executed: values are the canonical terms of ``terms.py``.
"""
from __future__ import annotations

import ast
from dataclasses import dataclass, field

from . import terms as T
from .effects import MUTATORS
from .model import AnalysisError

MAX_PATHS = 60000


@dataclass
class Event:
    kind: str          # assume | write | call | assert | yield | loop | exc
    node: ast.AST
    term: tuple = ()   # assume: condition; write: target; call: call term
    value: tuple = ()  # write: value term; call: callee descriptor
    op: str = ''       # write: set | += | -= | del | call:<method>; loop: enter/skip/exit

    @property
    def lineno(self) -> int:
        return getattr(self.node, 'lineno', 0)


def _conjuncts(t):
    for x in t[1]:
        if x[0] == 'and':
            yield from _conjuncts(x)
        else:
            yield x


@dataclass
class Path:
    env: dict = field(default_factory=dict)
    events: list = field(default_factory=list)
    versions: dict = field(default_factory=dict)
    loops: list = field(default_factory=list)
    localfns: dict = field(default_factory=dict)
    outcome: tuple | None = None   # ('return', term|None, node) / ('raise', name, node) / ('fall',)

    def fork(self) -> 'Path':
        return Path(dict(self.env), list(self.events), dict(self.versions),
                    list(self.loops), dict(self.localfns), self.outcome)

    # convenience views
    def conds(self, flat=False):
        """the assumptions of the path; with ``flat`` a conjunction is followed by its conjuncts (``if not (a or b)`` assumes
        not a, and not b)"""
        out = []
        for e in self.events:
            if e.kind == 'assume':
                out.append(e.term)
                if flat and e.term[0] == 'and':
                    out.extend(_conjuncts(e.term))
        if flat:
            # unit resolution: (a or b) together with not b gives a
            known = {unversion(c) for c in out}
            for c in list(out):
                if c[0] == 'or':
                    rest = [d for d in c[1] if T.mk_not(unversion(d)) not in known]
                    if len(rest) == 1 and unversion(rest[0]) not in known:
                        out.append(rest[0])
        return out

    def writes(self):
        return [e for e in self.events if e.kind == 'write']

    def calls(self):
        return [e for e in self.events if e.kind == 'call']

    @property
    def returned(self):
        return self.outcome is not None and self.outcome[0] == 'return'

    @property
    def raised(self):
        return self.outcome is not None and self.outcome[0] == 'raise'


class Walker:
    def __init__(self, fn: ast.FunctionDef, *, self_name='self', modstar=None,
                 versioning=True, max_paths=MAX_PATHS, inline_attr=None,
                 assume_asserts=False, body=None, env=None):
        self.fn = fn
        self.self_name = self_name
        self.modstar = modstar or {}
        self.versioning = versioning
        self.max_paths = max_paths
        self.inline_attr = inline_attr
        self.assume_asserts = assume_asserts
        self.count = 0
        self.body = body
        self.env0 = env or {}

    # ------------------------------------------------------------------ api
    def run(self) -> list[Path]:
        from .model import strip_docstring
        p = Path(env=dict(self.env0))
        body = self.body if self.body is not None else strip_docstring(self.fn.body)
        out = []
        for q, flow in self.block(body, p):
            if q.outcome is None:
                q.outcome = ('fall',)
            out.append(q)
        return out

    # ------------------------------------------------------------ evaluation
    def normaliser(self, p: Path) -> T.Normaliser:
        def hook(name):
            if self.inline_attr is not None:
                r = self.inline_attr(name, p)
                if r is not None:
                    return r
            v = p.versions.get(name, 0)
            if v and self.versioning:
                return ('selfv', name, v)
            return None
        return T.Normaliser(p.env, self_name=self.self_name, self_attr_hook=hook)

    def ev(self, e, p: Path):
        """term of expression ``e``; records call events in evaluation order"""
        self.scan_calls(e, p)
        return self.normaliser(p).norm(e)

    def evc(self, e, p: Path):
        self.scan_calls(e, p)
        return self.normaliser(p).cond(e)

    def scan_calls(self, e, p: Path) -> None:
        for n in _postorder(e):
            if isinstance(n, ast.Call):
                self.on_call(n, p)
            elif isinstance(n, (ast.Yield, ast.YieldFrom)):
                v = self.normaliser(p).norm(n.value) if n.value is not None else ('const', None)
                p.events.append(Event('yield', n, v, op='from' if isinstance(n, ast.YieldFrom) else ''))
            elif isinstance(n, ast.NamedExpr):
                p.env[n.target.id] = self.normaliser(p).norm(n.value)

    def on_call(self, n: ast.Call, p: Path) -> None:
        nz = self.normaliser(p)
        f = n.func
        desc = None
        if isinstance(f, ast.Attribute):
            if isinstance(f.value, ast.Name) and f.value.id == self.self_name:
                desc = ('self', f.attr)
            elif isinstance(f.value, ast.Call) and isinstance(f.value.func, ast.Name) \
                    and f.value.func.id == 'super':
                desc = ('super', f.attr)
            else:
                recv = nz.norm(f.value)
                root = T.root_self_attr(_unversion(recv))
                if f.attr in MUTATORS and root is not None:
                    args = tuple(nz.norm(a) for a in n.args)
                    p.events.append(Event('write', n, _unversion(recv), ('tuple', args), 'call:' + f.attr))
                    self.bump(p, {root})
                    return
                desc = ('method', recv, f.attr)
        elif isinstance(f, ast.Name):
            if f.id in p.localfns:
                desc = ('local', f.id)
            else:
                desc = ('name', f.id)
        else:
            desc = ('expr',)
        term = nz.norm(n)
        p.events.append(Event('call', n, term, desc))
        if desc[0] == 'self':
            self.bump(p, self.modstar.get(desc[1], ()))
        if desc[0] == 'name' and desc[1] == 'shuffle' and n.args:
            root = T.root_self_attr(_unversion(nz.norm(n.args[0])))
            if root is not None:
                p.events.append(Event('write', n, ('self', root), (), 'call:shuffle'))
                self.bump(p, {root})

    def bump(self, p: Path, attrs) -> None:
        for a in attrs:
            p.versions[a] = p.versions.get(a, 0) + 1

    # ------------------------------------------------------------- statements
    def block(self, stmts, p: Path):
        """yield (path, flow) with flow in next|break|continue|return|raise"""
        if not stmts:
            yield p, 'next'
            return
        head, rest = stmts[0], stmts[1:]
        for q, flow in self.stmt(head, p):
            if flow == 'next':
                yield from self.block(rest, q)
            else:
                yield q, flow

    def tick(self):
        self.count += 1
        if self.count > self.max_paths:
            raise AnalysisError(f'path budget exceeded in {self.fn.name}')

    def stmt(self, st, p: Path):
        m = getattr(self, 's_' + type(st).__name__, None)
        if m is None:
            yield p, 'next'
            return
        yield from m(st, p)

    def s_Expr(self, st, p):
        self.scan_calls(st.value, p)
        yield p, 'next'

    def s_Pass(self, st, p):
        yield p, 'next'

    def s_FunctionDef(self, st, p):
        p.localfns[st.name] = st
        p.env[st.name] = ('localfn', st.name)
        yield p, 'next'

    def s_Return(self, st, p):
        v = self.ev(st.value, p) if st.value is not None else None
        p.outcome = ('return', v, st)
        yield p, 'return'

    def s_Raise(self, st, p):
        from .effects import raise_name
        if st.exc is not None:
            self.scan_calls(st.exc, p)
        p.outcome = ('raise', raise_name(st), st)
        yield p, 'raise'

    def s_Assert(self, st, p):
        c = self.evc(st.test, p)
        p.events.append(Event('assert', st, c))
        if self.assume_asserts:
            p.events.append(Event('assume', st, c, op='assert'))
        yield p, 'next'

    def s_Break(self, st, p):
        yield p, 'break'

    def s_Continue(self, st, p):
        yield p, 'continue'

    def s_Delete(self, st, p):
        for t in st.targets:
            tt = _unversion(self.normaliser(p).norm(t))
            root = T.root_self_attr(tt)
            if root is not None:
                p.events.append(Event('write', st, tt, (), 'del'))
                self.bump(p, {root})
        yield p, 'next'

    # -- assignments
    def assign_target(self, t, value, p: Path, node, op='set'):
        if isinstance(t, ast.Name):
            p.env[t.id] = value
            return
        if isinstance(t, (ast.Tuple, ast.List)):
            for i, el in enumerate(t.elts):
                if isinstance(el, ast.Starred):
                    self.assign_target(el.value, ('projrest', value, i), p, node, op)
                elif value[0] in ('tuple', 'list') and len(value[1]) == len(t.elts):
                    self.assign_target(el, value[1][i], p, node, op)
                else:
                    self.assign_target(el, ('proj', value, i), p, node, op)
            return
        tt = _unversion(self.normaliser(p).norm(t))
        root = T.root_self_attr(tt)
        if root is not None:
            p.events.append(Event('write', node, tt, value, op))
            self.bump(p, {root})
        else:
            p.events.append(Event('lwrite', node, tt, value, op))

    def s_Assign(self, st, p):
        v = self.ev(st.value, p)
        for t in st.targets:
            self.assign_target(t, v, p, st)
        yield p, 'next'

    def s_AnnAssign(self, st, p):
        if st.value is not None:
            v = self.ev(st.value, p)
            self.assign_target(st.target, v, p, st)
        yield p, 'next'

    def s_AugAssign(self, st, p):
        v = self.ev(st.value, p)
        opname = {ast.Add: '+=', ast.Sub: '-=', ast.Mult: '*=', ast.FloorDiv: '//='}.get(type(st.op), type(st.op).__name__)
        if isinstance(st.target, ast.Name):
            cur = p.env.get(st.target.id, ('name', st.target.id))
            if opname == '+=':
                if T._seqish(cur) or T._seqish(v):
                    new = T.norm(ast.BinOp(ast.Name('a'), ast.Add(), ast.Name('b')), {'a': cur, 'b': v})
                else:
                    new = T.add(cur, v)
            elif opname == '-=':
                new = T.add(cur, v, -1)
            elif opname == '*=':
                new = T.mul(cur, v)
            else:
                new = (opname, cur, v)
            p.env[st.target.id] = new
            # mutation of an aliased container through += (list += ...)
            root = T.root_self_attr(_unversion(cur)) if cur[0] in ('self', 'selfv', 'sub', 'attr', 'elem') else None
            if root is not None and opname == '+=' and False:
                pass
        else:
            self.assign_target(st.target, v, p, st, opname)
        yield p, 'next'

    # -- control
    def s_If(self, st, p):
        self.tick()
        c = self.evc(st.test, p)
        a = p.fork()
        a.events.append(Event('assume', st, c, op='if'))
        yield from self.block(st.body, a)
        b = p
        b.events.append(Event('assume', st, T.mk_not(c), op='else'))
        yield from self.block(st.orelse, b)

    def s_While(self, st, p):
        self.tick()
        c = self.evc(st.test, p)
        skip = p.fork()
        skip.events.append(Event('assume', st, T.mk_not(c), op='while-skip'))
        skip.events.append(Event('loop', st, op='skip'))
        yield from self.block(st.orelse, skip)
        p.events.append(Event('assume', st, c, op='while'))
        p.events.append(Event('loop', st, op='enter'))
        for q, flow in self.block(st.body, p):
            if flow in ('next', 'continue'):
                q.events.append(Event('loop', st, op='exit'))
                yield from self.block(st.orelse, q)
            elif flow == 'break':
                q.events.append(Event('loop', st, op='break'))
                yield q, 'next'
            else:
                yield q, flow

    def s_For(self, st, p):
        self.tick()
        it = self.ev(st.iter, p)
        sliced = None
        if it[0] == 'sub' and it[2][0] == 'slice' and it[2][1] == ('const', None) and it[2][3] == ('const', None) and isinstance(st.target, ast.Name):
            # `for x in X[:n]` is `for i in range(n)` with x = X[i] (the first n elements, by position)
            sliced = it[1]
            it = ('call', 'range', (it[2][2],), ())
        skip = p.fork()
        skip.events.append(Event('loop', st, it, op='skip'))
        yield from self.block(st.orelse, skip)
        depth = sum(1 for x in p.loops if x == it)
        p.loops.append(it)
        p.events.append(Event('loop', st, it, op='enter'))
        self.bind_loop_target(st.target, it, depth, p, st)
        if sliced is not None:
            p.env[st.target.id] = ('sub', sliced, p.env[st.target.id])
        for q, flow in self.block(st.body, p):
            if flow in ('next', 'continue'):
                q.loops = q.loops[:-1] if q.loops else q.loops
                q.events.append(Event('loop', st, it, op='exit'))
                yield from self.block(st.orelse, q)
            elif flow == 'break':
                q.loops = q.loops[:-1] if q.loops else q.loops
                q.events.append(Event('loop', st, it, op='break'))
                yield q, 'next'
            else:
                yield q, flow

    def bind_loop_target(self, target, it, depth, p, node):
        elem = ('elem', it, depth) if depth else ('elem', it)
        if it[0] == 'call' and it[1] == 'enumerate' and it[2] \
                and isinstance(target, ast.Tuple) and len(target.elts) == 2:
            base = it[2][0]
            idx = ('enumidx', base, depth) if depth else ('enumidx', base)
            self.assign_target(target.elts[0], idx, p, node)
            self.assign_target(target.elts[1], ('sub', base, idx), p, node)
            return
        if it[0] == 'call' and it[1] == 'zip' and isinstance(target, ast.Tuple) \
                and len(target.elts) == len(it[2]):
            idx = ('zipidx', it, depth) if depth else ('zipidx', it)
            for el, src in zip(target.elts, it[2]):
                self.assign_target(el, ('sub', src, idx), p, node)
            return
        self.assign_target(target, elem, p, node)

    def s_With(self, st, p):
        for item in st.items:
            v = self.ev(item.context_expr, p)
            if item.optional_vars is not None:
                self.assign_target(item.optional_vars, v, p, st)
        yield from self.block(st.body, p)

    def s_Try(self, st, p):
        self.tick()
        entry = p.fork()
        # normal completion of the body
        for q, flow in self.block(st.body, p):
            if flow == 'next':
                for r, f2 in self.block(st.orelse, q):
                    if f2 == 'next' and st.finalbody:
                        yield from self.block(st.finalbody, r)
                    else:
                        yield r, f2
            else:
                yield q, flow
        # exceptional completion: a handler runs from (an approximation of) the
        # entry state; what the body did before raising is not modelled
        for h in st.handlers:
            a = entry.fork()
            names = handler_names(h)
            a.events.append(Event('exc', h, ('tuple', tuple(('name', x) for x in names)), op='handler'))
            if h.name:
                a.env[h.name] = ('exc', tuple(names))
            for r, f2 in self.block(h.body, a):
                if f2 == 'next' and st.finalbody:
                    yield from self.block(st.finalbody, r)
                else:
                    yield r, f2

    def s_Match(self, st, p):
        self.tick()
        subj = self.ev(st.subject, p)
        prior = []
        for case in st.cases:
            a = p.fork()
            c = self.pattern_cond(case.pattern, subj, a)
            full = c
            if case.guard is not None:
                g = self.evc(case.guard, a)
                full = T.mk_bool('and', [c, g])
            a.events.append(Event('assume', case, T.mk_bool('and', [T.mk_not(x) for x in prior] + [full]), op='case'))
            prior.append(full)
            yield from self.block(case.body, a)
            if full == ('const', True):
                return
        p.events.append(Event('assume', st, T.mk_bool('and', [T.mk_not(x) for x in prior]), op='nomatch'))
        yield p, 'next'

    def pattern_cond(self, pat, subj, p: Path):
        if isinstance(pat, ast.MatchValue):
            return ('eq', T._pair(subj, self.normaliser(p).norm(pat.value)))
        if isinstance(pat, ast.MatchSingleton):
            return ('is', T._pair(subj, ('const', pat.value)))
        if isinstance(pat, ast.MatchAs):
            if pat.pattern is None:
                if pat.name is not None:
                    p.env[pat.name] = subj
                return ('const', True)
            c = self.pattern_cond(pat.pattern, subj, p)
            if pat.name is not None:
                p.env[pat.name] = subj
            return c
        if isinstance(pat, ast.MatchOr):
            return T.mk_bool('or', [self.pattern_cond(x, subj, p) for x in pat.patterns])
        if isinstance(pat, ast.MatchSequence):
            cs = [('eq', T._pair(('call', 'len', (subj,), ()), T.num(len(pat.patterns))))]
            for i, sp in enumerate(pat.patterns):
                if isinstance(sp, ast.MatchStar):
                    cs[0] = ('le', T.num(len(pat.patterns) - 1), ('call', 'len', (subj,), ()))
                    if sp.name:
                        p.env[sp.name] = ('projrest', subj, i)
                    continue
                cs.append(self.pattern_cond(sp, ('sub', subj, T.num(i)), p))
            return T.mk_bool('and', cs)
        return ('opaque', ast.unparse(pat))


def handler_names(h: ast.ExceptHandler) -> list[str]:
    if h.type is None:
        return ['BaseException']
    if isinstance(h.type, ast.Tuple):
        return [ast.unparse(x) for x in h.type.elts]
    return [ast.unparse(h.type)]


def _postorder(e):
    """sub-expressions in (approximate) evaluation order, not entering
    lambdas/comprehension bodies (those run later or per element)"""
    if isinstance(e, (ast.Lambda,)):
        return
    for c in ast.iter_child_nodes(e):
        if isinstance(c, ast.expr) or isinstance(c, (ast.keyword, ast.comprehension)):
            yield from _postorder(c)
    if isinstance(e, ast.expr):
        yield e


def _unversion(t):
    if not isinstance(t, tuple):
        return t
    if t and t[0] == 'selfv':
        return ('self', t[1])
    return T.resort(_unv(t)) if _has_v(t) else t


def _has_v(t):
    if not isinstance(t, tuple):
        return False
    if t and t[0] == 'selfv':
        return True
    return any(_has_v(x) for x in t)


def _unv(t):
    if not isinstance(t, tuple):
        return t
    if t and t[0] == 'selfv':
        return ('self', t[1])
    return tuple(_unv(x) for x in t)


unversion = _unversion


def walk_function(fn, **kw) -> list[Path]:
    return Walker(fn, **kw).run()
