"""Rename-robust structural matching: code statements are found by the *shape*
of their terms, compared with spec terms up to a consistent renaming of local
names (alpha-equivalence), never by the spelling of a local variable."""
from __future__ import annotations

import ast
import builtins

from . import terms as T
from .model import walk_no_nested


class Matcher:
    def __init__(self, prog):
        g = set(dir(builtins)) | {'self', 'cls'}
        for mi in prog.modules.values():
            g |= set(mi.imports) | set(mi.functions) | set(mi.classes) | {k for k in mi.assigns if '.' not in k}
        self.globals = g

    def is_var(self, name: str) -> bool:
        return name not in self.globals

    def var_test(self, fn):
        """names that may be renamed inside ``fn``: locals, not globals and not the parameters of fn (API names)"""
        fixed = set()
        if isinstance(fn, (ast.FunctionDef, ast.Lambda)):
            a = fn.args
            fixed = {x.arg for x in a.posonlyargs + a.args + a.kwonlyargs}
            if a.vararg:
                fixed.add(a.vararg.arg)
            if a.kwarg:
                fixed.add(a.kwarg.arg)
        return lambda name: name not in self.globals and name not in fixed

    # -- terms
    def eq(self, code, spec_src, boolean=False, binds=None, fn=None) -> bool:
        want = T.spec(spec_src, binds, boolean=boolean) if isinstance(spec_src, str) else spec_src
        return T.alpha_eq(code, want, self.var_test(fn) if fn is not None else self.is_var)

    def bind(self, code, spec_src, boolean=False, binds=None, fn=None):
        want = T.spec(spec_src, binds, boolean=boolean) if isinstance(spec_src, str) else spec_src
        return T.alpha_match(code, want, self.var_test(fn) if fn is not None else self.is_var)

    # -- statements
    def nodes(self, fn, nested=False):
        return ast.walk(fn) if nested else walk_no_nested(fn)

    def assigns(self, fn, spec_src, nested=False, boolean=False):
        """Assign nodes (single Name/Attribute/Subscript target) whose VALUE matches the spec"""
        out = []
        for n in self.nodes(fn, nested):
            if isinstance(n, ast.Assign) and len(n.targets) == 1:
                t = T.cond(n.value) if boolean else T.norm(n.value)
                if self.eq(t, spec_src, boolean, fn=fn):
                    out.append(n)
        return out

    def full_assigns(self, fn, target_spec, value_spec, nested=False):
        """Assign nodes where ('assign', target, value) matches as a whole (consistent renaming across both sides)"""
        want = ('assign', T.spec(target_spec), T.spec(value_spec))
        out = []
        for n in self.nodes(fn, nested):
            if isinstance(n, ast.Assign) and len(n.targets) == 1:
                if T.alpha_eq(('assign', T.norm(n.targets[0]), T.norm(n.value)), want, self.var_test(fn)):
                    out.append(n)
        return out

    def augs(self, fn, op, target_spec, value_spec, nested=False):
        want = ('aug', T.spec(target_spec), T.spec(value_spec))
        out = []
        for n in self.nodes(fn, nested):
            if isinstance(n, ast.AugAssign) and isinstance(n.op, op):
                if T.alpha_eq(('aug', T.norm(n.target), T.norm(n.value)), want, self.var_test(fn)):
                    out.append(n)
        return out

    def ifs(self, fn, cond_spec, nested=False):
        out = []
        for n in self.nodes(fn, nested):
            if isinstance(n, (ast.If, ast.While)) and self.eq(T.cond(n.test), cond_spec, True, fn=fn):
                out.append(n)
        return out

    def when(self, fn, cond_spec, nested=False):
        """[(statements run when the condition holds, statements run when it does not)] for every if-statement that tests the
        condition or its negation - whichever way round it is written"""
        want = T.spec(cond_spec, boolean=True) if isinstance(cond_spec, str) else cond_spec
        out = []
        for n in self.nodes(fn, nested):
            if isinstance(n, ast.If):
                t = T.cond(n.test)
                if T.alpha_eq(t, want, self.var_test(fn)):
                    out.append((n.body, n.orelse))
                elif T.alpha_eq(t, T.mk_not(want), self.var_test(fn)):
                    out.append((n.orelse, n.body))
        return out

    def fors(self, fn, iter_spec, nested=False):
        out = []
        for n in self.nodes(fn, nested):
            if isinstance(n, ast.For) and self.eq(T.norm(n.iter), iter_spec, fn=fn):
                out.append(n)
        return out

    def collects(self, fn, iter_spec, nested=False):
        """places where every element of ``iter_spec`` is turned into an element of a new list: a loop whose body appends, or a list
        comprehension over it (the two spellings of the same collection)"""
        out = []
        for n in self.nodes(fn, nested):
            if isinstance(n, ast.For) and self.eq(T.norm(n.iter), iter_spec, fn=fn) and any(
                    isinstance(c, ast.Call) and isinstance(c.func, ast.Attribute) and c.func.attr == 'append' for c in ast.walk(n)):
                out.append(n)
            if isinstance(n, ast.ListComp) and len(n.generators) == 1 and not n.generators[0].ifs and self.eq(T.norm(n.generators[0].iter), iter_spec, fn=fn):
                out.append(n)
        return out

    def calls(self, fn, spec_src, nested=False):
        out = []
        for n in self.nodes(fn, nested):
            if isinstance(n, ast.Call) and self.eq(T.norm(n), spec_src, fn=fn):
                out.append(n)
        return out

    def exprs(self, fn, spec_src, nested=True, boolean=False):
        out = []
        for n in self.nodes(fn, nested):
            if isinstance(n, ast.expr):
                try:
                    t = T.cond(n) if boolean else T.norm(n)
                except Exception:  # noqa
                    continue
                if self.eq(t, spec_src, boolean, fn=fn):
                    out.append(n)
        return out

    def stmt_pair_order(self, stmts, first_spec, second_spec):
        """do two statements matching (as ('aug'|'assign', target, value) shapes) appear in this order in a block?"""
        def shape(s):
            if isinstance(s, ast.AugAssign):
                return ('aug', type(s.op).__name__, T.norm(s.target), T.norm(s.value))
            if isinstance(s, ast.Assign) and len(s.targets) == 1:
                return ('assign', '', T.norm(s.targets[0]), T.norm(s.value))
            return None
        shapes = [shape(s) for s in stmts]
        for i, a in enumerate(shapes):
            if a is None:
                continue
            for j in range(i + 1, len(shapes)):
                b = shapes[j]
                if b is None:
                    continue
                if T.alpha_eq(('pair', a, b), ('pair', first_spec, second_spec), self.is_var):
                    return True
        return False
