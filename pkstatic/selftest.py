"""placeholder: filled in below"""
def run_for_check(chk, pid):
    return None
def run_selftest(pids, jobs):
    return 0
