"""Checker self-test (thorough tier): the rules must fire on variants that break a
property and stay silent on behaviour-preserving variants.  Variants are
scratch copies of /repo/pokerkit (sources only) in a temporary directory outside
/repo and /verif, removed before exit.  They are analysed statically like the
real tree - nothing is executed."""
from __future__ import annotations

import glob
import json
import os
import shutil
import subprocess
import tempfile
from concurrent.futures import ProcessPoolExecutor

from .model import AnalysisError, PKG, REPO

VERIF = os.path.dirname(os.path.dirname(os.path.abspath(__file__)))
SOURCES = ('__init__', 'utilities', 'lookups', 'hands', 'state', 'games', 'notation', 'analysis')


def _copy_sources(dst, repo=None):
    os.makedirs(os.path.join(dst, PKG))
    for m in SOURCES:
        src = os.path.join(repo or REPO, PKG, f'{m}.py')
        if os.path.exists(src):
            shutil.copy(src, os.path.join(dst, PKG, f'{m}.py'))


def _analyse(repo, pid):
    """(exit code, [failing rule ids]) of one check on a scratch tree; in-process, no evidence written"""
    from .ctx import Ctx
    from .report import Check
    import importlib
    import io
    import contextlib
    os.environ['PKSTATIC_NO_EVIDENCE'] = '1'
    try:
        ctx = Ctx(repo, 'quick')
        chk = Check(pid, 'quick', ctx.prog)
        from .report import load_known
        known, _ = load_known()
        try:
            importlib.import_module(f'pkstatic.rules.{pid.lower()}').run(chk, ctx)
            ctx.definite_assignment(chk)
        except AnalysisError:
            try:
                ctx.definite_assignment(chk)
            except AnalysisError:
                pass
            if not any(not o.ok and (pid, o.rule, o.construct) not in known for o in chk.obs):
                raise
        fails = [o.rule for o in chk.obs if not o.ok and (pid, o.rule, o.construct) not in known]
        if fails:
            return 1, sorted(set(fails))
        for rule, n in chk.effective_floors().items():
            if chk.instances.get(rule, 0) < n:
                return 2, [f'floor:{rule}']
        return 0, []
    except AnalysisError as ex:
        return 2, [f'analysis-error: {ex}']
    except Exception as ex:  # noqa
        return 3, [f'crash: {type(ex).__name__}: {ex}']


def _run_variant(job):
    kind, pids, module, old, new, rule, patch, name = job
    d = tempfile.mkdtemp(prefix='pkstatic-variant-')
    try:
        _copy_sources(d)
        if module == '*transform*':
            from .benign import MODS, transform_source
            for mod in MODS:
                path = os.path.join(d, PKG, f'{mod}.py')
                text = transform_source(open(path, encoding='utf-8').read(), old)
                open(path, 'w', encoding='utf-8').write(text)
        elif patch:
            r = subprocess.run(['git', 'apply', patch], cwd=d, capture_output=True, text=True)
            if r.returncode != 0:
                return dict(name=name, kind=kind, status='stale', detail='patch does not apply to the current tree')
        else:
            path = os.path.join(d, PKG, f'{module}.py')
            src = open(path, encoding='utf-8').read()
            if old not in src:
                return dict(name=name, kind=kind, status='stale', detail='text to edit not present in the current tree')
            src = src.replace(old, new, 1)
            try:
                compile(src, path, 'exec')
            except SyntaxError as ex:
                return dict(name=name, kind=kind, status='stale', detail=f'variant does not compile: {ex}')
            open(path, 'w', encoding='utf-8').write(src)
        results = {pid: _analyse(d, pid) for pid in pids}
        if kind == 'fire':
            ok = any(rc == 1 and (rule is None or any(f.startswith(rule) for f in fails)) for rc, fails in results.values())
            alt = any(rc in (1, 2) for rc, _ in results.values())
            return dict(name=name, kind=kind, status='ok' if ok else ('other-rule' if alt else 'MISSED'),
                        detail={p: r for p, r in results.items()}, rule=rule)
        bad = {p: r for p, r in results.items() if r[0] != 0}
        return dict(name=name, kind=kind, status='ok' if not bad else 'FALSE-ALARM', detail=bad)
    finally:
        shutil.rmtree(d, ignore_errors=True)


def jobs_for(pids=None):
    from .corpus import FIRE, SILENT
    jobs = []
    for i, (pid, module, old, new, rule) in enumerate(FIRE):
        if pids and pid not in pids:
            continue
        jobs.append(('fire', (pid,), module, old, new, rule, None, f'fire-{i:03d}-{pid}-{rule}'))
    for i, (ps, module, old, new) in enumerate(SILENT):
        ps2 = tuple(p for p in ps if not pids or p in pids)
        if ps2:
            jobs.append(('silent', ps2, module, old, new, None, None, f'silent-{i:03d}-{"+".join(ps2)}'))
    allp = tuple(sorted(pids)) if pids else tuple(f'C{i:02d}' for i in range(1, 21))
    for tname in ('rename', 'flipcmp', 'swapif', 'all', 'augexpand', 'reorder', 'retlocal', 'demorgan', 'ternary', 'chainsplit', 'elsejump', 'dropelse', 'extractcond'):
        jobs.append(('silent', allp, '*transform*', tname, None, None, None, f'silent-transform-{tname}'))
    for patch in sorted(glob.glob(os.path.join(VERIF, 'seeded_benign', '*', 'patch.diff'))):
        # behaviour-preserving refactorings written by independent sub-agents (145 tests pass): every check stays silent
        name = os.path.basename(os.path.dirname(patch))
        jobs.append(('silent', allp, None, None, None, None, patch, f'benign-{name}'))
    for patch in sorted(glob.glob(os.path.join(VERIF, 'seeded', '*', 'patch.diff'))):
        name = os.path.basename(os.path.dirname(patch))
        pid = name.split('_')[0]
        if pids and pid not in pids:
            continue
        meta = {}
        try:
            meta = json.load(open(os.path.join(os.path.dirname(patch), 'meta.json')))
        except Exception:  # noqa
            pass
        expect = meta.get('expected_checks') or [pid]
        if meta.get('not_statically_decidable'):
            continue
        jobs.append(('fire', tuple(expect), None, None, None, None, patch, f'seeded-{name}'))
    return jobs


def run_jobs(jobs, workers=16):
    if not jobs:
        return []
    with ProcessPoolExecutor(max_workers=min(workers, len(jobs))) as ex:
        return list(ex.map(_run_variant, jobs))


def run_for_check(chk, pid) -> None:
    """thorough tier of one property: run its part of the corpus and record the outcome"""
    res = run_jobs(jobs_for({pid}))
    _record(chk, res)


def _record(chk, res) -> None:
    missed = [r for r in res if r['status'] == 'MISSED']
    alarms = [r for r in res if r['status'] == 'FALSE-ALARM']
    stale = [r for r in res if r['status'] == 'stale']
    fired = [r for r in res if r['kind'] == 'fire' and r['status'] in ('ok', 'other-rule')]
    silent = [r for r in res if r['kind'] == 'silent' and r['status'] == 'ok']
    chk.extra['programs'] = len(res) - len(stale)
    chk.extra['disagreements_checked'] = len(fired) + len(silent)
    chk.extra['selftest'] = {
        'must_fire': len([r for r in res if r['kind'] == 'fire']), 'fired': len(fired),
        'must_stay_silent': len([r for r in res if r['kind'] == 'silent']), 'silent': len(silent),
        'stale': [r['name'] for r in stale], 'missed': [r['name'] for r in missed], 'false_alarms': [r['name'] for r in alarms],
        'other_rule': [r['name'] for r in res if r['status'] == 'other-rule'],
    }
    if missed or alarms:
        raise AnalysisError('checker self-test failed: missed ' + ', '.join(r['name'] for r in missed)
                            + ' / false alarms ' + ', '.join(f"{r['name']} {r['detail']}" for r in alarms))


def run_selftest(pids, jobs_n=16) -> int:
    res = run_jobs(jobs_for(set(p.upper() for p in pids) or None), jobs_n)
    bad = 0
    for r in res:
        if r['status'] in ('MISSED', 'FALSE-ALARM'):
            bad += 1
            print(r['status'], r['name'], r['detail'])
        elif r['status'] in ('stale', 'other-rule'):
            print(r['status'], r['name'], r.get('detail') if r['status'] == 'stale' else {p: v[1][:2] for p, v in r['detail'].items()})
    print(f'selftest: {len(res)} variants, {sum(r["status"] == "ok" for r in res)} ok, '
          f'{sum(r["status"] == "other-rule" for r in res)} caught by another rule, {sum(r["status"] == "stale" for r in res)} stale, {bad} bad')
    return 2 if bad else 0
