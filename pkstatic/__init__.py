"""pkstatic: repository-specific static analysis of /repo/pokerkit (ast only)."""
