"""Driver: /venv/bin/python -m pkstatic check <ID> [--tier quick|thorough]
           /venv/bin/python -m pkstatic explain <replay.json>
           /venv/bin/python -m pkstatic setup
Exit 0 = every obligation discharged; 1 + VIOLATION line; 2 + ANALYSIS-ERROR
when the analysis itself cannot run (never a VIOLATION)."""
from __future__ import annotations

import argparse
import importlib
import os
import sys
import traceback


def main(argv=None) -> int:
    ap = argparse.ArgumentParser(prog='pkstatic')
    sub = ap.add_subparsers(dest='cmd', required=True)
    c = sub.add_parser('check')
    c.add_argument('pid')
    c.add_argument('--tier', default=os.environ.get('VERIF_TIER', 'quick'),
                   choices=['quick', 'thorough'])
    c.add_argument('--repo', default=None)
    e = sub.add_parser('explain')
    e.add_argument('path')
    sub.add_parser('setup')
    st = sub.add_parser('selftest')
    st.add_argument('pids', nargs='*')
    st.add_argument('--jobs', type=int, default=16)
    args = ap.parse_args(argv)

    from .model import AnalysisError
    try:
        if args.cmd == 'setup':
            from .model import Program
            p = Program()
            print('parsed', ', '.join(sorted(p.digest())))
            return 0
        if args.cmd == 'explain':
            from .report import explain
            return explain(args.path)
        if args.cmd == 'selftest':
            from .selftest import run_selftest
            return run_selftest(args.pids, args.jobs)
        if args.cmd == 'check':
            return run_check(args.pid.upper(), args.tier, args.repo)
    except AnalysisError as ex:
        print(f'ANALYSIS-ERROR {ex}')
        return 2
    except Exception:  # noqa
        traceback.print_exc()
        print('ANALYSIS-ERROR internal error of the checker (see traceback)')
        return 2
    return 2


def run_check(pid: str, tier: str, repo=None) -> int:
    from .ctx import Ctx
    from .report import Check
    ctx = Ctx(repo, tier)
    chk = Check(pid, tier, ctx.prog)
    mod = importlib.import_module(f'pkstatic.rules.{pid.lower()}')
    from .model import AnalysisError
    try:
        mod.run(chk, ctx)
        ctx.definite_assignment(chk)
    except AnalysisError as ex:
        # a rule could not be evaluated (an anchor moved or vanished).  When the clauses that could be evaluated - the general ones
        # included - already show a violation, that finding is reported; an analysis error is the verdict only when nothing else is
        from .report import load_known
        known, _ = load_known()
        try:
            ctx.definite_assignment(chk)
        except AnalysisError:
            pass
        if not any(not o.ok and (pid, o.rule, o.construct) not in known for o in chk.obs):
            raise
        chk.note(f'a rule could not be evaluated and was skipped: {ex}')
    if tier == 'thorough':
        from .report import load_known
        known, _ = load_known()
        if any(not o.ok and (pid, o.rule, o.construct) not in known for o in chk.obs):
            # the rules already report a violation on this tree: the self-test (whose must-stay-silent half is built
            # from copies of this very tree) would only restate it as a checker failure and hide the finding
            chk.note('self-test skipped: the rules report a violation on the analysed tree')
        else:
            from .selftest import run_for_check
            run_for_check(chk, pid)
    return chk.finish()


if __name__ == '__main__':
    sys.exit(main())
