"""Source-level canonicalisation: helpers the rule base does not know are read at their call sites.

The rules name the functions of the reviewed tree (``known_names.json``, frozen by ``tools/gen_known.py``).  A function,
method or nested function that is NOT in that list is a helper somebody extracted later; every rule would otherwise see
a call it has no meaning for.  Where the helper is simple enough its body is substituted for the call (what an
"inline method" refactoring would produce):

  E  helper = ``return <expr>``                     any call / property read   ->  <expr>[params := args]
  S  helper = straight-line statements,             ``self.h(args)`` as a statement, ``x = self.h(args)``,
     at most one ``return`` and that one last        ``return self.h(args)``    ->  the statements, locals renamed
  R  helper with several returns                    only at ``return self.h(args)``  ->  the statements as they are

Arguments must be side-effect free expressions (names, attributes, subscripts, constants, arithmetic of those) because
they are duplicated; generators, recursion, ``*args``/``**kwargs`` parameters, ``nonlocal``/``global`` and decorated
helpers other than static/class methods and properties are left alone.  The helper definitions themselves stay in the
tree (they are simply no longer called).  Nothing is executed."""
from __future__ import annotations

import ast
import copy
import json
import os

_HERE = os.path.dirname(os.path.abspath(__file__))


def known_names() -> dict:
    try:
        with open(os.path.join(_HERE, 'known_names.json'), encoding='utf-8') as fp:
            return {k: set(v) for k, v in json.load(fp).items()}
    except OSError:
        return {}


def qualnames(tree) -> dict:
    """qualname -> FunctionDef for module-level functions, methods and nested functions"""
    out = {}

    def visit(body, prefix):
        for st in body:
            if isinstance(st, ast.FunctionDef):
                out[prefix + st.name] = st
                visit_nested(st, prefix + st.name + '.<locals>.')
            elif isinstance(st, ast.ClassDef):
                visit(st.body, prefix + st.name + '.')

    def visit_nested(fn, prefix):
        for n in ast.walk(fn):
            if isinstance(n, ast.FunctionDef) and n is not fn and n not in out.values():
                # direct nesting only matters for the name; deeper nesting gets the same prefix (names are unique enough)
                out[prefix + n.name] = n
    visit(tree.body, '')
    return out


def _pure(e) -> bool:
    for n in ast.walk(e):
        if isinstance(n, (ast.Call, ast.Yield, ast.YieldFrom, ast.Await, ast.NamedExpr, ast.Lambda, ast.ListComp, ast.SetComp,
                          ast.DictComp, ast.GeneratorExp)):
            return False
    return True


def _strip_doc(body):
    if body and isinstance(body[0], ast.Expr) and isinstance(body[0].value, ast.Constant) and isinstance(body[0].value.value, str):
        return body[1:]
    return body


def _unguard(stmts):
    """``if c: return`` (bare) followed by the rest of a block  ->  ``if not c: <rest>`` - a procedure with early exits becomes
    straight-line nesting, which can be spliced into a call site"""
    for i, st in enumerate(stmts):
        if isinstance(st, ast.If) and not st.orelse and len(st.body) == 1 and isinstance(st.body[0], ast.Return) and st.body[0].value is None:
            rest = _unguard(stmts[i + 1:])
            if not rest:
                return stmts[:i]
            neg = ast.copy_location(ast.If(test=ast.UnaryOp(op=ast.Not(), operand=st.test), body=rest, orelse=[]), st)
            return stmts[:i] + [neg]
    if stmts and isinstance(stmts[-1], ast.Return) and stmts[-1].value is None:
        return stmts[:-1] or [ast.Pass()]
    return stmts


def _always_returns(stmts) -> bool:
    if not stmts:
        return False
    last = stmts[-1]
    if isinstance(last, ast.Return):
        return True
    return isinstance(last, ast.If) and _always_returns(last.body) and _always_returns(last.orelse)


def _return_tree(stmts):
    """a body made of nothing but guarded returns (``if c: return a`` ... ``return z``; assertions aside) as the one
    expression ``a if c else ... z``, or None"""
    stmts = [st for st in stmts if not isinstance(st, (ast.Assert, ast.Pass))]
    if not stmts:
        return None
    st = stmts[0]
    if isinstance(st, ast.Return):
        return st.value
    if isinstance(st, ast.If):
        rest = stmts[1:]
        if _always_returns(st.body):
            a, b = _return_tree(st.body), _return_tree(list(st.orelse) + rest)
        elif _always_returns(st.orelse):
            a, b = _return_tree(list(st.body) + rest), _return_tree(st.orelse)
        else:
            return None
        if a is None or b is None:
            return None
        return ast.copy_location(ast.IfExp(test=st.test, body=a, orelse=b), st)
    return None


class _Helper:
    def __init__(self, qn, node, owner_class):
        self.qn = qn
        self.node = node
        self.owner_class = owner_class          # class name for methods, None otherwise
        decos = [ast.unparse(d) for d in node.decorator_list]
        self.is_static = 'staticmethod' in decos
        self.is_classmethod = 'classmethod' in decos
        self.is_property = 'property' in decos
        self.other_deco = [d for d in decos if d not in ('staticmethod', 'classmethod', 'property')]
        a = node.args
        self.params = [x.arg for x in a.posonlyargs + a.args]
        self.kwonly = [x.arg for x in a.kwonlyargs]
        self.defaults = dict(zip(reversed(self.params), reversed(a.defaults)))
        for k, d in zip(a.kwonlyargs, a.kw_defaults):
            if d is not None:
                self.defaults[k.arg] = d
        self.varargs = a.vararg is not None or a.kwarg is not None
        self.body = _unguard(_strip_doc(node.body))
        if len(self.body) > 1 or (self.body and isinstance(self.body[0], ast.If)):
            tree = _return_tree(self.body)
            if tree is not None:
                self.body = [ast.copy_location(ast.Return(value=tree), self.body[0])]
        self.bound_first = owner_class is not None and not self.is_static      # self / cls

    def usable(self) -> bool:
        if self.other_deco or self.varargs or not self.body:
            return False
        for n in ast.walk(self.node):
            if isinstance(n, (ast.Yield, ast.YieldFrom, ast.Await, ast.Global, ast.Nonlocal)):
                return False
            if isinstance(n, ast.FunctionDef) and n is not self.node:
                return False
            if isinstance(n, ast.Call) and self._is_self_call(n):
                return False        # recursion
        return True

    def _is_self_call(self, call) -> bool:
        f = call.func
        name = self.node.name
        if isinstance(f, ast.Name):
            return f.id == name
        return isinstance(f, ast.Attribute) and f.attr == name and isinstance(f.value, ast.Name) and f.value.id in ('self', 'cls')

    def returns(self):
        return [n for st in self.body for n in ast.walk(st) if isinstance(n, ast.Return)]

    def shape(self) -> str:
        rs = self.returns()
        if len(self.body) == 1 and isinstance(self.body[0], ast.Return) and self.body[0].value is not None:
            return 'E'
        if all(r is self.body[-1] for r in rs):
            return 'S'
        return 'R'

    def locals_(self) -> set:
        out = set()
        for n in ast.walk(self.node):
            if isinstance(n, ast.Name) and isinstance(n.ctx, (ast.Store, ast.Del)):
                out.add(n.id)
        return out - set(self.params) - set(self.kwonly)

    def bind(self, call, receiver):
        """param -> argument expression, or None when the call does not fit"""
        params = list(self.params)
        m = {}
        if self.bound_first:
            if not params:
                return None
            m[params.pop(0)] = receiver
        args = list(call.args) if call is not None else []
        if any(isinstance(a, ast.Starred) for a in args) or (call is not None and any(k.arg is None for k in call.keywords)):
            return None
        if len(args) > len(params):
            return None
        for p, a in zip(params, args):
            m[p] = a
        for k in (call.keywords if call is not None else []):
            if k.arg in m or k.arg not in params + self.kwonly:
                return None
            m[k.arg] = k.value
        for p in params + self.kwonly:
            if p not in m:
                if p in self.defaults:
                    m[p] = self.defaults[p]
                else:
                    return None
        if not all(_pure(v) for v in m.values()):
            return None
        # a parameter that the helper re-binds cannot be substituted
        rebound = {n.id for n in ast.walk(self.node) if isinstance(n, ast.Name) and isinstance(n.ctx, (ast.Store, ast.Del))}
        if rebound & set(m):
            return None
        return m


class _Subst(ast.NodeTransformer):
    def __init__(self, mapping, rename):
        self.mapping = mapping
        self.rename = rename

    def visit_Name(self, n):
        if n.id in self.mapping and isinstance(n.ctx, ast.Load):
            return copy.deepcopy(self.mapping[n.id])
        if n.id in self.rename:
            return ast.copy_location(ast.Name(id=self.rename[n.id], ctx=n.ctx), n)
        return n


class Inliner:
    def __init__(self, module: str, tree, known: set):
        self.module = module
        self.tree = tree
        self.helpers = {}
        self.count = 0
        self.inlined = []
        for qn, node in qualnames(tree).items():
            if qn in known:
                continue
            parts = qn.split('.')
            owner = parts[-2] if len(parts) >= 2 and parts[-2] != '<locals>' else None
            if owner is not None and '<locals>' in parts:
                owner = None
            h = _Helper(qn, node, owner)
            if h.usable():
                self.helpers.setdefault(node.name, []).append(h)

    # ------------------------------------------------------------------ lookup
    def _resolve(self, func):
        """(helper, receiver expr) for a call target, else None"""
        if isinstance(func, ast.Name):
            for h in self.helpers.get(func.id, []):
                if h.owner_class is None:
                    return h, None
        elif isinstance(func, ast.Attribute) and isinstance(func.value, ast.Name) and func.value.id in ('self', 'cls'):
            for h in self.helpers.get(func.attr, []):
                if h.owner_class is not None:
                    return h, func.value
        elif isinstance(func, ast.Attribute) and isinstance(func.value, ast.Name):
            for h in self.helpers.get(func.attr, []):
                if h.owner_class == func.value.id and (h.is_static or h.is_classmethod):
                    return h, func.value
        return None

    # ------------------------------------------------------------- expressions
    def _expr(self, e, inside):
        inl = self

        class X(ast.NodeTransformer):
            def visit_Call(self, n):
                self.generic_visit(n)
                r = inl._resolve(n.func)
                if r is None:
                    return n
                h, recv = r
                if h.node is inside or h.is_property or h.shape() != 'E':
                    return n
                m = h.bind(n, recv)
                if m is None:
                    return n
                inl.inlined.append(h.qn)
                return ast.copy_location(_Subst(m, {}).visit(copy.deepcopy(h.body[0].value)), n)

            def visit_Attribute(self, n):
                self.generic_visit(n)
                if isinstance(n.ctx, ast.Load) and isinstance(n.value, ast.Name) and n.value.id == 'self':
                    for h in inl.helpers.get(n.attr, []):
                        if h.is_property and h.owner_class is not None and h.node is not inside and h.shape() == 'E':
                            m = h.bind(None, n.value)
                            if m is not None:
                                inl.inlined.append(h.qn)
                                return ast.copy_location(_Subst(m, {}).visit(copy.deepcopy(h.body[0].value)), n)
                return n

            def visit_FunctionDef(self, n):
                return n

            def visit_Lambda(self, n):
                return n
        return X().visit(e)

    # -------------------------------------------------------------- statements
    def _splice(self, h, m, tail, result_name=None):
        """statements of the helper with params substituted and locals renamed; ``tail(value)`` builds what replaces a
        trailing ``return value`` (None: drop it).  ``result_name``: the helper ends in ``return L`` (a local it built) and the call site
        is ``result_name = h(...)`` - the local simply takes the name it is assigned to"""
        self.count += 1
        rename = {x: f'{x}_h{self.count}' for x in h.locals_()}
        last = h.body[-1]
        if result_name is not None and isinstance(last, ast.Return) and isinstance(last.value, ast.Name) and last.value.id in rename \
                and result_name not in rename.values() and result_name not in h.params + h.kwonly \
                and not any(isinstance(v, ast.AST) and any(isinstance(x, ast.Name) and x.id == result_name for x in ast.walk(v)) for v in m.values()):
            rename[last.value.id] = result_name
            tail = lambda v: None  # noqa: E731
        body = [(_Subst(m, rename).visit(copy.deepcopy(st))) for st in h.body]
        out = []
        for st in body:
            if isinstance(st, ast.Return) and st is body[-1]:
                t = tail(st.value)
                if t is not None:
                    out.append(t)
            else:
                out.append(st)
        self.inlined.append(h.qn)
        return out

    def _stmt(self, st, inside):
        call = None
        kind = None
        if isinstance(st, ast.Expr) and isinstance(st.value, ast.Call):
            call, kind = st.value, 'expr'
        elif isinstance(st, ast.Assign) and len(st.targets) == 1 and isinstance(st.value, ast.Call):
            call, kind = st.value, 'assign'
        elif isinstance(st, ast.Return) and isinstance(st.value, ast.Call):
            call, kind = st.value, 'return'
        elif isinstance(st, ast.Raise) and isinstance(st.exc, ast.Call) and st.cause is None:
            call, kind = st.exc, 'raise'
        if call is None:
            return None
        r = self._resolve(call.func)
        if r is None:
            return None
        h, recv = r
        if h.node is inside or h.is_property:
            return None
        shape = h.shape()
        if shape == 'E':
            return None                    # the expression pass handles it
        m = h.bind(call, recv)
        if m is None:
            return None
        if shape == 'R' and kind != 'return':
            return None
        if kind == 'raise':
            return None
        last = h.body[-1]
        has_value = isinstance(last, ast.Return) and last.value is not None
        if shape == 'R':
            self.count += 1
            rename = {x: f'{x}_h{self.count}' for x in h.locals_()}
            self.inlined.append(h.qn)
            return [_Subst(m, rename).visit(copy.deepcopy(s)) for s in h.body]
        if kind == 'expr':
            return self._splice(h, m, lambda v: ast.Expr(value=v) if v is not None and not _pure(v) else None)
        if kind == 'assign':
            if not has_value:
                return None
            tname = st.targets[0].id if isinstance(st.targets[0], ast.Name) else None
            return self._splice(h, m, lambda v: ast.Assign(targets=st.targets, value=v), result_name=tname)
        if kind == 'return':
            return self._splice(h, m, lambda v: ast.Return(value=v))
        return None

    def _block(self, stmts, inside):
        out = []
        for st in stmts:
            rep = self._stmt(st, inside)
            if rep is not None:
                for r in rep:
                    ast.copy_location(r, st)
                    for sub in ast.walk(r):
                        if not hasattr(sub, 'lineno') and isinstance(sub, (ast.stmt, ast.expr)):
                            ast.copy_location(sub, st)
                out.extend(self._block(rep, inside))       # helpers calling helpers
                continue
            for fld in ('body', 'orelse', 'finalbody'):
                v = getattr(st, fld, None)
                if isinstance(v, list) and v and isinstance(v[0], ast.stmt) and not isinstance(st, (ast.FunctionDef, ast.ClassDef)):
                    setattr(st, fld, self._block(v, inside))
            if isinstance(st, ast.Try):
                for hd in st.handlers:
                    hd.body = self._block(hd.body, inside)
            if isinstance(st, ast.Match):
                for c in st.cases:
                    c.body = self._block(c.body, inside)
            out.append(st)
        return out

    def run(self):
        if not self.helpers:
            return self.tree
        for fn in [n for n in ast.walk(self.tree) if isinstance(n, ast.FunctionDef)]:
            for _ in range(3):                   # helpers calling helpers: a few rounds
                before = len(self.inlined)
                fn.body = self._block(fn.body, fn)
                for i, st in enumerate(fn.body):
                    pass
                self._exprs_in(fn)
                if len(self.inlined) == before:
                    break
        self._drop_dead()
        ast.fix_missing_locations(self.tree)
        return self.tree

    def _drop_dead(self):
        """a helper all of whose uses were replaced is dropped, so that no rule mistakes it for a part of the API"""
        used = set(self.inlined)
        for name, hs in self.helpers.items():
            for h in hs:
                if h.qn not in used:
                    continue
                refs = 0
                for n in ast.walk(self.tree):
                    if n is h.node:
                        continue
                    if isinstance(n, ast.Name) and n.id == name and isinstance(n.ctx, ast.Load):
                        refs += 1
                    elif isinstance(n, ast.Attribute) and n.attr == name and isinstance(n.ctx, ast.Load):
                        refs += 1
                inner = sum(1 for n in ast.walk(h.node) if (isinstance(n, ast.Name) and n.id == name and isinstance(n.ctx, ast.Load))
                            or (isinstance(n, ast.Attribute) and n.attr == name and isinstance(n.ctx, ast.Load)))
                if refs - inner > 0:
                    continue
                for parent in ast.walk(self.tree):
                    for fld in ('body', 'orelse', 'finalbody'):
                        v = getattr(parent, fld, None)
                        if isinstance(v, list) and h.node in v:
                            v.remove(h.node)
                            if not v:
                                v.append(ast.Pass())

    def _exprs_in(self, fn):
        def visit(stmts):
            for st in stmts:
                if isinstance(st, (ast.FunctionDef, ast.ClassDef)):
                    continue
                for fld, v in ast.iter_fields(st):
                    if isinstance(v, ast.expr):
                        setattr(st, fld, self._expr(v, fn))
                    elif isinstance(v, list) and v and isinstance(v[0], ast.expr):
                        setattr(st, fld, [self._expr(x, fn) for x in v])
                    elif isinstance(v, list) and v and isinstance(v[0], ast.stmt):
                        visit(v)
                    elif isinstance(v, list) and v and isinstance(v[0], (ast.ExceptHandler, ast.match_case)):
                        for hd in v:
                            if isinstance(hd, ast.match_case) and hd.guard is not None:
                                hd.guard = self._expr(hd.guard, fn)
                            visit(hd.body)
                    elif isinstance(v, list) and v and isinstance(v[0], ast.withitem):
                        for w in v:
                            w.context_expr = self._expr(w.context_expr, fn)
                    elif isinstance(v, list) and v and isinstance(v[0], ast.keyword):
                        pass
        visit(fn.body)


def inline_unknown_helpers(module: str, tree):
    known = known_names().get(module)
    if known is None:
        return tree, []
    inl = Inliner(module, tree, known)
    tree = inl.run()
    return tree, sorted(set(inl.inlined))
