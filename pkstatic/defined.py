"""Definite-assignment clauses shared by every property: in each function a property's rules analyse,
(a) no name is read that nothing defines (not a local, parameter, enclosing-scope variable, module-level name or builtin):
    executing that read raises NameError part-way through the function;
(b) a local bound in a ``try`` body and read after the ``try`` statement is also bound by every handler that falls through
    (or was bound before the ``try``): otherwise the exceptional path ends in UnboundLocalError instead of the handled result.
Both are exact syntactic facts (no path enumeration, so no infeasible-path reports)."""
from __future__ import annotations

import ast
import builtins

_BUILTINS = set(dir(builtins)) | {'__class__', '__file__', '__name__', '__doc__'}


def _scope_nodes(fn):
    """nodes of fn's own scope (nested function / lambda / class bodies excluded, comprehension bodies included)"""
    stack = [c for c in ast.iter_child_nodes(fn) if c is not fn.args and c is not getattr(fn, 'returns', None)]
    a0 = getattr(fn, 'args', None)
    if a0 is not None:      # defaults belong to the enclosing scope, annotations are not evaluated (PEP 563 in this code base)
        pass
    while stack:
        n = stack.pop()
        if isinstance(n, ast.AnnAssign):
            yield n
            stack.append(n.target)
            if n.value is not None:
                stack.append(n.value)
            continue
        if isinstance(n, ast.arg):
            continue
        yield n
        if isinstance(n, (ast.FunctionDef, ast.AsyncFunctionDef, ast.Lambda, ast.ClassDef)):
            # decorators / defaults / bases are evaluated in the enclosing scope
            for d in getattr(n, 'decorator_list', []):
                stack.append(d)
            a = getattr(n, 'args', None)
            if a is not None:
                stack.extend(a.defaults)
                stack.extend(x for x in a.kw_defaults if x is not None)
            continue
        stack.extend(ast.iter_child_nodes(n))


def _bound_in(fn) -> set:
    out = set()
    a = fn.args
    for x in a.posonlyargs + a.args + a.kwonlyargs + [y for y in (a.vararg, a.kwarg) if y]:
        out.add(x.arg)
    for n in _scope_nodes(fn):
        if isinstance(n, ast.Name) and isinstance(n.ctx, (ast.Store, ast.Del)):
            out.add(n.id)
        elif isinstance(n, (ast.FunctionDef, ast.AsyncFunctionDef, ast.ClassDef)):
            out.add(n.name)
        elif isinstance(n, ast.ExceptHandler) and n.name:
            out.add(n.name)
        elif isinstance(n, (ast.Import, ast.ImportFrom)):
            for al in n.names:
                out.add((al.asname or al.name).split('.')[0])
        elif isinstance(n, (ast.MatchAs, ast.MatchStar)) and n.name:
            out.add(n.name)
        elif isinstance(n, ast.MatchMapping) and n.rest:
            out.add(n.rest)
        elif isinstance(n, (ast.Global, ast.Nonlocal)):
            out |= set(n.names)
    return out


def undefined_reads(fn, module_names: set, enclosing: tuple = ()) -> list:
    """[(name, node, why)] for fn and the functions nested in it"""
    bound = _bound_in(fn)
    visible = bound | module_names | _BUILTINS
    for e in enclosing:
        visible |= e
    out = []
    for n in _scope_nodes(fn):
        if isinstance(n, ast.Name) and isinstance(n.ctx, ast.Load) and n.id not in visible:
            out.append((n.id, n, 'read but defined nowhere (no assignment in the function, no module-level name, no builtin)'))
    out += _try_fallthrough(fn)
    out += _arm_fallthrough(fn)
    for n in _scope_nodes(fn):
        if isinstance(n, (ast.FunctionDef, ast.AsyncFunctionDef)):
            out += undefined_reads(n, module_names, enclosing + (bound,))
    return out


def _falls_through(body) -> bool:
    return not (body and isinstance(body[-1], (ast.Return, ast.Raise, ast.Continue, ast.Break)))


def _stores(stmts) -> set:
    out = set()
    for st in stmts:
        for n in ast.walk(st):
            if isinstance(n, ast.Name) and isinstance(n.ctx, ast.Store):
                out.add(n.id)
    return out


def _try_fallthrough(fn) -> list:
    out = []
    own = list(_scope_nodes(fn))
    blocks = [fn.body]
    for n in own:
        for fld in ('body', 'orelse', 'finalbody'):
            v = getattr(n, fld, None)
            if isinstance(v, list) and v and isinstance(v[0], ast.stmt) and not isinstance(n, (ast.FunctionDef, ast.ClassDef, ast.Lambda)):
                blocks.append(v)
        if isinstance(n, ast.ExceptHandler):
            blocks.append(n.body)
        if isinstance(n, ast.match_case):
            blocks.append(n.body)
    for block in blocks:
        for i, st in enumerate(block):
            if not isinstance(st, ast.Try) or not st.handlers:
                continue
            in_try = _stores(st.body)
            before = set()
            for n in own:
                if isinstance(n, ast.Name) and isinstance(n.ctx, ast.Store) and n.lineno < st.lineno:
                    before.add(n.id)
            a = fn.args
            before |= {x.arg for x in a.posonlyargs + a.args + a.kwonlyargs + [y for y in (a.vararg, a.kwarg) if y]}
            after_loads = {}
            for later in block[i + 1:]:
                for n in ast.walk(later):
                    if isinstance(n, ast.Name) and isinstance(n.ctx, ast.Load):
                        after_loads.setdefault(n.id, n)
            for h in st.handlers:
                if not _falls_through(h.body):
                    continue
                missing = (in_try - _stores(h.body) - _stores(st.finalbody) - before) & set(after_loads)
                for name in sorted(missing):
                    out.append((name, after_loads[name],
                                f'bound in the try body at line {st.lineno} but not by the handler at line {h.lineno} that falls through to this read'))
    return out


def _arms(st):
    """the arms of an if / elif / else chain that ends in an explicit else: [[stmts], ...], else None"""
    arms = [st.body]
    cur = st
    while len(cur.orelse) == 1 and isinstance(cur.orelse[0], ast.If):
        cur = cur.orelse[0]
        arms.append(cur.body)
    if not cur.orelse:
        return None
    arms.append(cur.orelse)
    return arms


def _arm_fallthrough(fn) -> list:
    """(c) a local bound in some arms of an if/elif/else chain (with an explicit else) but not in another arm that falls
    through, never bound before the chain, and read unconditionally right after it in the same block"""
    out = []
    own = list(_scope_nodes(fn))
    a = fn.args
    params = {x.arg for x in a.posonlyargs + a.args + a.kwonlyargs + [y for y in (a.vararg, a.kwarg) if y]}
    blocks = [fn.body]
    for n in own:
        for fld in ('body', 'orelse', 'finalbody'):
            v = getattr(n, fld, None)
            if isinstance(v, list) and v and isinstance(v[0], ast.stmt) and not isinstance(n, (ast.FunctionDef, ast.ClassDef, ast.Lambda)):
                blocks.append(v)
        if isinstance(n, (ast.ExceptHandler, ast.match_case)):
            blocks.append(n.body)
    for block in blocks:
        for i, st in enumerate(block):
            if not isinstance(st, ast.If):
                continue
            arms = _arms(st)
            if arms is None:
                continue
            bound = [(_stores(arm), _falls_through(arm)) for arm in arms]
            some = set().union(*[b for b, _ in bound])
            before = {n.id for n in own if isinstance(n, ast.Name) and isinstance(n.ctx, ast.Store) and n.lineno < st.lineno} | params
            in_loop_later = set()      # a binding later in an enclosing loop body also reaches the read on the next iteration
            for name in sorted(some - before):
                lacking = [k for k, (b, ft) in enumerate(bound) if ft and name not in b]
                if not lacking:
                    continue
                for later in block[i + 1:]:
                    if name in _stores([later]) and not isinstance(later, (ast.For, ast.While, ast.If, ast.Try, ast.With)):
                        # (re)bound by a plain statement: reads in its own value come first, later ones are fine
                        pass
                    # statements of the same block, read in their header (evaluated unconditionally once the block runs on)
                    heads = [later.test] if isinstance(later, (ast.If, ast.While)) else [later.iter] if isinstance(later, ast.For) else \
                        [later] if isinstance(later, (ast.Assign, ast.AugAssign, ast.Expr, ast.Return, ast.AnnAssign)) else []
                    for h in heads:
                        for x in ast.walk(h):
                            if isinstance(x, ast.Name) and isinstance(x.ctx, ast.Load) and x.id == name and name not in in_loop_later:
                                out.append((name, x, f'bound in some arms of the if at line {st.lineno} but not in arm {lacking[0] + 1}, which falls through to this read'))
                                break
                        else:
                            continue
                        break
                    else:
                        if name in _stores([later]):
                            break
                        continue
                    break
    return out
