"""Definite-assignment clauses shared by every property: in each function a property's rules analyse,
(a) no name is read that nothing defines (not a local, parameter, enclosing-scope variable, module-level name or builtin):
    executing that read raises NameError part-way through the function;
(b) a local bound in a ``try`` body and read after the ``try`` statement is also bound by every handler that falls through
    (or was bound before the ``try``): otherwise the exceptional path ends in UnboundLocalError instead of the handled result.
Both are exact syntactic facts (no path enumeration, so no infeasible-path reports)."""
from __future__ import annotations

import ast
import builtins

_BUILTINS = set(dir(builtins)) | {'__class__', '__file__', '__name__', '__doc__'}


def _scope_nodes(fn):
    """nodes of fn's own scope (nested function / lambda / class bodies excluded, comprehension bodies included)"""
    stack = [c for c in ast.iter_child_nodes(fn) if c is not fn.args and c is not getattr(fn, 'returns', None)]
    a0 = getattr(fn, 'args', None)
    if a0 is not None:      # defaults belong to the enclosing scope, annotations are not evaluated (PEP 563 in this code base)
        pass
    while stack:
        n = stack.pop()
        if isinstance(n, ast.AnnAssign):
            yield n
            stack.append(n.target)
            if n.value is not None:
                stack.append(n.value)
            continue
        if isinstance(n, ast.arg):
            continue
        yield n
        if isinstance(n, (ast.FunctionDef, ast.AsyncFunctionDef, ast.Lambda, ast.ClassDef)):
            # decorators / defaults / bases are evaluated in the enclosing scope
            for d in getattr(n, 'decorator_list', []):
                stack.append(d)
            a = getattr(n, 'args', None)
            if a is not None:
                stack.extend(a.defaults)
                stack.extend(x for x in a.kw_defaults if x is not None)
            continue
        stack.extend(ast.iter_child_nodes(n))


def _bound_in(fn) -> set:
    out = set()
    a = fn.args
    for x in a.posonlyargs + a.args + a.kwonlyargs + [y for y in (a.vararg, a.kwarg) if y]:
        out.add(x.arg)
    for n in _scope_nodes(fn):
        if isinstance(n, ast.Name) and isinstance(n.ctx, (ast.Store, ast.Del)):
            out.add(n.id)
        elif isinstance(n, (ast.FunctionDef, ast.AsyncFunctionDef, ast.ClassDef)):
            out.add(n.name)
        elif isinstance(n, ast.ExceptHandler) and n.name:
            out.add(n.name)
        elif isinstance(n, (ast.Import, ast.ImportFrom)):
            for al in n.names:
                out.add((al.asname or al.name).split('.')[0])
        elif isinstance(n, (ast.MatchAs, ast.MatchStar)) and n.name:
            out.add(n.name)
        elif isinstance(n, ast.MatchMapping) and n.rest:
            out.add(n.rest)
        elif isinstance(n, (ast.Global, ast.Nonlocal)):
            out |= set(n.names)
    return out


def undefined_reads(fn, module_names: set, enclosing: tuple = ()) -> list:
    """[(name, node, why)] for fn and the functions nested in it"""
    bound = _bound_in(fn)
    visible = bound | module_names | _BUILTINS
    for e in enclosing:
        visible |= e
    out = []
    for n in _scope_nodes(fn):
        if isinstance(n, ast.Name) and isinstance(n.ctx, ast.Load) and n.id not in visible:
            out.append((n.id, n, 'read but defined nowhere (no assignment in the function, no module-level name, no builtin)'))
    out += _try_fallthrough(fn)
    out += _arm_fallthrough(fn)
    out += _read_before_any_store(fn, bound)
    for n in _scope_nodes(fn):
        if isinstance(n, (ast.FunctionDef, ast.AsyncFunctionDef)):
            out += undefined_reads(n, module_names, enclosing + (bound,))
    return out


def _falls_through(body) -> bool:
    return not (body and isinstance(body[-1], (ast.Return, ast.Raise, ast.Continue, ast.Break)))


def _stores(stmts) -> set:
    out = set()
    for st in stmts:
        for n in ast.walk(st):
            if isinstance(n, ast.Name) and isinstance(n.ctx, ast.Store):
                out.add(n.id)
    return out


def _try_fallthrough(fn) -> list:
    out = []
    own = list(_scope_nodes(fn))
    blocks = [fn.body]
    for n in own:
        for fld in ('body', 'orelse', 'finalbody'):
            v = getattr(n, fld, None)
            if isinstance(v, list) and v and isinstance(v[0], ast.stmt) and not isinstance(n, (ast.FunctionDef, ast.ClassDef, ast.Lambda)):
                blocks.append(v)
        if isinstance(n, ast.ExceptHandler):
            blocks.append(n.body)
        if isinstance(n, ast.match_case):
            blocks.append(n.body)
    for block in blocks:
        for i, st in enumerate(block):
            if not isinstance(st, ast.Try) or not st.handlers:
                continue
            in_try = _stores(st.body)
            before = set()
            for n in own:
                if isinstance(n, ast.Name) and isinstance(n.ctx, ast.Store) and n.lineno < st.lineno:
                    before.add(n.id)
            a = fn.args
            before |= {x.arg for x in a.posonlyargs + a.args + a.kwonlyargs + [y for y in (a.vararg, a.kwarg) if y]}
            after_loads = {}
            for later in block[i + 1:]:
                for n in ast.walk(later):
                    if isinstance(n, ast.Name) and isinstance(n.ctx, ast.Load):
                        after_loads.setdefault(n.id, n)
            for h in st.handlers:
                if not _falls_through(h.body):
                    continue
                missing = (in_try - _stores(h.body) - _stores(st.finalbody) - before) & set(after_loads)
                for name in sorted(missing):
                    out.append((name, after_loads[name],
                                f'bound in the try body at line {st.lineno} but not by the handler at line {h.lineno} that falls through to this read'))
    return out


def _arms(st):
    """the arms of an if / elif / else chain that ends in an explicit else: [[stmts], ...], else None"""
    arms = [st.body]
    cur = st
    while len(cur.orelse) == 1 and isinstance(cur.orelse[0], ast.If):
        cur = cur.orelse[0]
        arms.append(cur.body)
    if not cur.orelse:
        return None
    arms.append(cur.orelse)
    return arms


def _arm_fallthrough(fn) -> list:
    """(c) a local bound in some arms of an if/elif/else chain (with an explicit else) but not in another arm that falls
    through, never bound before the chain, and read unconditionally right after it in the same block"""
    out = []
    own = list(_scope_nodes(fn))
    a = fn.args
    params = {x.arg for x in a.posonlyargs + a.args + a.kwonlyargs + [y for y in (a.vararg, a.kwarg) if y]}
    blocks = [fn.body]
    for n in own:
        for fld in ('body', 'orelse', 'finalbody'):
            v = getattr(n, fld, None)
            if isinstance(v, list) and v and isinstance(v[0], ast.stmt) and not isinstance(n, (ast.FunctionDef, ast.ClassDef, ast.Lambda)):
                blocks.append(v)
        if isinstance(n, (ast.ExceptHandler, ast.match_case)):
            blocks.append(n.body)
    for block in blocks:
        for i, st in enumerate(block):
            if not isinstance(st, ast.If):
                continue
            arms = _arms(st)
            if arms is None:
                continue
            bound = [(_stores(arm), _falls_through(arm)) for arm in arms]
            some = set().union(*[b for b, _ in bound])
            before = {n.id for n in own if isinstance(n, ast.Name) and isinstance(n.ctx, ast.Store) and n.lineno < st.lineno} | params
            in_loop_later = set()      # a binding later in an enclosing loop body also reaches the read on the next iteration
            for name in sorted(some - before):
                lacking = [k for k, (b, ft) in enumerate(bound) if ft and name not in b]
                if not lacking:
                    continue
                for later in block[i + 1:]:
                    if name in _stores([later]) and not isinstance(later, (ast.For, ast.While, ast.If, ast.Try, ast.With)):
                        # (re)bound by a plain statement: reads in its own value come first, later ones are fine
                        pass
                    # statements of the same block, read in their header (evaluated unconditionally once the block runs on)
                    heads = [later.test] if isinstance(later, (ast.If, ast.While)) else [later.iter] if isinstance(later, ast.For) else \
                        [later] if isinstance(later, (ast.Assign, ast.AugAssign, ast.Expr, ast.Return, ast.AnnAssign)) else []
                    for h in heads:
                        for x in ast.walk(h):
                            if isinstance(x, ast.Name) and isinstance(x.ctx, ast.Load) and x.id == name and name not in in_loop_later:
                                out.append((name, x, f'bound in some arms of the if at line {st.lineno} but not in arm {lacking[0] + 1}, which falls through to this read'))
                                break
                        else:
                            continue
                        break
                    else:
                        if name in _stores([later]):
                            break
                        continue
                    break
    return out


def swapped_arguments(prog, mi, ci, fn) -> list:
    """[(call node, why)]: a positional argument that is a plain name equal to the name of ANOTHER positional parameter of the
    resolved callee, while the parameter it is passed for is itself passed (as a plain name) in a different position: the two
    arguments are swapped.  Callees: methods through the MRO (self / cls / super()), functions and classes of the package, nested
    functions.  Names only - an expression is never judged."""
    out = []
    nested = {n.name: n for n in ast.walk(fn) if isinstance(n, ast.FunctionDef) and n is not fn}
    for call in [n for n in ast.walk(fn) if isinstance(n, ast.Call)]:
        if any(isinstance(a, ast.Starred) for a in call.args) or len(call.args) < 2:
            continue
        f = call.func
        sig = None
        if isinstance(f, ast.Attribute) and isinstance(f.value, ast.Name) and f.value.id in ('self', 'cls') and ci is not None:
            m = prog.resolve_method(ci, f.attr)
            if m is not None and not m.is_property:
                sig = prog._signature(m.node, bound=not m.is_staticmethod)
        elif isinstance(f, ast.Attribute) and isinstance(f.value, ast.Call) and isinstance(f.value.func, ast.Name) and f.value.func.id == 'super' and ci is not None:
            m = prog.resolve_method(ci, f.attr, after=ci)
            if m is not None and not m.is_property:
                sig = prog._signature(m.node, bound=not m.is_staticmethod)
        elif isinstance(f, ast.Name):
            if f.id in nested:
                sig = prog._signature(nested[f.id], bound=False)
            elif f.id in prog.classes and (f.id in mi.classes or f.id in mi.imports):
                sig = prog._signature(prog.classes[f.id], bound=False)
            elif f.id in mi.functions:
                sig = prog._signature(mi.functions[f.id].node, bound=False)
            elif f.id in mi.imports and mi.imports[f.id].startswith('pokerkit.'):
                mod, _, name = mi.imports[f.id].rpartition('.')
                tm = prog.modules.get(mod.split('.')[-1])
                if tm is not None and name in tm.functions:
                    sig = prog._signature(tm.functions[name].node, bound=False)
        if not sig:
            # a few library callees whose argument roles are visible in the shape of the arguments
            if isinstance(f, ast.Name) and f.id in ('search', 'match', 'fullmatch', 'findall', 'finditer') and len(call.args) >= 2:
                def pattern_like(a):
                    return (isinstance(a, ast.Attribute) and isinstance(a.value, ast.Name) and a.value.id in ('self', 'cls') and a.attr.isupper()) \
                        or (isinstance(a, ast.Name) and ('pattern' in a.id.lower() or a.id.isupper())) \
                        or (isinstance(a, ast.Constant) and isinstance(a.value, str))
                if pattern_like(call.args[1]) and not pattern_like(call.args[0]):
                    out.append((call, f'the pattern is passed where the text belongs in {ast.unparse(call)[:70]}'))
            if isinstance(f, ast.Name) and f.id in ('map', 'filter', 'starmap', 'filterfalse') and len(call.args) >= 2:
                def callable_like(a):
                    return isinstance(a, ast.Lambda) or (isinstance(a, ast.Attribute) and a.attr.startswith('__') and a.attr.endswith('__')) \
                        or (isinstance(a, ast.Call) and isinstance(a.func, ast.Name) and a.func.id == 'partial')
                if callable_like(call.args[1]) and not callable_like(call.args[0]) and not (isinstance(call.args[0], ast.Constant) and call.args[0].value is None):
                    out.append((call, f'the function is passed where the iterable belongs in {ast.unparse(call)[:70]}'))
            continue
        names = [a.id if isinstance(a, ast.Name) else None for a in call.args]
        for i, nm in enumerate(names):
            if nm is None or i >= len(sig) or nm == sig[i] or nm not in sig:
                continue
            j = sig.index(nm)
            # nm belongs in position j; is the owner of position i passed somewhere else by name?
            if sig[i] in names and names.index(sig[i]) != i:
                out.append((call, f'`{nm}` is passed for parameter `{sig[i]}` and `{sig[i]}` for `{sig[names.index(sig[i])]}` in {ast.unparse(call)[:70]}'))
                break
    return out


def _read_before_any_store(fn, bound) -> list:
    """(d) straight-line order: a local is read by a statement that runs before every statement that could bind it.  Statements
    are taken block by block in order; a compound statement is assumed to bind everything it binds anywhere inside (so nothing is
    reported across branches), a loop body additionally starts with everything the loop binds (values of the previous iteration)."""
    out = []
    a = fn.args
    params = {x.arg for x in a.posonlyargs + a.args + a.kwonlyargs + [y for y in (a.vararg, a.kwarg) if y]}
    local_names = set()
    for n in _scope_nodes(fn):
        if isinstance(n, ast.Name) and isinstance(n.ctx, ast.Store):
            local_names.add(n.id)
        elif isinstance(n, (ast.FunctionDef, ast.ClassDef)):
            local_names.add(n.name)
        elif isinstance(n, ast.ExceptHandler) and n.name:
            local_names.add(n.name)
        elif isinstance(n, (ast.MatchAs, ast.MatchStar)) and n.name:
            local_names.add(n.name)
        elif isinstance(n, (ast.Import, ast.ImportFrom)):
            local_names |= {(al.asname or al.name).split('.')[0] for al in n.names}
    local_names -= params
    for n in _scope_nodes(fn):
        if isinstance(n, (ast.Global, ast.Nonlocal)):
            local_names -= set(n.names)

    def stores_in(node):
        s = set()
        for x in ast.walk(node):
            if isinstance(x, ast.Name) and isinstance(x.ctx, (ast.Store, ast.Del)):
                s.add(x.id)
            elif isinstance(x, (ast.FunctionDef, ast.ClassDef)):
                s.add(x.name)
            elif isinstance(x, ast.ExceptHandler) and x.name:
                s.add(x.name)
            elif isinstance(x, (ast.MatchAs, ast.MatchStar)) and x.name:
                s.add(x.name)
            elif isinstance(x, (ast.Import, ast.ImportFrom)):
                s |= {(al.asname or al.name).split('.')[0] for al in x.names}
        return s

    def own_loads(expr):
        """loads of an expression that are evaluated when the expression is (not those inside lambdas / nested defs; a
        comprehension binds its own targets)"""
        res = []
        inner_bound = set()
        for x in ast.walk(expr):
            if isinstance(x, ast.comprehension):
                for y in ast.walk(x.target):
                    if isinstance(y, ast.Name):
                        inner_bound.add(y.id)
            if isinstance(x, ast.NamedExpr) and isinstance(x.target, ast.Name):
                inner_bound.add(x.target.id)
        skip = set()
        for x in ast.walk(expr):
            if isinstance(x, ast.Lambda):
                skip |= {id(y) for y in ast.walk(x)}
        for x in ast.walk(expr):
            if id(x) in skip:
                continue
            if isinstance(x, ast.Name) and isinstance(x.ctx, ast.Load) and x.id not in inner_bound:
                res.append(x)
        return res

    def headers(st):
        if isinstance(st, (ast.If, ast.While)):
            return [st.test]
        if isinstance(st, ast.For):
            return [st.iter]
        if isinstance(st, ast.With):
            return [i.context_expr for i in st.items]
        if isinstance(st, ast.Match):
            return [st.subject]
        if isinstance(st, (ast.Try, ast.FunctionDef, ast.ClassDef)):
            return []
        if isinstance(st, ast.AugAssign):
            return [st.value, st.target]
        if isinstance(st, (ast.Assign, ast.AnnAssign)):
            tg = st.targets if isinstance(st, ast.Assign) else [st.target]
            return ([st.value] if st.value is not None else []) + [t for t in tg if not isinstance(t, ast.Name)]
        return [st]

    def run(stmts, assigned):
        assigned = set(assigned)
        for st in stmts:
            for h in headers(st):
                for x in own_loads(h):
                    if x.id in local_names and x.id not in assigned:
                        out.append((x.id, x, 'read before any statement that binds it has run'))
                        assigned.add(x.id)
            inner = set(assigned)
            if isinstance(st, (ast.For, ast.While)):
                inner |= stores_in(st)
            for fld in ('body', 'orelse', 'finalbody'):
                v = getattr(st, fld, None)
                if isinstance(v, list) and v and isinstance(v[0], ast.stmt) and not isinstance(st, (ast.FunctionDef, ast.ClassDef)):
                    run(v, inner | (stores_in(st) if fld != 'body' or isinstance(st, ast.Try) else set()) if not isinstance(st, ast.If) else inner)
            if isinstance(st, ast.Try):
                for hd in st.handlers:
                    run(hd.body, inner | stores_in(st))
            if isinstance(st, ast.Match):
                for c in st.cases:
                    run(c.body, inner | stores_in(c.pattern) | ({x.id for x in ast.walk(c.guard) if isinstance(x, ast.Name)} if c.guard else set()))
            if isinstance(st, ast.With):
                pass
            assigned |= stores_in(st)
    run(fn.body, params)
    return out


def mutable_defaults(fn):
    """[(node, message)] for parameter defaults that are one mutable object shared by all calls (a display or a constructor call of
    list / dict / set / deque / defaultdict / bytearray)"""
    out = []
    a = fn.args
    pos = a.posonlyargs + a.args
    pairs = list(zip(pos[len(pos) - len(a.defaults):], a.defaults)) + [(p, d) for p, d in zip(a.kwonlyargs, a.kw_defaults) if d is not None]
    for p, d in pairs:
        if isinstance(d, (ast.List, ast.Dict, ast.Set, ast.ListComp, ast.DictComp, ast.SetComp)) or (
                isinstance(d, ast.Call) and isinstance(d.func, ast.Name) and d.func.id in ('list', 'dict', 'set', 'deque', 'defaultdict', 'bytearray', 'Counter')):
            out.append((d, f'parameter `{p.arg}` defaults to one mutable object shared between calls: {ast.unparse(d)}'))
    return out


_MUT = {'append', 'extend', 'pop', 'clear', 'remove', 'rotate', 'popleft', 'appendleft', 'add', 'insert', 'sort', 'reverse', 'update',
        'discard', 'extendleft', 'setdefault', 'popitem', '__setitem__', '__delitem__'}


def _root_self(e):
    while isinstance(e, (ast.Subscript, ast.Attribute)):
        if isinstance(e, ast.Attribute) and isinstance(e.value, ast.Name) and e.value.id in ('self', 'cls'):
            return e.attr
        e = e.value
    return None


def _root_name(e):
    while isinstance(e, (ast.Subscript, ast.Attribute)):
        e = e.value
    return e.id if isinstance(e, ast.Name) else None


def written_attrs(fn, module_names=()) -> dict:
    """attributes of self / cls the function writes, with the number of writing sites: assignment, augmented assignment, deletion,
    or a mutating method call on them (through any subscripts): ``self.x = ..``, ``self.x[i] += ..``, ``self.x[i].append(..)``"""
    from collections import Counter
    out = Counter()
    # module-level objects the function changes in place (a cache kept in a module dictionary, a registry): names it does not bind itself
    local = {a.arg for a in fn.args.posonlyargs + fn.args.args + fn.args.kwonlyargs} | {x.arg for x in (fn.args.vararg, fn.args.kwarg) if x}
    local |= {n.id for n in ast.walk(fn) if isinstance(n, ast.Name) and isinstance(n.ctx, ast.Store)}
    declared = {g for n in ast.walk(fn) if isinstance(n, ast.Global) for g in n.names}
    for n in ast.walk(fn):
        g = None
        if isinstance(n, ast.Call) and isinstance(n.func, ast.Attribute) and n.func.attr in _MUT:
            g = _root_name(n.func.value)
        elif isinstance(n, (ast.Assign, ast.AugAssign, ast.Delete)):
            for t in (n.targets if isinstance(n, (ast.Assign, ast.Delete)) else [n.target]):
                if isinstance(t, (ast.Subscript, ast.Attribute)) and _root_name(t) not in ('self', 'cls'):
                    r = _root_name(t)
                    if r and ((r not in local and r in module_names) or r in declared):
                        out['global ' + r] += 1
                elif isinstance(t, ast.Name) and t.id in declared:
                    out['global ' + t.id] += 1
        if g and g not in ('self', 'cls') and ((g not in local and g in module_names) or g in declared):
            out['global ' + g] += 1
    for n in ast.walk(fn):
        tg = []
        if isinstance(n, ast.Assign):
            tg = list(n.targets)
        elif isinstance(n, (ast.AugAssign, ast.AnnAssign)):
            tg = [n.target]
        elif isinstance(n, ast.Delete):
            tg = list(n.targets)
        elif isinstance(n, (ast.For, ast.comprehension)):
            tg = [n.target]
        elif isinstance(n, ast.NamedExpr):
            tg = [n.target]
        elif isinstance(n, ast.Call) and isinstance(n.func, ast.Attribute) and n.func.attr in _MUT:
            r = _root_self(n.func.value)
            if r:
                out[r] += 1
        elif isinstance(n, ast.Call) and isinstance(n.func, ast.Name) and n.func.id in ('setattr', 'delattr') and n.args \
                and isinstance(n.args[0], ast.Name) and n.args[0].id in ('self', 'cls'):
            out[ast.unparse(n.args[1]) if len(n.args) > 1 else '?'] += 1
        flat = []
        for t in tg:
            flat.extend(t.elts if isinstance(t, (ast.Tuple, ast.List)) else [t])
        for t in flat:
            r = _root_self(t.value if isinstance(t, ast.Starred) else t)
            if r:
                out[r] += 1
    return dict(out)


def loop_exits(fn) -> int:
    """number of places where a loop of the function is left or an iteration is cut short (break / continue; the flag loops the
    normal form makes out of any(...) aside)"""
    n = 0
    for node in ast.walk(fn):
        if isinstance(node, (ast.For, ast.While)):
            synthetic = any(isinstance(x, ast.Assign) and isinstance(x.targets[0], ast.Name) and x.targets[0].id.startswith('_any_')
                            for st in node.body for x in ast.walk(st))
            if synthetic:
                continue
            for st in node.body:
                for x in ast.walk(st):
                    if isinstance(x, (ast.Break, ast.Continue)):
                        n += 1
    return n


def oneshot_params(fn):
    """[(node, message)]: a parameter declared as a plain Iterable / Iterator (or the card forms, which include generators) is read more
    than once, or inside a loop, before it is re-bound to a materialised copy - the second reader of a generator finds it empty.
    isinstance tests and error messages do not count as reads"""
    out = []
    a = fn.args
    skip = set()
    for n in ast.walk(fn):
        if isinstance(n, ast.Call) and isinstance(n.func, ast.Name) and n.func.id in ('isinstance', 'repr', 'type', 'id', 'len'):
            skip |= {id(x) for x in ast.walk(n)}
        if isinstance(n, ast.Raise):
            skip |= {id(x) for x in ast.walk(n)}
    for p in a.posonlyargs + a.args + a.kwonlyargs:
        if p.annotation is None:
            continue
        ann = ast.unparse(p.annotation).strip()
        if '|' in ann or not (ann.startswith(('Iterable[', 'Iterator[')) or ann == 'CardsLike'):
            continue
        rebound = None
        for st in fn.body:
            if isinstance(st, ast.Assign) and len(st.targets) == 1 and isinstance(st.targets[0], ast.Name) and st.targets[0].id == p.arg:
                rebound = st.lineno
                break
        def visit(n, depth):
            """reads of the parameter on the longest alternative through ``n`` (the arms of an if / match are alternatives)"""
            if isinstance(n, (ast.FunctionDef, ast.Lambda)) and n is not fn:
                depth += 1          # a nested function may run any number of times
            if isinstance(n, (ast.For, ast.AsyncFor)):
                return visit(n.iter, depth) + [r for b in n.body + n.orelse for r in visit(b, depth + 1)]
            if isinstance(n, ast.While):
                return [r for c in ast.iter_child_nodes(n) for r in visit(c, depth + 1)]
            if isinstance(n, ast.If):
                arms = [[r for b in n.body for r in visit(b, depth)], [r for b in n.orelse for r in visit(b, depth)]]
                return visit(n.test, depth) + max(arms, key=lambda rs: (any(d > 0 for _, d in rs), len(rs)))
            if isinstance(n, ast.Match):
                arms = [[r for b in c.body for r in visit(b, depth)] for c in n.cases] or [[]]
                return visit(n.subject, depth) + max(arms, key=lambda rs: (any(d > 0 for _, d in rs), len(rs)))
            if isinstance(n, ast.IfExp):
                arms = [visit(n.body, depth), visit(n.orelse, depth)]
                return visit(n.test, depth) + max(arms, key=len)
            if isinstance(n, (ast.ListComp, ast.SetComp, ast.GeneratorExp, ast.DictComp)):
                out_ = visit(n.generators[0].iter, depth)
                for g in n.generators[1:]:
                    out_ += visit(g.iter, depth + 1)
                for g in n.generators:
                    for i in g.ifs:
                        out_ += visit(i, depth + 1)
                for e in ([n.key, n.value] if isinstance(n, ast.DictComp) else [n.elt]):
                    out_ += visit(e, depth + 1)
                return out_
            if isinstance(n, ast.Call) and isinstance(n.func, ast.Name) and n.func.id in ('partial', 'repeat', 'cycle', 'starmap'):
                # frozen into a callable / stream that is used any number of times
                return [r for c in ast.iter_child_nodes(n) for r in visit(c, depth + 1)]
            if isinstance(n, ast.Name):
                return [(n, depth)] if n.id == p.arg and isinstance(n.ctx, ast.Load) and id(n) not in skip else []
            return [r for c in ast.iter_child_nodes(n) for r in visit(c, depth)]
        def rebinds(st) -> bool:
            if isinstance(st, ast.Assign):
                return any(isinstance(t, ast.Name) and t.id == p.arg for t in st.targets)
            if isinstance(st, ast.If):
                return all(any(rebinds(x) or isinstance(x, (ast.Raise, ast.Return)) for x in arm) for arm in (st.body, st.orelse)) and bool(st.orelse)
            return False
        reads = []
        for st in fn.body:
            reads += visit(st, 0)
            if rebinds(st):
                break
        pre = reads
        # reads in different arms of one if / match are alternatives: count per path is what matters - approximated by distinct
        # enclosing branch: two reads count only if one does not sit in an arm the other is outside of ... (kept simple: top-level sequence)
        if any(d > 0 for _, d in pre) or len(pre) > 1:
            n0 = next((n for n, d in pre if d > 0), pre[-1][0])
            out.append((n0, f'parameter `{p.arg}` ({ann}) may be a one-shot iterator and is read {len(pre)} time(s)'
                            f'{", inside a loop" if any(d > 0 for _, d in pre) else ""} before being materialised'))
    return out
