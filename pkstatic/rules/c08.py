"""C08 - query, verifier and operation agree; a refused operation changes nothing.

Decided statically (triple agreement): the (operation, verifier, query) triples
are discovered by role and compared with the documented table; argument and
return forwarding between the three is name-to-name; the verifier call
dominates every write of the operation; verifiers/queries/properties have an
empty transitive MOD set; what a verifier can raise is what its wrappers catch;
no raw (unverified) argument indexes a write; removal loops are covered by a
multiplicity bound in the verifier.
"""
from __future__ import annotations

import ast

from .. import terms as T
from ..effects import raise_name
from ..model import AnalysisError, self_attr, stmt_text, walk_no_nested
from ..paths import unversion as unversion_

# documented operations (docs/simulation.rst "Operations"/"Method triplets")
TABLE = {
    'post_ante': ('verify_ante_posting', 'can_post_ante'),
    'collect_bets': ('verify_bet_collection', 'can_collect_bets'),
    'post_blind_or_straddle': ('verify_blind_or_straddle_posting', 'can_post_blind_or_straddle'),
    'burn_card': ('verify_card_burning', 'can_burn_card'),
    'deal_hole': ('verify_hole_dealing', 'can_deal_hole'),
    'deal_board': ('verify_board_dealing', 'can_deal_board'),
    'stand_pat_or_discard': ('verify_standing_pat_or_discarding', 'can_stand_pat_or_discard'),
    'fold': ('verify_folding', 'can_fold'),
    'check_or_call': ('verify_checking_or_calling', 'can_check_or_call'),
    'post_bring_in': ('verify_bring_in_posting', 'can_post_bring_in'),
    'complete_bet_or_raise_to': ('verify_completion_betting_or_raising_to', 'can_complete_bet_or_raise_to'),
    'select_runout_count': ('verify_runout_count_selection', 'can_select_runout_count'),
    'show_or_muck_hole_cards': ('verify_hole_cards_showing_or_mucking', 'can_show_or_muck_hole_cards'),
    'kill_hand': ('verify_hand_killing', 'can_kill_hand'),
    'push_chips': ('verify_chips_pushing', 'can_push_chips'),
    'pull_chips': ('verify_chips_pulling', 'can_pull_chips'),
    'no_operate': ('verify_no_operation', 'can_no_operate'),
}
ALLOWED = {'ValueError', 'UserWarning'}
LOOKUPS = {'index', 'remove', 'pop', 'popleft'}


def discovered(ctx):
    """{operation: (verifier, query)} by role"""
    out = {}
    for ops, v, q in ctx.triples():
        for op in ops:
            out[op] = (v, q)
    return out


def verify_call(fi, verifier):
    """the ``self.<verifier>(...)`` call nodes in fi"""
    return [n for n in walk_no_nested(fi.node)
            if isinstance(n, ast.Call) and self_attr(n.func) == verifier]


def exhaustive_default_raises(prog, fi) -> set:
    """ids of ``raise`` nodes that sit in the ``case _:`` arm of a match whose
    other arms name every member of one enum (unreachable by construction)"""
    from ..evalstatic import SEval
    sev = SEval(prog)
    out = set()
    for n in ast.walk(fi.node):
        if not isinstance(n, ast.Match):
            continue
        members, enum = set(), None
        default = None
        ok = True
        for case in n.cases:
            pat = case.pattern
            if isinstance(pat, ast.MatchAs) and pat.pattern is None and pat.name is None:
                default = case
            elif isinstance(pat, ast.MatchValue) and isinstance(pat.value, ast.Attribute) \
                    and isinstance(pat.value.value, ast.Name):
                enum = enum or pat.value.value.id
                ok &= enum == pat.value.value.id
                members.add(pat.value.attr)
            else:
                ok = False
        if default is None or not ok or enum is None or enum not in prog.classes:
            continue
        if members >= set(sev.enum_members(enum)):
            for r in ast.walk(default):
                if isinstance(r, ast.Raise):
                    out.add(id(r))
    return out


def raises_closure(ctx):
    """RAISES* per State method with exhaustive-match defaults exempted"""
    eff = ctx.eff
    direct = {}
    sites = {}
    for name, fi in eff.methods.items():
        ex = exhaustive_default_raises(ctx.prog, fi)
        s = set()
        for n in ast.walk(fi.node):
            if isinstance(n, ast.Raise) and id(n) not in ex:
                rn = raise_name(n)
                s.add(rn)
                sites.setdefault((name, rn), n)
            if isinstance(n, ast.Call) and isinstance(n.func, ast.Name) and n.func.id == 'warn':
                from ..effects import warn_category
                s.add(warn_category(n))
                sites.setdefault((name, warn_category(n)), n)
        direct[name] = s
    out = {k: set(v) for k, v in direct.items()}
    changed = True
    origin = {(k, r): k for k, v in direct.items() for r in v}
    while changed:
        changed = False
        for k in eff.methods:
            for c in eff.calls.get(k, ()):
                for r in out.get(c, ()):
                    if r not in out[k]:
                        out[k].add(r)
                        origin[(k, r)] = origin.get((c, r), c)
                        changed = True
    return out, origin, sites


def handler_set(try_node) -> set:
    s = set()
    for h in try_node.handlers:
        if h.type is None:
            s.add('BaseException')
        elif isinstance(h.type, ast.Tuple):
            s |= {ast.unparse(x) for x in h.type.elts}
        else:
            s.add(ast.unparse(h.type))
    return s


def run(chk, ctx) -> None:
    ms = ctx.state.methods
    eff = ctx.eff
    disc = discovered(ctx)
    chk.analysed['triples'] = {k: list(v) for k, v in sorted(disc.items())}
    # ---------------------------------------------------------------- triples
    for op, (v, q) in TABLE.items():
        got = disc.get(op)
        loc = ms[op].loc if op in ms else ctx.state.loc
        chk.ob('C08.triples', f'State.{op}', got == (v, q), loc,
               'documented operation has its verifier and its query, discovered by role',
               got=got, want=(v, q))
    for op in disc:
        if op not in TABLE:
            chk.note(f'operation {op} is not in the documented table; it is checked like its siblings')
    chk.floor('C08.triples', 17)
    for op, (v, q) in disc.items():
        qf = ms[q]
        rets = [p.outcome[1] for p in ctx.paths(qf) if p.returned]
        ok = bool(rets) and all(r in (('const', True), ('const', False)) for r in rets) \
            and ('const', True) in rets and ('const', False) in rets
        falls = [p for p in ctx.paths(qf) if not p.returned]
        # ... and nothing else decides: the body is the try around the verifier (an answer given before asking the verifier is an
        # answer the operation does not share)
        stmts = [st for st in qf.body if not (isinstance(st, ast.Expr) and isinstance(st.value, ast.Constant))]
        only_try = bool(stmts) and isinstance(stmts[0], ast.Try) and all(
            isinstance(st, ast.Return) and isinstance(st.value, ast.Constant) and st.value.value is True for st in stmts[1:]) \
            and all(len(h.body) == 1 and isinstance(h.body[0], ast.Return) and isinstance(h.body[0].value, ast.Constant)
                    and h.body[0].value.value is False for h in stmts[0].handlers)
        chk.ob('C08.query_shape', f'State.{q}', ok and not falls and only_try, qf.loc,
               'the query returns True after the verifier passes, False from the handler, nothing else: it has no test of its own',
               got=[stmt_text(st, 60) for st in stmts if not isinstance(st, ast.Try)][:2] or None)
    chk.floor('C08.query_shape', 17)
    _callbacks(chk, ctx)
    from .cover import records_inert
    records_inert(chk, ctx, 'C08.refusals_in_verifier')
    _partial_calls(chk, ctx, disc)

    # ------------------------------------------------------------- forwarding
    n_fw = 0
    seen_q = set()
    for op, (v, q) in disc.items():
        vf = ms[v]
        vparams = [p for p in vf.pos_params if p != 'self']
        for caller in (q, op):
            if (caller, v) in seen_q:
                continue
            seen_q.add((caller, v))
            cf = ms[caller]
            calls = verify_call(cf, v)
            if len(calls) != 1:
                chk.ob('C08.forwarding', f'State.{caller}', False, cf.loc,
                       f'exactly one call of {v} expected, found {len(calls)}')
                continue
            call = calls[0]
            cparams = set(cf.params) - {'self', 'commentary'}
            slots = {}
            bad = []
            for i, a in enumerate(call.args):
                if i >= len(vparams):
                    bad.append(f'extra positional argument {ast.unparse(a)}')
                    continue
                slots[vparams[i]] = a
            for k in call.keywords:
                if k.arg is None or k.arg not in vf.params:
                    bad.append(f'unknown keyword {k.arg}')
                else:
                    slots[k.arg] = k.value
            for p, a in slots.items():
                if not (isinstance(a, ast.Name) and a.id == p):
                    bad.append(f'verifier parameter {p} receives {ast.unparse(a)}')
            for p in vparams:
                if p in cparams and p not in slots:
                    bad.append(f'{p} is a parameter of both but is left to its default')
            for p in cparams:
                if p not in vparams:
                    bad.append(f'parameter {p} of {caller} is unknown to the verifier')
            n_fw += 1
            chk.ob('C08.forwarding', f'State.{caller}', not bad, ctx.loc(cf, call),
                   f'every argument of {caller} lands in the same-named parameter of {v}',
                   got='; '.join(bad) or 'name-to-name', want='name-to-name')
    chk.floor('C08.forwarding', 34)

    # -------------------------------------------------- returns of the verifier
    for op, (v, q) in disc.items():
        vf, of = ms[v], ms[op]
        rets = [n for n in walk_no_nested(vf.node) if isinstance(n, ast.Return) and n.value is not None]
        if not rets:
            continue
        shapes = set()
        for r in rets:
            if isinstance(r.value, ast.Tuple) and all(isinstance(e, ast.Name) for e in r.value.elts):
                shapes.add(tuple(e.id for e in r.value.elts))
            elif isinstance(r.value, ast.Name):
                shapes.add((r.value.id,))
            else:
                shapes.add(None)
        if len(shapes) != 1 or None in shapes:
            chk.undecided('C08.returns', f'State.{op}', vf.loc, 'verifier does not return plain names')
            continue
        names = next(iter(shapes))
        call = verify_call(of, v)[0]
        tgt = None
        for n in walk_no_nested(of.node):
            if isinstance(n, ast.Assign) and n.value is call:
                tgt = n.targets[0]
        if tgt is None:
            got = None
        elif isinstance(tgt, ast.Tuple):
            got = tuple(e.id if isinstance(e, ast.Name) else '?' for e in tgt.elts)
        else:
            got = (tgt.id,) if isinstance(tgt, ast.Name) else ('?',)
        oparams = set(of.params)
        need = tuple(n for n in names)
        ok = got == need
        # a verifier may return a value under a local name the operation calls differently only
        # when no operation parameter is involved
        if not ok and got is not None and len(got) == len(need):
            ok = all(g == n for g, n in zip(got, need) if n in oparams or g in oparams)
        chk.ob('C08.returns', f'State.{op}', ok, ctx.loc(of, call),
               'the operation continues with the verified/cleaned values: it rebinds each value the verifier returns, in order',
               got=got, want=need)
        # no read of a parameter the verifier replaces before it has been verified
        early = []
        for st in of.body:
            if any(n is call for n in ast.walk(st)):
                break
            for n in ast.walk(st):
                if isinstance(n, ast.Name) and isinstance(n.ctx, ast.Load) and n.id in need and n.id in oparams:
                    early.append(n)
        chk.ob('C08.raw_use', f'State.{op}', not early, ctx.loc(of, early[0]) if early else of.loc,
               'a parameter the verifier cleans/defaults is not read before the verifier has run'
               + (f'; `{early[0].id}` is read raw' if early else ''))
    chk.floor('C08.returns', 9)
    chk.floor('C08.raw_use', 9)

    # ------------------------------------------------------------ verify first
    for op, (v, q) in disc.items():
        of = ms[op]
        bad = []
        n_paths = 0
        for p in ctx.paths(of):
            n_paths += 1
            verified = False
            for e in p.events:
                if e.kind == 'call' and e.value == ('self', v):
                    verified = True
                    break
                if e.kind == 'write':
                    bad.append((e, 'write'))
                    break
                if e.kind == 'call' and e.value[0] == 'self' and eff.mod.get(e.value[1]):
                    bad.append((e, f'mutating call {e.value[1]}'))
                    break
            else:
                if not verified and (p.returned or p.outcome == ('fall',)) and any(x.kind in ('write',) for x in p.events):
                    bad.append((p.events[-1], 'path without verifier'))
        detail = 'the verifier call dominates every write and every mutating call of the operation'
        if bad:
            e, why = bad[0]
            detail += f'; first offender: {why} `{stmt_text(e.node, 80)}`'
        chk.ob('C08.verify_first', f'State.{op}', not bad, ctx.loc(of, bad[0][0].node) if bad else of.loc, detail)
    chk.floor('C08.verify_first', 17)

    # -------------------------------------------------------------------- pure
    ops = set(disc)
    n_pure = 0
    for name, fi in ms.items():
        public_query = not name.startswith('_') and name not in ops and name != '__post_init__'
        if not (name.startswith(('verify_', '_verify_', 'can_')) or fi.is_property or public_query):
            continue
        mod = eff.mod.get(name, set())
        n_pure += 1
        detail = 'transitive MOD set over the resolved self-call graph is empty (queries, verifiers and properties never change the state)'
        loc = fi.loc
        if mod:
            culprit = next((m for m in [name] + sorted(eff.reach.get(name, ())) if eff.direct_mod.get(m)), name)
            site = eff.write_sites.get(culprit, [(None, fi.node)])[0][1]
            detail += f'; writes {sorted(mod)} via {culprit}: `{stmt_text(site, 70)}`'
            loc = ctx.loc(ms[culprit], site) if culprit in ms else fi.loc
        chk.ob('C08.pure', f'State.{name}', not mod, loc, detail)
    chk.floor('C08.pure', 85)
    chk.note(f'RNG use: shuffled() is called by {sorted(n for n, f in ms.items() if "shuffled" in {x.id for x in ast.walk(f.node) if isinstance(x, ast.Name)})} (reported, not counted as a state write)')

    # -------------------------------------------------------------- exceptions
    rstar, origin, sites = raises_closure(ctx)
    for op, (v, q) in disc.items():
        extra = rstar.get(v, set()) - ALLOWED
        detail = 'everything the verifier (transitively) raises is ValueError or UserWarning (defaults of exhaustive matches exempt)'
        loc = ms[v].loc
        if extra:
            r = sorted(extra)[0]
            o = origin.get((v, r), v)
            node = sites.get((o, r))
            detail += f'; {r} raised in {o}'
            if node is not None:
                loc = ctx.loc(ms[o], node)
        chk.ob('C08.exceptions', f'State.{v}', not extra, loc, detail, got=sorted(rstar.get(v, ())), want=sorted(ALLOWED))
    # wrappers: every try around a self call catches what the callee raises
    n_wr = 0
    for name, fi in ms.items():
        for t in [n for n in walk_no_nested(fi.node) if isinstance(n, ast.Try)]:
            callees = [self_attr(n.func) for s in t.body for n in ast.walk(s)
                       if isinstance(n, ast.Call) and self_attr(n.func) in ms]
            callees = [c for c in callees if c.startswith(('verify_', '_verify_'))]
            if not callees:
                continue
            hs = handler_set(t)
            need = set()
            for c in callees:
                need |= rstar.get(c, set())
            missing = {r for r in need if r not in hs and 'Exception' not in hs and 'BaseException' not in hs}
            n_wr += 1
            chk.ob('C08.wrappers', f'State.{name}', not missing, ctx.loc(fi, t),
                   f'the handler around {callees} covers everything it can raise', got=sorted(hs), want=sorted(need))
    chk.floor('C08.wrappers', 30)

    # ------------------------------------------------------------------- index
    for op, (v, q) in disc.items():
        of = ms[op]
        params = [p for p in of.params if p not in ('self', 'commentary')]
        if not params:
            continue
        bad = []
        for p in ctx.paths(of):
            for e in p.writes():
                idx_terms = [s[2] for s in T.subterms(e.term) if isinstance(s, tuple) and s and s[0] == 'sub']
                for it in idx_terms:
                    it = _strip_verified(it, v)
                    for prm in params:
                        if T.mentions(it, lambda s, prm=prm: s == ('name', prm)):
                            bad.append((e, prm))
        detail = 'no write of the operation is indexed by a raw argument: the index comes from the verifier'
        if bad:
            detail += f'; `{stmt_text(bad[0][0].node, 80)}` is indexed by the unverified parameter {bad[0][1]}'
        chk.ob('C08.index', f'State.{op}', not bad, ctx.loc(of, bad[0][0].node) if bad else of.loc, detail)
    chk.floor('C08.index', 9)

    _loop_membership(chk, ctx, disc)
    _applies_to(chk, ctx, disc)
    _none_default(chk, ctx)
    from .cover import flag_verifiers
    flag_verifiers(chk, ctx)
    _phase_check_first(chk, ctx)
    _refusals_in_verifier(chk, ctx, disc)


PLAYER_QUEUES = ('actor_indices', 'showdown_indices')


def _applies_to(chk, ctx, disc) -> None:
    """an operation that takes an explicit player applies every per-player effect to that
    (verified) player: a queue of players is shrunk by remove(<that player>), never by a
    positional pop that would take whoever happens to be first"""
    ms = ctx.state.methods
    n = 0
    for op, (v, q) in disc.items():
        of = ms[op]
        if 'player_index' not in of.params:
            continue
        n += 1
        bad = None
        for p in ctx.paths(of):
            who = None
            for name, val in p.env.items():
                pass
            for e in p.writes():
                root = T.root_self_attr(e.term)
                if root in PLAYER_QUEUES:
                    if e.op in ('call:pop', 'call:popleft', 'call:clear'):
                        bad = (e, f'{root} is shrunk positionally ({e.op[5:]}) although the operation names its player explicitly')
                    elif e.op == 'call:remove':
                        arg = _strip_verified(e.value[1][0], v) if e.value and e.value[1] else None
                        if arg is None or not T.mentions(arg, lambda s: s == ('verified',)):
                            bad = (e, f'{root}.remove(...) does not remove the verified player')
            for c in p.calls():
                if c.value == ('self', '_pop_actor_index'):
                    bad = (c, 'the head of the actor queue is popped although the operation names its player explicitly')
        chk.ob('C08.applies_to', f'State.{op}', bad is None, ctx.loc(of, bad[0].node) if bad else of.loc,
               'the player an explicit index refers to is the player the operation is applied to', got=bad[1] if bad else 'verified player throughout')
    chk.floor('C08.applies_to', 7)


def _refusals_in_verifier(chk, ctx, disc) -> None:
    """an operation refuses nothing itself: every ``raise`` and every ``warn(...)`` (an error under warnings-as-errors) belongs to
    the verifier, which runs before the first write - a refusal inside the operation would come after the query said yes and,
    placed after a write, would leave the state half-changed"""
    ms = ctx.state.methods
    for op in sorted(disc):
        of = ms[op]
        bad = []
        for n in walk_no_nested(of.node):
            if isinstance(n, ast.Raise):
                bad.append(n)
            if isinstance(n, ast.Call) and isinstance(n.func, ast.Name) and n.func.id == 'warn':
                bad.append(n)
        # ... nor do the private helpers it does its work with (consuming cards, mucking, popping the actor): they run after the
        # first write.  Phase steps (_update_/_begin_/_end_) and other operations reached through the cascade have their own rules.
        seen, todo = set(), [op]
        while todo:
            cur = todo.pop()
            for callee in ctx.eff.calls.get(cur, ()):
                if callee in seen or callee not in ms or callee == disc[op][0]:
                    continue
                if callee.startswith(('verify_', '_verify_', 'can_', '_update_', '_begin_', '_end_', '_setup_')) or ms[callee].is_property or callee in disc \
                        or not callee.startswith('_'):      # (public getters validate their own arguments)
                    continue
                seen.add(callee)
                todo.append(callee)
        for h in sorted(seen):
            for n in walk_no_nested(ms[h].node):
                if isinstance(n, ast.Raise) or (isinstance(n, ast.Call) and isinstance(n.func, ast.Name) and n.func.id == 'warn'):
                    bad.append(n)
        chk.ob('C08.refusals_in_verifier', f'State.{op}', not bad, ctx.loc(of, bad[0]) if bad else of.loc,
               'the operation itself neither raises nor warns: all refusals are the verifier\'s (so the query, which runs the verifier, '
               'answers for the operation, and a refused call changes nothing)', got=[stmt_text(b) for b in bad[:2]])
    chk.floor('C08.refusals_in_verifier', 17)


def _phase_check_first(chk, ctx, rule='C08.phase_check') -> None:
    """``verify_X`` starts with ``self._verify_X()`` whenever that phase verifier exists: whether the operation is due at all is
    decided before any argument is looked at (and the query, which wraps the verifier, agrees with it)"""
    ms = ctx.state.methods
    n = 0
    for name, fi in sorted(ms.items()):
        if not name.startswith('verify_') or ('_' + name) not in ms:
            continue
        n += 1
        first = next((st for st in fi.body if not (isinstance(st, ast.Expr) and isinstance(st.value, ast.Constant))), None)
        ok = isinstance(first, ast.Expr) and isinstance(first.value, ast.Call) and self_attr(first.value.func) == '_' + name and not first.value.args
        if not ok:
            # reached on every path before anything is returned or refused for another reason
            ok = True
            for p in ctx.paths(fi):
                calls = [c for c in p.calls() if c.value[0] == 'self']
                if not calls or calls[0].value[1] != '_' + name:
                    if p.returned or (p.raised and p.conds()):
                        ok = False
        chk.ob(rule, f'State.{name}', ok, fi.loc, f'the verifier first asks its phase verifier _{name}() (is the operation due at all?)')
    chk.floor(rule, 9)


def _none_default(chk, ctx) -> None:
    """an optional argument for which 0 / () is a legal value is tested with `is None`, never by truthiness"""
    ms = ctx.state.methods
    n = 0
    for name, fi in ms.items():
        a = fi.node.args
        opt = []
        for arg, dflt in list(zip(reversed(a.posonlyargs + a.args), reversed(a.defaults))) + list(zip(a.kwonlyargs, a.kw_defaults)):
            if dflt is not None and isinstance(dflt, ast.Constant) and dflt.value is None:
                if arg.annotation is not None and 'Card' in ast.unparse(arg.annotation):
                    continue      # how cards may be written is C19's clause (C19.card_forms), not the index/count clause of C08
                opt.append(arg.arg)
        if not opt:
            continue
        bad = []
        rebound = set()
        for node in ast.walk(fi.node):
            tests = []
            if isinstance(node, (ast.If, ast.While, ast.IfExp, ast.Assert)):
                tests.append(node.test)
            if isinstance(node, ast.BoolOp):
                tests.extend(node.values)
            if isinstance(node, ast.UnaryOp) and isinstance(node.op, ast.Not):
                tests.append(node.operand)
            for t in tests:
                if isinstance(t, ast.Name) and t.id in opt:
                    bad.append(t)
        n += 1
        chk.ob('C08.none_default', f'State.{name}', not bad, ctx.loc(fi, bad[0]) if bad else fi.loc,
               'an optional argument is recognised as "not given" by `is None` only: player 0, a count of 0, an empty tuple of cards and the '
               'unknown card (which is falsy) are values, not absences',
               got=f'`{bad[0].id}` is tested by truthiness' if bad else f'optional {opt}')
    chk.floor('C08.none_default', 20)


def _strip_verified(t, verifier):
    """replace the verifier call (whose arguments are the raw parameters) by a
    token: what flows out of the verifier is verified"""
    if not isinstance(t, tuple):
        return t
    if t and t[0] == 'mcall' and t[1] == ('name', 'self') and t[2] == verifier:
        return ('verified',)
    return tuple(_strip_verified(x, verifier) for x in t)


def _guards(fi):
    """test expressions of if/elif arms that raise (directly) in fi"""
    out = []
    for n in walk_no_nested(fi.node):
        if isinstance(n, ast.If) and any(isinstance(s, ast.Raise) for s in n.body):
            out.append(n.test)
    return out


def _loop_membership(chk, ctx, disc) -> None:
    """a loop of an operation that performs a partial lookup-and-remove on a
    container of the state once per element of an argument-derived collection
    needs (a) a membership test in the loop, or (b) a verifier guard bounding the
    multiplicity: multiset inclusion (Counter difference / <=) or a length bound.
    A set inclusion does not survive the first removal."""
    ms = ctx.state.methods
    n = 0
    for op, (v, q) in disc.items():
        of = ms[op]
        from ..effects import local_aliases
        aliases = local_aliases(of.node)
        for loop in [x for x in walk_no_nested(of.node) if isinstance(x, ast.For)]:
            lookups = []
            removes = False
            for c in ast.walk(loop):
                if isinstance(c, ast.Call) and isinstance(c.func, ast.Attribute) and c.func.attr in LOOKUPS:
                    recv = c.func.value
                    root = recv
                    while isinstance(root, (ast.Subscript, ast.Attribute)) and self_attr(root) is None:
                        root = root.value
                    sa = self_attr(root)
                    if sa is None and isinstance(root, ast.Name) and aliases.get(root.id):
                        sa = sorted(aliases[root.id])[0]        # a local bound to storage (x = self.A[i])
                    if sa is not None:
                        lookups.append((c, sa))
                        removes |= c.func.attr in ('remove', 'pop', 'popleft')
            if not lookups or not removes:
                continue
            n += 1
            # (a) per-iteration membership test on the same container
            guarded = all(_membership_guarded(loop, c) for c, _ in lookups)
            iter_is_state = self_attr(loop.iter) is not None
            kinds = []
            vf = ms[v]
            helpers = [ms[x] for x in ctx.eff.calls.get(v, ()) if x.startswith('_verify_') and x in ms]
            for g in [t for f in [vf] + helpers for t in _guards(f)]:
                src = ast.unparse(g)
                roots = {r for _, r in lookups}
                if not any(f'self.{r}' in src for r in roots):
                    continue
                if 'Counter(' in src and (' - ' in src or '<=' in src or '>=' in src):
                    kinds.append('multiset inclusion')
                elif '.count(' in src:
                    kinds.append('count bound')
                elif 'len(' in src and any(f'len(self.{r}' in src for r in roots):
                    kinds.append('length bound')
                elif 'set(' in src and ('<=' in src or 'issubset' in src):
                    kinds.append('SET inclusion (insufficient)')
            ok = guarded or any(k in ('multiset inclusion', 'count bound', 'length bound') for k in kinds)
            if iter_is_state and not ok:
                # iterating a state collection of distinct indices while removing from a
                # container built from it: covered only by membership test
                ok = guarded
            chk.ob('C08.loop_membership', f'State.{op}', ok, ctx.loc(of, loop),
                   'a lookup-and-remove loop is covered by a per-iteration membership test or a multiplicity bound in the verifier',
                   got=f'in-loop membership test: {guarded}; verifier guards: {kinds or "none"}',
                   want='membership test, or multiset / count / length bound')
    chk.floor('C08.loop_membership', 3)


def _membership_guarded(loop, call) -> bool:
    recv = ast.unparse(call.func.value)

    def walk(stmts, guarded):
        for st in stmts:
            if isinstance(st, ast.If):
                g = guarded or (f' in {recv}' in ast.unparse(st.test) and 'not in' not in ast.unparse(st.test))
                if walk(st.body, g):
                    return True
                if walk(st.orelse, guarded):
                    return True
            else:
                for n in ast.walk(st):
                    if n is call:
                        return guarded
                for fld in ('body', 'orelse'):
                    sub = getattr(st, fld, None)
                    if isinstance(sub, list) and sub and isinstance(sub[0], ast.stmt):
                        if walk(sub, guarded):
                            return True
        return False
    return walk(loop.body, False)


def _callbacks(chk, ctx) -> None:
    """the functions the caller supplies (fields annotated Callable: the pot division and the rake) are known by their positional
    signature only - calling one by keyword makes every query that gets that far raise TypeError for a conforming function"""
    fields = set()
    for st in ctx.state.node.body:
        if isinstance(st, ast.AnnAssign) and isinstance(st.target, ast.Name) and 'Callable' in ast.unparse(st.annotation):
            fields.add(st.target.id)
    chk.analysed['callback_fields'] = sorted(fields)
    n = 0
    for name, fi in ctx.state.methods.items():
        for c in walk_no_nested(fi.node):
            if isinstance(c, ast.Call) and self_attr(c.func) in fields:
                n += 1
                chk.ob('C08.callbacks', f'State.{name}:{self_attr(c.func)}', not c.keywords and not any(isinstance(a, ast.Starred) for a in c.args),
                       ctx.loc(fi, c), f'the caller-supplied `{self_attr(c.func)}` is called with positional arguments only', got=stmt_text(c) if hasattr(c, 'lineno') else None)
    chk.floor('C08.callbacks', 3)


def _partial_calls(chk, ctx, disc) -> None:
    """an operation that takes something out of a queue of the state by value (``self.Q.remove(x)``, outside any loop or membership
    test) fails with ValueError when x is not there - after other effects were applied. The verifier therefore refuses that case itself:
    one of its refusals tests membership in the same queue"""
    ms = ctx.state.methods
    n = 0
    for op, (v, q) in disc.items():
        of = ms[op]
        in_loop = {id(x) for lp in walk_no_nested(of.node) if isinstance(lp, (ast.For, ast.While)) for x in ast.walk(lp)}
        guarded = {id(x) for st in walk_no_nested(of.node) if isinstance(st, ast.If) and any(isinstance(o, (ast.In, ast.NotIn)) for c in ast.walk(st.test)
                                                                                         if isinstance(c, ast.Compare) for o in c.ops) for x in ast.walk(st)}
        for c in walk_no_nested(of.node):
            if isinstance(c, ast.Call) and isinstance(c.func, ast.Attribute) and c.func.attr == 'remove' and self_attr(c.func.value) is not None \
                    and id(c) not in in_loop and id(c) not in guarded:
                attr = self_attr(c.func.value)
                n += 1
                ok = False
                for p in ctx.paths(ms[v]):
                    if p.raised:
                        for cond in p.conds(flat=True):
                            if any(isinstance(t, tuple) and t and t[0] in ('in', 'notin') and T.mentions(t, lambda x: x == ('self', attr)) for t in T.subterms(cond)):
                                ok = True
                chk.ob('C08.partial', f'State.{op}:{attr}.remove', ok, ctx.loc(of, c),
                       f'the operation removes a value from self.{attr}, which fails when it is not there: the verifier refuses that case '
                       f'(a refusal that tests membership in self.{attr})', got=stmt_text(c))
        # ... and one that takes the next player off the queue of actors needs a verifier that refuses when nobody is to act
        pops = [c for c in walk_no_nested(of.node) if isinstance(c, ast.Call) and (self_attr(c.func) == '_pop_actor_index' or (
            isinstance(c.func, ast.Attribute) and c.func.attr in ('popleft', 'pop') and self_attr(c.func.value) == 'actor_indices' and not c.args))]
        if pops:
            n += 1
            empty = T.spec('not self.actor_indices', boolean=True)
            todo, seen, ok = [v], set(), False
            while todo:
                cur = todo.pop()
                if cur in seen or cur not in ms:
                    continue
                seen.add(cur)
                for p in ctx.paths(ms[cur]):
                    if p.raised and empty in [unversion_(c) for c in p.conds(flat=True)]:
                        ok = True
                todo += [c for c in ctx.eff.calls.get(cur, ()) if c.startswith(('_verify_', 'verify_'))]
            chk.ob('C08.partial', f'State.{op}:actor_indices.pop', ok, ctx.loc(of, pops[0]),
                   'the operation takes the next player off the queue of actors: its verifier refuses when that queue is empty', got=stmt_text(pops[0]))
    chk.floor('C08.partial', 1)
