"""C11 - each predefined variant plays the game its name and documentation say.

Decided statically: the declarations of the variant classes are *evaluated*
(class attributes through the C3 MRO, the literal ``Street(...)`` tuples inside
the ``__init__`` chain with symbolic constructor parameters) and compared with
a table transcribed from docs/simulation.rst and the rules of the games.
"""
from __future__ import annotations

import ast

from ..evalstatic import ClassRef, EnumMember, Obj, SEval, Sym, Unknown, init_chain
from ..model import AnalysisError

D, U = False, True   # hole card dealt face down / up

# (burn, hole facings, board cards, draw, opening, bet parameter)
def _holdem(n, sb, bb):
    return [
        (False, (D,) * n, 0, False, 'POSITION', sb),
        (True, (), 3, False, 'POSITION', sb),
        (True, (), 1, False, 'POSITION', bb),
        (True, (), 1, False, 'POSITION', bb),
    ]


def _stud(first, later):
    return [
        (False, (D, D, U), 0, False, first, 'small_bet'),
        (True, (U,), 0, False, later, 'small_bet'),
        (True, (U,), 0, False, later, 'big_bet'),
        (True, (U,), 0, False, later, 'big_bet'),
        (True, (D,), 0, False, later, 'big_bet'),
    ]


def _draw(n, bets):
    out = [(False, (D,) * n, 0, False, 'POSITION', bets[0])]
    for b in bets[1:]:
        out.append((True, (), 0, True, 'POSITION', b))
    return out


FIXED, POT, NOLIMIT = 'FIXED_LIMIT', 'POT_LIMIT', 'NO_LIMIT'

# class -> (deck, hand types, structure, cap, forced bet kind, streets)
SPEC = {
    'FixedLimitTexasHoldem': ('STANDARD', ('StandardHighHand',), FIXED, 4, 'blinds', _holdem(2, 'small_bet', 'big_bet')),
    'NoLimitTexasHoldem': ('STANDARD', ('StandardHighHand',), NOLIMIT, None, 'blinds', _holdem(2, 'min_bet', 'min_bet')),
    'NoLimitRoyalHoldem': ('ROYAL_POKER', ('StandardHighHand',), NOLIMIT, None, 'blinds', _holdem(2, 'min_bet', 'min_bet')),
    'NoLimitShortDeckHoldem': ('SHORT_DECK_HOLDEM', ('ShortDeckHoldemHand',), NOLIMIT, None, 'blinds', _holdem(2, 'min_bet', 'min_bet')),
    'PotLimitOmahaHoldem': ('STANDARD', ('OmahaHoldemHand',), POT, None, 'blinds', _holdem(4, 'min_bet', 'min_bet')),
    'FixedLimitOmahaHoldemHighLowSplitEightOrBetter': ('STANDARD', ('OmahaHoldemHand', 'OmahaEightOrBetterLowHand'), FIXED, 4, 'blinds', _holdem(4, 'small_bet', 'big_bet')),
    'FixedLimitSevenCardStud': ('STANDARD', ('StandardHighHand',), FIXED, 4, 'bring_in', _stud('LOW_CARD', 'HIGH_HAND')),
    'FixedLimitSevenCardStudHighLowSplitEightOrBetter': ('STANDARD', ('StandardHighHand', 'EightOrBetterLowHand'), FIXED, 4, 'bring_in', _stud('LOW_CARD', 'HIGH_HAND')),
    'FixedLimitRazz': ('REGULAR', ('RegularLowHand',), FIXED, 4, 'bring_in', _stud('HIGH_CARD', 'LOW_HAND')),
    'NoLimitDeuceToSevenLowballSingleDraw': ('STANDARD', ('StandardLowHand',), NOLIMIT, None, 'blinds', _draw(5, ['min_bet', 'min_bet'])),
    'FixedLimitDeuceToSevenLowballTripleDraw': ('STANDARD', ('StandardLowHand',), FIXED, 4, 'blinds', _draw(5, ['small_bet', 'small_bet', 'big_bet', 'big_bet'])),
    'FixedLimitBadugi': ('REGULAR', ('BadugiHand',), FIXED, 4, 'blinds', _draw(4, ['small_bet', 'small_bet', 'big_bet', 'big_bet'])),
}

PHH_CODES = {
    'FT': 'FixedLimitTexasHoldem', 'NT': 'NoLimitTexasHoldem', 'NS': 'NoLimitShortDeckHoldem',
    'PO': 'PotLimitOmahaHoldem', 'FO/8': 'FixedLimitOmahaHoldemHighLowSplitEightOrBetter',
    'F7S': 'FixedLimitSevenCardStud', 'F7S/8': 'FixedLimitSevenCardStudHighLowSplitEightOrBetter',
    'FR': 'FixedLimitRazz', 'N2L1D': 'NoLimitDeuceToSevenLowballSingleDraw',
    'F2L3D': 'FixedLimitDeuceToSevenLowballTripleDraw', 'FB': 'FixedLimitBadugi',
}

NAME_RULE = (('FixedLimit', FIXED, 4), ('PotLimit', POT, None), ('NoLimit', NOLIMIT, None))

# a split game: two hand types, high first
SPLIT_MARK = 'HighLowSplit'

STATE_FIELD_ALIASES = {}


def variant_classes(ctx):
    prog = ctx.prog
    poker = prog.cls('Poker')
    out = []
    for ci in prog.subclasses('Poker'):
        if ci.module != 'games':
            continue
        if prog.is_abstract(ci):
            continue
        out.append(ci)
    return out


def enum_name(v):
    if isinstance(v, EnumMember):
        return v.name
    return repr(v)


def describe_street(o):
    if not isinstance(o, Obj) or o.cls != 'Street':
        return repr(o)
    a = list(o.args)
    return (a[0], tuple(a[1]) if isinstance(a[1], (tuple, list)) else a[1], a[2], a[3], enum_name(a[4]),
            a[5].name if isinstance(a[5], Sym) else repr(a[5]), a[6])


def run(chk, ctx) -> None:
    prog = ctx.prog
    sev = SEval(prog)
    variants = variant_classes(ctx)
    chk.analysed['variant_classes'] = [c.name for c in variants]
    street_ci = prog.cls('Street')
    street_fields = [n for n in street_ci.ann]
    want_fields = ['card_burning_status', 'hole_dealing_statuses', 'board_dealing_count', 'draw_status',
                   'opening', 'min_completion_betting_or_raising_amount', 'max_completion_betting_or_raising_count']
    chk.ob('C11.street_fields', 'Street', street_fields == want_fields, street_ci.loc,
           'positional field order of Street is the one the street templates are read with',
           got=street_fields, want=want_fields)
    for ci in variants:
        name = ci.name
        loc = ci.loc
        structure = sev.class_attr(name, 'betting_structure')
        cap = sev.class_attr(name, 'max_completion_betting_or_raising_count', default=Unknown('no cap attr'))
        deck = sev.class_attr(name, 'deck')
        hts = sev.class_attr(name, 'hand_types')
        try:
            stored = init_chain(prog, sev, name)
        except AnalysisError as ex:
            chk.ob('C11.table', name, False, loc, f'constructor chain not evaluable: {ex}')
            continue
        streets = stored.get('streets')
        got_streets = [describe_street(s) for s in streets] if isinstance(streets, (tuple, list)) else repr(streets)
        # ---- name rule (applies to every variant, also ones added later)
        for prefix, st, cp in NAME_RULE:
            if name.startswith(prefix):
                chk.ob('C11.name', name, enum_name(structure) == st and cap == cp, loc,
                       f'class-name prefix {prefix} => betting structure {st}, raise cap {cp}',
                       got=f'{enum_name(structure)}, cap {cap!r}', want=f'{st}, cap {cp!r}')
        # every street carries the class cap
        if isinstance(streets, (tuple, list)):
            caps = [s.args[6] if isinstance(s, Obj) and len(s.args) > 6 else '?' for s in streets]
            chk.ob('C11.cap_on_streets', name, all(c == cap for c in caps), loc,
                   'every street of the variant carries the raise cap of its betting structure',
                   got=caps, want=cap)
            if enum_name(structure) == FIXED:
                bets = [s.args[5] for s in streets if isinstance(s, Obj)]
                ok = bool(bets) and bets[0] == Sym('small_bet') and bets[-1] == Sym('big_bet')
                chk.ob('C11.fixed_bets', name, ok, loc,
                       'a fixed-limit variant starts on the small bet and ends on the big bet',
                       got=bets)
        if SPLIT_MARK in name:
            ok = isinstance(hts, tuple) and len(hts) == 2
            chk.ob('C11.split', name, ok, loc, 'a hi-lo split variant has exactly two hand types', got=hts)
        # ---- forwarding of constructor parameters to the root attributes
        fi = prog.resolve_method(ci, '__init__')
        for p in fi.params:
            if p == 'self':
                continue
            if p in ('small_bet', 'big_bet', 'min_bet'):
                continue  # consumed by the street templates (checked in C11.table)
            tgt = p
            got = stored.get(tgt, Unknown('not stored'))
            chk.ob('C11.forward', f'{name}.__init__:{p}', got == Sym(p), prog.resolve_method(ci, '__init__').loc,
                   f'constructor parameter {p} reaches the same-named attribute of the game unchanged',
                   got=got, want=Sym(p))
        chk.ob('C11.forward', f'{name}.__init__:*arity', not stored.get('*missing') and not stored.get('*extra'), loc,
               'every super().__init__ call passes exactly the positional parameters its target declares',
               got=f"missing={stored.get('*missing')} extra={stored.get('*extra')}")
        # ---- the documented table
        if name not in SPEC:
            chk.note(f'variant {name} is not in the documented table: only the generic rules were applied')
            continue
        sdeck, shts, sstruct, scap, forced, sstreets = SPEC[name]
        got_hts = tuple(h.name if isinstance(h, ClassRef) else repr(h) for h in hts) if isinstance(hts, tuple) else repr(hts)
        chk.ob('C11.table', f'{name}:deck', enum_name(deck) == sdeck, loc, 'deck', got=enum_name(deck), want=sdeck)
        chk.ob('C11.table', f'{name}:hand_types', got_hts == shts, loc, 'hand types (order = split order)', got=got_hts, want=shts)
        chk.ob('C11.table', f'{name}:structure', enum_name(structure) == sstruct and cap == scap, loc,
               'betting structure and raise cap', got=f'{enum_name(structure)}, cap {cap!r}', want=f'{sstruct}, cap {scap!r}')
        want_streets = [(b, h, n, d, o, bet, scap) for (b, h, n, d, o, bet) in sstreets]
        chk.ob('C11.table', f'{name}:streets', got_streets == want_streets, loc,
               'streets: (burn, hole facings, board cards, draw, opening, bet, cap)',
               got=got_streets, want=want_streets)
        bi, bl = stored.get('bring_in'), stored.get('raw_blinds_or_straddles')
        if forced == 'blinds':
            ok = bi == 0 and bl == Sym('raw_blinds_or_straddles')
            want = 'bring_in=0, blinds=$raw_blinds_or_straddles'
        else:
            ok = bi == Sym('bring_in') and bl == 0
            want = 'bring_in=$bring_in, blinds=0'
        chk.ob('C11.table', f'{name}:forced_bets', ok, loc, 'forced bets', got=f'bring_in={bi!r}, blinds={bl!r}', want=want)
    chk.floor('C11.table', 12 * 5)
    chk.floor('C11.name', 12)
    # ---- what the declared structure and cap mean while playing (clauses shared with C03)
    from .c03 import _max_amount, _raise_effects, _refusals
    from .c19 import _Rename

    class _To11(_Rename):
        def ob(self, rule, *a, **k):
            return self.chk.ob('C11.semantics', *a, **k)

        def floor(self, rule, n):
            return None
    r = _To11(chk)
    _max_amount(r, ctx)      # fixed-limit: exactly the fixed size; pot-limit: up to the pot; no-limit: up to the stack
    # pot-limit: "the pot" is the pot-sized raise over everything on the table (bets in front of the players + every collected pot, rake included)
    from .c03 import _pot_sized
    from .c01 import total_pot
    from .helpers import foreign
    foreign(chk, _pot_sized, chk, ctx, 'C11.semantics')
    foreign(chk, total_pot, chk, ctx, 'C11.semantics')
    # split games: a (side) pot is halved only when one of ITS contenders holds a hand of each type (the split clauses of C02)
    from .c02 import _types
    from .helpers import Refile
    foreign(chk, _types, Refile(chk, {'C02.types_depend_on_pot': 'C11.split', 'C02.types_depend_on_board': 'C11.split'}), ctx)
    _cap_semantics(chk, ctx)   # a bet/raise is refused once the per-street cap is reached; every bet/raise counts towards it
    chk.floor('C11.semantics', 4)
    _defaults(chk, ctx, variants)
    _game_properties(chk, ctx)
    _create_state(chk, ctx, variants)
    _game_call(chk, ctx)
    _codes(chk, ctx, sev)
    # a hand history re-creates the game of its variant code with the parameters it recorded (the name / parameter clauses of C16)
    from .c16 import _fields
    from .helpers import Refile
    hh = prog.cls('HandHistory')
    from .helpers import foreign
    foreign(chk, _fields, Refile(chk, {'C16.names': 'C11.codes'}), ctx, hh, hh.methods.get('from_game_state'))
    # ... and the class a code stands for is looked up afresh (a remembered game type survives a change of the variant field)
    from ..ctx import _dynamic
    gt = hh.methods.get('game_type')
    dyn = _dynamic(prog, gt) if gt is not None else [(None, 'HandHistory.game_type vanished')]
    chk.ob('C11.codes', 'HandHistory.game_type:static', not dyn, gt.loc if gt is not None else hh.loc,
           'the game type of a history is read off its variant code every time it is asked for', got=[w for _, w in dyn[:2]])


def _cap_semantics(chk, ctx) -> None:
    """what "at most N bets/raises per round" means while playing - only the cap clauses of the betting rules (the rest of
    C03's refusal and re-opening rules says nothing about a variant)"""
    from .c03 import raise_guards
    from .. import terms as T
    from ..paths import unversion
    name = '_verify_completion_betting_or_raising'
    cap = T.spec('self.completion_betting_or_raising_count == self.street.max_completion_betting_or_raising_count', boolean=True)
    guards = [g for exc, g, cs, p in raise_guards(ctx, name) if exc == 'ValueError']
    chk.ob('C11.semantics', f'State.{name}:cap', cap in guards, ctx.sfi(name).loc,
           'a bet/raise is refused when the number of bets/raises of the round has reached the cap of the street', want=T.show(cap))
    op = ctx.sfi('complete_bet_or_raise_to')
    ok = True
    n = 0
    for p in ctx.paths(op):
        if not p.returned:
            continue
        n += 1
        incs = [e for e in p.writes() if unversion(e.term) == ('self', 'completion_betting_or_raising_count')]
        ok &= len(incs) == 1 and incs[0].op == '+=' and unversion(incs[0].value) == T.num(1)
    chk.ob('C11.semantics', 'State.complete_bet_or_raise_to:counted', ok and n > 0, op.loc,
           'every completion, bet or raise counts once towards the cap (full or not)')
    bb = ctx.sfi('_begin_betting')
    resets = [e for p in ctx.paths(bb) for e in p.writes() if unversion(e.term) == ('self', 'completion_betting_or_raising_count')]
    chk.ob('C11.semantics', 'State._begin_betting:count_reset', bool(resets) and all(e.op == 'set' and unversion(e.value) == T.num(0) for e in resets), bb.loc,
           'the count starts from 0 in every betting round (the cap is per street)')


WANT_DEFAULTS = {'mode': 'Mode.TOURNAMENT', 'starting_board_count': '1', 'divmod': 'divmod', 'rake': 'rake'}


def _kw_defaults(fn):
    a = fn.args
    return {x.arg: (ast.unparse(d) if d is not None else None) for x, d in zip(a.kwonlyargs, a.kw_defaults)}


def _defaults(chk, ctx, variants) -> None:
    """the optional game settings default alike everywhere: tournament mode, ONE board, the default divmod and rake"""
    prog = ctx.prog
    seen = set()
    fns = [prog.func('Poker.__init__')]
    for ci in variants:
        for name in ('__init__', 'create_state'):
            fi = prog.resolve_method(ci, name)
            if fi is not None:
                fns.append(fi)
    for fi in fns:
        if fi.qualname in seen:
            continue
        seen.add(fi.qualname)
        got = _kw_defaults(fi.node)
        chk.ob('C11.defaults', fi.qualname, got == WANT_DEFAULTS, fi.loc,
               'keyword-only game settings and their defaults (tournament mode, one board, default pot division and rake)', got=got, want=WANT_DEFAULTS)
    st = ctx.state
    got = {}
    for k in WANT_DEFAULTS:
        node = st.attr_nodes.get(k)
        got[k] = ast.unparse(node.value) if isinstance(node, ast.AnnAssign) and node.value is not None else None
    chk.ob('C11.defaults', 'State', got == WANT_DEFAULTS, st.loc, 'the same defaults on State itself', got=got, want=WANT_DEFAULTS)
    chk.floor('C11.defaults', 14)


def _game_properties(chk, ctx) -> None:
    """derived read-only facts of a game that the hand-history writer reads back"""
    import pkstatic.terms as T
    prog = ctx.prog
    poker = prog.cls('Poker')
    want = {
        'small_bet': 'self.streets[0].min_completion_betting_or_raising_amount',
        'big_bet': 'self.streets[-1].min_completion_betting_or_raising_amount',
        'button_status': 'any(street.opening == Opening.POSITION for street in self.streets)',
        'max_hole_card_count': 'sum(len(street.hole_dealing_statuses) for street in self.streets)',
        'max_down_card_count': 'sum(street.hole_dealing_statuses.count(False) for street in self.streets)',
        'max_up_card_count': 'sum(street.hole_dealing_statuses.count(True) for street in self.streets)',
        'max_board_card_count': 'sum(street.board_dealing_count for street in self.streets)',
    }
    for name, src in want.items():
        fi = poker.methods.get(name)
        if fi is None:
            raise AnalysisError(f'Poker.{name} vanished')
        rets = [p.outcome[1] for p in ctx.paths(fi) if p.returned]
        chk.ob('C11.game_properties', f'Poker.{name}', rets == [T.spec(src)], fi.loc, 'derived fact of the game definition',
               got=[T.show(r) for r in rets], want=src)
    fi = poker.methods.get('min_bet')
    ok = False
    if fi is not None:
        diff = T.spec('self.small_bet != self.big_bet', boolean=True)
        ok = any(p.raised and diff in p.conds() for p in ctx.paths(fi)) and \
            any(p.returned and T.mk_not(diff) in p.conds() and p.outcome[1] == ('self', 'small_bet') for p in ctx.paths(fi))
    chk.ob('C11.game_properties', 'Poker.min_bet', ok, fi.loc if fi else poker.loc,
           'a single minimum bet exists only when small and big bet coincide (otherwise asking for it is an error)')


def _name_of(e):
    if isinstance(e, ast.Name):
        return e.id
    if isinstance(e, ast.Attribute) and isinstance(e.value, ast.Name) and e.value.id == 'self':
        return e.attr
    return None


def _create_state(chk, ctx, variants) -> None:
    prog = ctx.prog
    n = 0
    for ci in variants:
        fi = prog.resolve_method(ci, 'create_state')
        if fi is None:
            chk.ob('C11.create_state', ci.name, False, ci.loc, 'variant has no create_state factory')
            continue
        if fi.cls is not ci and fi.cls.name in [c.name for c in variants]:
            # inherited from another concrete variant (royal hold'em): the
            # owner's factory is checked once, the __init__ must be inherited too
            init_owner = prog.resolve_method(ci, '__init__').cls
            owner_init = prog.resolve_method(fi.cls, '__init__').cls
            chk.ob('C11.create_state', f'{ci.name}.create_state', init_owner is owner_init, ci.loc,
                   f'factory inherited from {fi.cls.name} and the constructor it calls is the same')
            n += 1
            continue
        init = prog.resolve_method(fi.cls, '__init__')
        rets = [s for s in ast.walk(fi.node) if isinstance(s, ast.Return)]
        ok_shape = (len(rets) == 1 and isinstance(rets[0].value, ast.Call)
                    and isinstance(rets[0].value.func, ast.Call)
                    and isinstance(rets[0].value.func.func, ast.Name) and rets[0].value.func.func.id == 'cls')
        if not ok_shape:
            chk.ob('C11.create_state', f'{fi.qualname}', False, fi.loc,
                   'factory is not of the form cls(<game parameters>)(raw_starting_stacks, player_count)')
            continue
        outer, inner = rets[0].value, rets[0].value.func
        ipos = [p for p in init.pos_params if p != 'self']
        got = [_name_of(a) for a in inner.args]
        chk.ob('C11.create_state', f'{fi.qualname}:positional', got == ipos[:len(got)] and len(got) == len(ipos), fi.loc,
               'positional arguments of cls(...) are the same-named factory parameters in constructor order',
               got=got, want=ipos)
        kws = {k.arg: _name_of(k.value) for k in inner.keywords}
        want_kw = {p: p for p in init.kwonly_params}
        chk.ob('C11.create_state', f'{fi.qualname}:keywords', kws == want_kw, fi.loc,
               'every keyword-only game option is forwarded name-to-name', got=kws, want=want_kw)
        call = prog.resolve_method(fi.cls, '__call__')
        cpos = [p for p in call.pos_params if p != 'self']
        got2 = [_name_of(a) for a in outer.args]
        chk.ob('C11.create_state', f'{fi.qualname}:call', got2 == cpos and not outer.keywords, fi.loc,
               'the game is called with (raw_starting_stacks, player_count) in that order', got=got2, want=cpos)
        fparams = [p for p in fi.params if p != 'cls']
        used = set(got) | set(kws.values()) | set(got2)
        chk.ob('C11.create_state', f'{fi.qualname}:all_used', set(fparams) == used, fi.loc,
               'every factory parameter is forwarded', got=sorted(set(fparams) - used))
        n += 1
    chk.floor('C11.create_state', 12)


def _game_call(chk, ctx) -> None:
    """Poker.__call__ builds State(...) with each attribute in the slot of the
    same-named State field."""
    prog = ctx.prog
    fi = prog.func('Poker.__call__')
    state = prog.cls('State')
    init_fields = []
    kwonly = False
    kw_fields = []
    for name, node in state.attr_nodes.items():
        if not isinstance(node, ast.AnnAssign):
            continue
        ann = ast.unparse(node.annotation)
        if name == '_' and 'KW_ONLY' in ann:
            kwonly = True
            continue
        if 'ClassVar' in ann:
            continue
        v = node.value
        if isinstance(v, ast.Call) and ast.unparse(v.func) == 'field' \
                and any(k.arg == 'init' and isinstance(k.value, ast.Constant) and k.value.value is False for k in v.keywords):
            continue
        (kw_fields if kwonly else init_fields).append(name)
    calls = [n for n in ast.walk(fi.node) if isinstance(n, ast.Call) and isinstance(n.func, ast.Name) and n.func.id == 'State']
    if len(calls) != 1:
        raise AnalysisError('Poker.__call__ no longer builds exactly one State(...)')
    call = calls[0]
    params = set(fi.params)

    plain = globals()['_name_of']

    def _name_of(e):         # a bare name must be a parameter of __call__: a local of the same name is a re-computed value
        return None if isinstance(e, ast.Name) and e.id not in params else plain(e)
    got = [_name_of(a) for a in call.args]
    chk.ob('C11.game_call', 'Poker.__call__:positional', got == init_fields, fi.loc,
           'each positional argument of State(...) is the same-named game attribute / parameter',
           got=got, want=init_fields)
    kws = {k.arg: _name_of(k.value) for k in call.keywords}
    chk.ob('C11.game_call', 'Poker.__call__:keywords', kws == {k: k for k in kw_fields}, fi.loc,
           'each keyword option of State(...) is the same-named game attribute', got=kws, want=kw_fields)


def _codes(chk, ctx, sev) -> None:
    prog = ctx.prog
    hh = prog.cls('HandHistory')
    gt = sev.class_attr('HandHistory', 'game_types')
    if not isinstance(gt, dict):
        raise AnalysisError('HandHistory.game_types is not a literal mapping any more')
    got = {k: (v.name if isinstance(v, ClassRef) else repr(v)) for k, v in gt.items()}
    for code, cname in PHH_CODES.items():
        chk.ob('C11.codes', f'HandHistory.game_types[{code!r}]', got.get(code) == cname, hh.loc,
               'PHH variant code maps to the documented game class', got=got.get(code), want=cname)
    req = sev.class_attr('HandHistory', 'required_field_names')
    if not isinstance(req, dict):
        raise AnalysisError('HandHistory.required_field_names is not a literal mapping any more')
    for code, cname in got.items():
        if cname not in prog.classes:
            continue
        init = prog.resolve_method(prog.cls(cname), '__init__')
        params = [p for p in init.pos_params if p not in ('self', 'automations', 'ante_trimming_status')]
        params = [p[4:] if p.startswith('raw_') else p for p in params]
        want = ('variant', *params, 'starting_stacks', 'actions')
        chk.ob('C11.codes', f'HandHistory.required_field_names[{code!r}]', tuple(req.get(code, ())) == want, hh.loc,
               'the required PHH fields of a variant are exactly the parameters its game class is built from',
               got=req.get(code), want=want)
    # a game is recorded under the code of its own class (a variant without a code is an error, not its parent's game)
    fgs = hh.methods.get('from_game_state')
    ok = fgs is not None and bool(ctx.m.exprs(fgs.node, 'cls.variants[type(game)]', nested=False))
    chk.ob('C11.codes', 'HandHistory.from_game_state:exact_class', ok, fgs.loc if fgs else hh.loc,
           'the variant code written for a game is looked up by the exact class of the game')
    chk.floor('C11.codes', 23)
