"""C19 - equivalent ways of writing chips and cards mean the same thing.

Decided statically: the type dispatch of `clean_values` (number -> repeat,
mapping -> accumulate at the key, iterable -> truncate / pad, else
ValueError; a mapping is tested before the generic iterable, and as the
abstract `Mapping`), the text form of cards (one distinct character per rank
and suit, repr = rank then suit, parse reads rank then suit in two-character
steps after `10 -> T` and separator removal), `Card.clean`, the guard list of
`State.__post_init__` against the rule table, parse_value, and the symbolic
identities of the default divmod / rake (shared with C01.helpers).
Not decided: equality of created states.
"""
from __future__ import annotations

import ast

from .. import terms as T
from ..evalstatic import SEval
from ..model import AnalysisError, stmt_text, walk_no_nested
from ..paths import unversion


def dispatch_order(ctx, fi, var):
    """order in which the types of ``var`` are tested, and the paths of each arm, derived from the
    path conditions (so if/elif chains, nested ifs and swapped branches are all read alike)"""
    arms = {}
    longest = []
    for p in ctx.paths(fi):
        tests = []
        for c in p.conds():
            c = unversion(c)
            neg = False
            t = c
            if t[0] == 'not':
                neg, t = True, t[1]
            if t[0] == 'call' and t[1] == 'isinstance' and t[2] and t[2][0] == ('name', var):
                tests.append((T.show(t[2][1]), not neg))
        if len(tests) > len(longest):
            longest = tests
        taken = [k for k, pos in tests if pos]
        key = taken[0] if taken else 'else'
        arms.setdefault(key, []).append(p)
    order = [k for k, _ in longest]
    return order, arms


def card_forms(chk, ctx, rule='C19.card_forms') -> None:
    """an absent card argument is recognised by `is None`: the unknown card and an empty tuple are values"""
    n_c = 0
    for name, fi in ctx.state.methods.items():
        a = fi.node.args
        opt = [arg.arg for arg, d in zip(reversed(a.posonlyargs + a.args), reversed(a.defaults))
               if isinstance(d, ast.Constant) and d.value is None and arg.annotation is not None and 'CardsLike' in ast.unparse(arg.annotation)]
        if not opt:
            continue
        bad = []
        for node in ast.walk(fi.node):
            tests = []
            if isinstance(node, (ast.If, ast.While, ast.IfExp)):
                tests.append(node.test)
            if isinstance(node, ast.BoolOp):
                tests.extend(node.values)
            if isinstance(node, ast.UnaryOp) and isinstance(node.op, ast.Not):
                tests.append(node.operand)
            bad += [t for t in tests if isinstance(t, ast.Name) and t.id in opt]
        n_c += 1
        chk.ob(rule, f'State.{name}', not bad, ctx.loc(fi, bad[0]) if bad else fi.loc,
               'cards given as objects, iterables or text denote the same cards: "no cards given" is tested with `is None`, '
               'never by truthiness (Card.UNKNOWN and an empty tuple are falsy values)')


def run(chk, ctx) -> None:
    prog = ctx.prog
    mi = prog.module('utilities')
    sev = SEval(prog)
    m = ctx.m
    # ------------------------------------------------------------------ values
    cv = mi.functions.get('clean_values')
    if cv is None:
        raise AnalysisError('utilities.clean_values vanished')
    order, arms = dispatch_order(ctx, cv, 'values')
    chk.ob('C19.values', 'utilities.clean_values:dispatch', order == ['Number', 'Mapping', 'Iterable'] and 'else' in arms, cv.loc,
           'a single number, then any mapping (the abstract Mapping, tested before the generic iterable), then any iterable; anything else is an error',
           got=order + (['else'] if 'else' in arms else []), want=['Number', 'Mapping', 'Iterable', 'else'])

    from .helpers import resolved_types
    resolved_types(chk, ctx, 'C19.values', 'utilities', {'Number': 'numbers.Number', 'Mapping': 'collections.abc.Mapping',
                                                         'Iterable': 'collections.abc.Iterable'})

    def returned(ps):
        out = []
        for p in ps:
            if p.returned:
                r = unversion(p.outcome[1])
                if r[0] == 'call' and r[1] == 'cast' and len(r[2]) == 2:
                    r = r[2][1]
                out.append((p, r))
        return out
    if set(('Number', 'Mapping', 'Iterable', 'else')) <= set(arms):
        rs = returned(arms['Number'])
        ok = bool(rs) and all(r == T.spec('(values,) * count') for _, r in rs)
        chk.ob('C19.values', 'utilities.clean_values:number', ok, cv.loc, 'a single number stands for that amount for every player',
               got=[T.show(r) for _, r in rs], want='(values,) * count')
        rs = returned(arms['Mapping'])
        zeros = T.spec('[0] * count')
        acc = items = False
        for p, r in rs:
            for e in p.events:
                if e.kind == 'loop' and e.op == 'enter' and unversion(e.term) == T.spec('values.items()'):
                    items = True
                if e.kind == 'lwrite' and e.op == '+=':
                    it = T.spec('values.items()')
                    acc |= unversion(e.term) == ('sub', zeros, ('proj', ('elem', it), 0)) and unversion(e.value) == ('proj', ('elem', it), 1)
        ok_ret = bool(rs) and all(r == ('call', 'tuple', (zeros,), ()) for _, r in rs)
        chk.ob('C19.values', 'utilities.clean_values:mapping', ok_ret and acc and items, cv.loc,
               'a position -> amount mapping starts from zeros and adds each amount at its position (negative positions count from the button)',
               got=f'tuple of a zero-initialised list: {ok_ret}; += at key: {acc}; over items: {items}')
        rs = returned(arms['Iterable'])
        cut = T.spec('list(values)[:count]')
        ok_ret = bool(rs) and all(r == ('call', 'tuple', (cut,), ()) for _, r in rs)
        pad = False
        for p, r in rs:
            conds = [unversion(c) for c in p.conds()]
            if T.spec('len(L) < count', {'L': cut}, boolean=True) in conds:
                pad |= any(e.kind == 'call' and unversion(e.term) == ('mcall', cut, 'append', (T.num(0),), ()) for e in p.events)
        chk.ob('C19.values', 'utilities.clean_values:iterable', ok_ret and pad, cv.loc,
               'a list / tuple is cut to the player count and missing entries are zero', got=f'truncate: {ok_ret}; pad with 0 while short: {pad}')
        ok = all(p.raised and p.outcome[1] == 'ValueError' for p in arms['else'])
        chk.ob('C19.values', 'utilities.clean_values:else', ok, cv.loc, 'anything else is rejected with ValueError')
        rejecting = sorted(k for k in ('Number', 'Mapping', 'Iterable') if any(p.raised for p in arms[k]))
        chk.ob('C19.values', 'utilities.clean_values:accepting', not rejecting, cv.loc,
               'every number, mapping (any position from -count to count - 1) and iterable is accepted: only a value of no known form is rejected',
               got=f'arms that raise: {rejecting}')
    chk.floor('C19.values', 5)
    # State uses it for antes, blinds and stacks alike
    pi = ctx.sfi('__post_init__')
    want = {'antes': 'raw_antes', 'blinds_or_straddles': 'raw_blinds_or_straddles', 'starting_stacks': 'raw_starting_stacks'}
    got = {}
    for n in pi.body:
        if isinstance(n, ast.Assign) and isinstance(n.value, ast.Call) and getattr(n.value.func, 'id', '') == 'clean_values':
            a = n.targets[0]
            if isinstance(a, ast.Attribute):
                got[a.attr] = (ast.unparse(n.value.args[0]), ast.unparse(n.value.args[1]))
    chk.ob('C19.values', 'State.__post_init__:normalised', got == {k: (v, 'self.player_count') for k, v in want.items()}, pi.loc,
           'antes, blinds/straddles and starting stacks all go through the same normalisation with the player count', got=got)
    # ------------------------------------------------------------------- cards
    card = prog.cls('Card')
    rp = card.methods.get('__repr__')
    rets = [unversion(p.outcome[1]) for p in ctx.paths(rp) if p.returned] if rp else []
    parts = [ast.unparse(v.value) for n in ast.walk(rp.node) if isinstance(n, ast.JoinedStr) for v in n.values if isinstance(v, ast.FormattedValue)] if rp else []
    consts = [v.value for n in ast.walk(rp.node) if isinstance(n, ast.JoinedStr) for v in n.values if isinstance(v, ast.Constant)] if rp else ['?']
    chk.ob('C19.card_text', 'Card.__repr__', parts == ['self.rank', 'self.suit'] and not consts, rp.loc if rp else card.loc,
           'the text of a card is its rank character followed by its suit character', got=parts)
    for cname in ('Rank', 'Suit'):
        vals = [m.value for m in sev.enum_members(cname).values()]
        ok = all(isinstance(v, str) and len(v) == 1 for v in vals) and len(set(vals)) == len(vals)
        chk.ob('C19.card_text', f'{cname}:values', ok, prog.cls(cname).loc, 'every member has its own single character (text is unambiguous)', got=vals)
    ps = card.methods.get('parse')
    if ps is None:
        raise AnalysisError('Card.parse vanished')
    facts = {
        "10 -> T, commas dropped": bool(m.assigns(ps.node, "contents.replace('10', 'T').replace(',', '')", nested=True)
                                        or m.assigns(ps.node, "contents.replace(',', '').replace('10', 'T')", nested=True)),
        'white space separates': bool(m.fors(ps.node, 'contents.split()', nested=True)),
        'odd length rejected': any(any(isinstance(x, ast.Raise) for x in n.body) for n in m.ifs(ps.node, 'len(content) % 2 != 0', nested=True)),
        'two-character steps': bool(m.fors(ps.node, 'range(0, len(content), 2)', nested=True)),
        'rank then suit, card from (rank, suit)': any(
            isinstance(n, ast.Yield) and (m.eq(T.norm(n.value), 'cls(Rank(content[i]), Suit(content[i + 1]))') or _parse_pair(m, ps.node, n))
            for n in ast.walk(ps.node)),
    }
    missing = [k for k, v in facts.items() if not v]
    chk.ob('C19.card_text', 'Card.parse', not missing, ps.loc,
           'text is read as rank then suit in two-character steps after "10" -> "T"; commas and white space are ignored; a dangling character is an error',
           got=f'missing: {missing}' if missing else 'ok')
    cl = card.methods.get('clean')
    order, arms = dispatch_order(ctx, cl, 'values')
    chk.ob('C19.clean', 'Card.clean:dispatch', order == ['Card', 'str', 'Iterable'] and 'else' in arms, cl.loc,
           'a card, a text (tested before the generic iterable - a str is iterable), any iterable of cards; anything else is an error', got=order)
    if set(('Card', 'str', 'Iterable', 'else')) <= set(arms):
        want = {'Card': '(values,)', 'str': 'tuple(Card.parse(values))', 'Iterable': 'tuple(values)'}
        ok = True
        for k, w in want.items():
            rs = [unversion(p.outcome[1]) for p in arms[k] if p.returned]
            ok &= bool(rs) and all(r == T.spec(w) for r in rs)
        ok &= all(p.raised and p.outcome[1] == 'ValueError' for p in arms['else'])
        chk.ob('C19.clean', 'Card.clean:arms', ok, cl.loc, 'each form is turned into the tuple of the cards it denotes')
    card_forms(chk, ctx)
    chk.floor('C19.card_forms', 6)
    # --------------------------------------------------------------- validation
    want = [
        ('no streets', 'not self.streets'),
        ('first street deals no hole cards', 'not self.streets[0].hole_dealing_statuses'),
        ('negative ante or bring-in', 'min(self.antes) < 0 or self.bring_in < 0'),
        ('no forced bet at all', 'not any(self.antes) and not any(self.blinds_or_straddles) and not self.bring_in'),
        ('non-positive starting stack', 'min(self.starting_stacks) <= 0'),
        ('blinds or straddles together with a bring-in', 'any(self.blinds_or_straddles) and self.bring_in'),
        ('bring-in not below the first bet', 'self.bring_in >= self.streets[0].min_completion_betting_or_raising_amount'),
        ('fewer than two players', 'self.player_count < 2'),
        ('non-positive board count', 'self.starting_board_count <= 0'),
    ]
    got = []
    for p in ctx.paths(pi):
        if p.raised and p.outcome[1] == 'ValueError':
            got.append(unversion(p.conds()[-1]))
    gk = {T.key(g) for g in got}
    for label, src in want:
        w = T.spec(src, boolean=True)
        chk.ob('C19.validation', f'State.__post_init__:{label}', T.key(w) in gk, pi.loc,
               f'an invalid layout is rejected at construction: {label}', got=[T.show(g) for g in got if T.self_attrs(g) & T.self_attrs(w)][:2], want=src)
    extra = [g for g in got if T.key(g) not in {T.key(T.spec(s, boolean=True)) for _, s in want}]
    chk.ob('C19.validation', 'State.__post_init__:no_other_rejections', not extra, pi.loc,
           'nothing else is rejected (negative blinds are late posts and are legal)', got=[T.show(e) for e in extra])
    chk.floor('C19.validation', 10)
    # ----------------------------------------------------------------- helpers
    from .c01 import _helpers
    _helpers(_Rename(chk), ctx)
    from .helpers import parse_value_helper
    parse_value_helper(chk, ctx, 'C19.values')
    sg = mi.functions.get('sign')
    rets = {}
    if sg is not None:
        for p in ctx.paths(sg):
            if p.returned:
                rets[T.show(p.conds()[-1]) if p.conds() else ''] = p.outcome[1]
    chk.ob('C19.values', 'utilities.sign', sorted(v[1] for v in rets.values() if v[0] == 'num') == [-1, 0, 1], sg.loc if sg else 'pokerkit/utilities.py',
           'sign() distinguishes positive, negative and zero amounts (late posts are negative blinds)')


def _parse_pair(m, fn, y):
    """yield cls(r, s) with r = Rank(content[i]) and s = Suit(content[i + 1]) bound just before"""
    if not (isinstance(y.value, ast.Call) and len(y.value.args) == 2 and all(isinstance(a, ast.Name) for a in y.value.args)
            and isinstance(y.value.func, ast.Name) and y.value.func.id == 'cls'):
        return False
    r, s2 = (a.id for a in y.value.args)
    ra = [n for n in ast.walk(fn) if isinstance(n, ast.Assign) and isinstance(n.targets[0], ast.Name) and n.targets[0].id == r]
    sa = [n for n in ast.walk(fn) if isinstance(n, ast.Assign) and isinstance(n.targets[0], ast.Name) and n.targets[0].id == s2]
    if len(ra) != 1 or len(sa) != 1:
        return False
    pair = ('pair', T.norm(ra[0].value), T.norm(sa[0].value))
    return T.alpha_eq(pair, ('pair', T.spec('Rank(content[i])'), T.spec('Suit(content[i + 1])')), m.is_var)


class _Rename:
    """re-files the shared helper obligations under C19"""

    def __init__(self, chk):
        self.chk = chk

    def ob(self, rule, *a, **k):
        return self.chk.ob(rule.replace('C01.', 'C19.'), *a, **k)

    def floor(self, rule, n):
        return self.chk.floor(rule.replace('C01.', 'C19.'), n)

    def __getattr__(self, name):
        return getattr(self.chk, name)
