"""C19 - equivalent ways of writing chips and cards mean the same thing.

Decided statically: the type dispatch of `clean_values` (number -> repeat,
mapping -> accumulate at the key, iterable -> truncate / pad, else
ValueError; a mapping is tested before the generic iterable, and as the
abstract `Mapping`), the text form of cards (one distinct character per rank
and suit, repr = rank then suit, parse reads rank then suit in two-character
steps after `10 -> T` and separator removal), `Card.clean`, the guard list of
`State.__post_init__` against the rule table, parse_value, and the symbolic
identities of the default divmod / rake (shared with C01.helpers).
Not decided: equality of created states.
"""
from __future__ import annotations

import ast

from .. import terms as T
from ..evalstatic import SEval
from ..model import AnalysisError, stmt_text, walk_no_nested
from ..paths import unversion


def isinstance_chain(fi, var):
    """[(class name, If node)] of the top-level if/elif chain testing isinstance(var, X)"""
    out = []
    for st in fi.body:
        cur = st
        while isinstance(cur, ast.If):
            t = cur.test
            if isinstance(t, ast.Call) and isinstance(t.func, ast.Name) and t.func.id == 'isinstance' \
                    and isinstance(t.args[0], ast.Name) and t.args[0].id == var:
                out.append((ast.unparse(t.args[1]), cur))
            else:
                break
            if len(cur.orelse) == 1 and isinstance(cur.orelse[0], ast.If):
                cur = cur.orelse[0]
            else:
                out.append(('else', cur.orelse))
                cur = None
        if out:
            break
    return out


def run(chk, ctx) -> None:
    prog = ctx.prog
    mi = prog.module('utilities')
    sev = SEval(prog)
    # ------------------------------------------------------------------ values
    cv = mi.functions.get('clean_values')
    if cv is None:
        raise AnalysisError('utilities.clean_values vanished')
    chain = isinstance_chain(cv, 'values')
    kinds = [k for k, _ in chain]
    chk.ob('C19.values', 'utilities.clean_values:dispatch', kinds == ['Number', 'Mapping', 'Iterable', 'else'], cv.loc,
           'a single number, then any mapping (the abstract Mapping, tested before the generic iterable), then any iterable; anything else is an error',
           got=kinds, want=['Number', 'Mapping', 'Iterable', 'else'])
    arms = dict(chain)
    if set(('Number', 'Mapping', 'Iterable', 'else')) <= set(arms):
        num = arms['Number']
        ok = any(T.mentions(T.norm(n.value), lambda s: s == ('repeat', ('tuple', (('name', 'values'),)), ('name', 'count')))
                 for n in ast.walk(num) if isinstance(n, ast.Assign) and n in num.body)
        chk.ob('C19.values', 'utilities.clean_values:number', ok, ctx.loc(cv, num), 'a single number stands for that amount for every player')
        mp = arms['Mapping']
        init = any(isinstance(n, ast.Assign) and T.norm(n.value) == T.spec('[0] * count') for n in mp.body)
        acc = any(isinstance(n, ast.AugAssign) and isinstance(n.op, ast.Add) and T.norm(n.target) == T.spec('parsed_values[key]') and T.norm(n.value) == ('name', 'value')
                  for s in mp.body for n in ast.walk(s))
        items = any(isinstance(n, ast.For) and T.norm(n.iter) == T.spec('values.items()') for n in mp.body)
        chk.ob('C19.values', 'utilities.clean_values:mapping', init and acc and items, ctx.loc(cv, mp),
               'a position -> amount mapping starts from zeros and adds each amount at its position (negative positions count from the button)',
               got=f'zeros: {init}; += at key: {acc}; over items: {items}')
        it = arms['Iterable']
        trunc = any(isinstance(n, ast.Assign) and T.norm(n.value) == T.spec('list(values)[:count]') for n in it.body)
        pad = any(isinstance(n, ast.While) and T.cond(n.test) == T.spec('len(parsed_values) < count', boolean=True)
                  and any(isinstance(c, ast.Call) and isinstance(c.func, ast.Attribute) and c.func.attr == 'append' and c.args and T.norm(c.args[0]) == T.num(0) for c in ast.walk(n))
                  for n in it.body)
        chk.ob('C19.values', 'utilities.clean_values:iterable', trunc and pad, ctx.loc(cv, it),
               'a list / tuple is cut to the player count and missing entries are zero', got=f'truncate: {trunc}; pad with 0: {pad}')
        el = arms['else']
        ok = any(isinstance(n, ast.Raise) and 'ValueError' in ast.unparse(n) for n in el)
        chk.ob('C19.values', 'utilities.clean_values:else', ok, cv.loc, 'anything else is rejected with ValueError')
    rets = [n for n in walk_no_nested(cv.node) if isinstance(n, ast.Return)]
    chk.ob('C19.values', 'utilities.clean_values:tuple', all(T.norm(r.value) == ('name', 'values') for r in rets) and
           all(any(isinstance(n, ast.Assign) and ast.unparse(n.targets[0]) == 'values' and ast.unparse(n.value).startswith(('tuple(', 'cast(tuple')) for n in ast.walk(a))
               for k, a in chain if k in ('Number', 'Mapping', 'Iterable')), cv.loc, 'every representation ends as a tuple of per-player amounts')
    chk.floor('C19.values', 6)
    # State uses it for antes, blinds and stacks alike
    pi = ctx.sfi('__post_init__')
    want = {'antes': 'raw_antes', 'blinds_or_straddles': 'raw_blinds_or_straddles', 'starting_stacks': 'raw_starting_stacks'}
    got = {}
    for n in pi.body:
        if isinstance(n, ast.Assign) and isinstance(n.value, ast.Call) and getattr(n.value.func, 'id', '') == 'clean_values':
            a = n.targets[0]
            if isinstance(a, ast.Attribute):
                got[a.attr] = (ast.unparse(n.value.args[0]), ast.unparse(n.value.args[1]))
    chk.ob('C19.values', 'State.__post_init__:normalised', got == {k: (v, 'self.player_count') for k, v in want.items()}, pi.loc,
           'antes, blinds/straddles and starting stacks all go through the same normalisation with the player count', got=got)
    # ------------------------------------------------------------------- cards
    card = prog.cls('Card')
    rp = card.methods.get('__repr__')
    rets = [unversion(p.outcome[1]) for p in ctx.paths(rp) if p.returned] if rp else []
    parts = [ast.unparse(v.value) for n in ast.walk(rp.node) if isinstance(n, ast.JoinedStr) for v in n.values if isinstance(v, ast.FormattedValue)] if rp else []
    consts = [v.value for n in ast.walk(rp.node) if isinstance(n, ast.JoinedStr) for v in n.values if isinstance(v, ast.Constant)] if rp else ['?']
    chk.ob('C19.card_text', 'Card.__repr__', parts == ['self.rank', 'self.suit'] and not consts, rp.loc if rp else card.loc,
           'the text of a card is its rank character followed by its suit character', got=parts)
    for cname in ('Rank', 'Suit'):
        vals = [m.value for m in sev.enum_members(cname).values()]
        ok = all(isinstance(v, str) and len(v) == 1 for v in vals) and len(set(vals)) == len(vals)
        chk.ob('C19.card_text', f'{cname}:values', ok, prog.cls(cname).loc, 'every member has its own single character (text is unambiguous)', got=vals)
    ps = card.methods.get('parse')
    if ps is None:
        raise AnalysisError('Card.parse vanished')
    facts = {
        "10 -> T, commas dropped": any(isinstance(n, ast.Assign) and T.norm(n.value) in (
            T.spec("contents.replace('10', 'T').replace(',', '')"), T.spec("contents.replace(',', '').replace('10', 'T')")) for n in ast.walk(ps.node)),
        'white space separates': any(isinstance(n, ast.For) and T.norm(n.iter) == T.spec('contents.split()') for n in ast.walk(ps.node)),
        'odd length rejected': any(isinstance(n, ast.If) and T.cond(n.test) == T.spec('len(content) % 2 != 0', boolean=True) and any(isinstance(s, ast.Raise) for s in n.body)
                                   for n in ast.walk(ps.node)),
        'two-character steps': any(isinstance(n, ast.For) and T.norm(n.iter) == T.spec('range(0, len(content), 2)') for n in ast.walk(ps.node)),
        'rank then suit': any(isinstance(n, ast.Assign) and ast.unparse(n.targets[0]) == 'rank' and T.norm(n.value) == T.spec('Rank(content[i])') for n in ast.walk(ps.node))
        and any(isinstance(n, ast.Assign) and ast.unparse(n.targets[0]) == 'suit' and T.norm(n.value) == T.spec('Suit(content[i + 1])') for n in ast.walk(ps.node)),
        'card from (rank, suit)': any(isinstance(n, ast.Yield) and T.norm(n.value) == T.spec('cls(rank, suit)') for n in ast.walk(ps.node)),
    }
    missing = [k for k, v in facts.items() if not v]
    chk.ob('C19.card_text', 'Card.parse', not missing, ps.loc,
           'text is read as rank then suit in two-character steps after "10" -> "T"; commas and white space are ignored; a dangling character is an error',
           got=f'missing: {missing}' if missing else 'ok')
    cl = card.methods.get('clean')
    chain = isinstance_chain(cl, 'values')
    kinds = [k for k, _ in chain]
    chk.ob('C19.clean', 'Card.clean:dispatch', kinds == ['Card', 'str', 'Iterable', 'else'], cl.loc,
           'a card, a text (tested before the generic iterable - a str is iterable), any iterable of cards; anything else is an error', got=kinds)
    if kinds == ['Card', 'str', 'Iterable', 'else']:
        arms = dict(chain)
        ok = any(isinstance(n, ast.Assign) and T.norm(n.value) == T.spec('(values,)') for n in arms['Card'].body) \
            and any(isinstance(n, ast.Assign) and T.norm(n.value) == T.spec('tuple(Card.parse(values))') for n in arms['str'].body) \
            and any(isinstance(n, ast.Assign) and T.norm(n.value) == T.spec('tuple(values)') for n in arms['Iterable'].body) \
            and any(isinstance(n, ast.Raise) and 'ValueError' in ast.unparse(n) for n in arms['else'])
        chk.ob('C19.clean', 'Card.clean:arms', ok, cl.loc, 'each form is turned into the tuple of the cards it denotes')
    # --------------------------------------------------------------- validation
    want = [
        ('no streets', 'not self.streets'),
        ('first street deals no hole cards', 'not self.streets[0].hole_dealing_statuses'),
        ('negative ante or bring-in', 'min(self.antes) < 0 or self.bring_in < 0'),
        ('no forced bet at all', 'not any(self.antes) and not any(self.blinds_or_straddles) and not self.bring_in'),
        ('non-positive starting stack', 'min(self.starting_stacks) <= 0'),
        ('blinds or straddles together with a bring-in', 'any(self.blinds_or_straddles) and self.bring_in'),
        ('bring-in not below the first bet', 'self.bring_in >= self.streets[0].min_completion_betting_or_raising_amount'),
        ('fewer than two players', 'self.player_count < 2'),
        ('non-positive board count', 'self.starting_board_count <= 0'),
    ]
    got = []
    for p in ctx.paths(pi):
        if p.raised and p.outcome[1] == 'ValueError':
            got.append(unversion(p.conds()[-1]))
    gk = {T.key(g) for g in got}
    for label, src in want:
        w = T.spec(src, boolean=True)
        chk.ob('C19.validation', f'State.__post_init__:{label}', T.key(w) in gk, pi.loc,
               f'an invalid layout is rejected at construction: {label}', got=[T.show(g) for g in got if T.self_attrs(g) & T.self_attrs(w)][:2], want=src)
    extra = [g for g in got if T.key(g) not in {T.key(T.spec(s, boolean=True)) for _, s in want}]
    chk.ob('C19.validation', 'State.__post_init__:no_other_rejections', not extra, pi.loc,
           'nothing else is rejected (negative blinds are late posts and are legal)', got=[T.show(e) for e in extra])
    chk.floor('C19.validation', 10)
    # ----------------------------------------------------------------- helpers
    from .c01 import _helpers
    _helpers(_Rename(chk), ctx)
    pv = mi.functions.get('parse_value')
    ok = pv is not None and any(isinstance(n, ast.Try) and 'int(raw_value)' in ast.unparse(n.body) and any('Decimal(raw_value)' in ast.unparse(h) for h in n.handlers)
                                 for n in ast.walk(pv.node)) and any(T.norm(n.value) == T.spec("raw_value.replace(',', '')") for n in ast.walk(pv.node) if isinstance(n, ast.Assign))
    chk.ob('C19.values', 'utilities.parse_value', ok, pv.loc if pv else 'pokerkit/utilities.py',
           'chip text is an int when it can be, otherwise an exact Decimal; thousands separators are ignored')
    sg = mi.functions.get('sign')
    rets = {}
    if sg is not None:
        for p in ctx.paths(sg):
            if p.returned:
                rets[T.show(p.conds()[-1]) if p.conds() else ''] = p.outcome[1]
    chk.ob('C19.values', 'utilities.sign', sorted(v[1] for v in rets.values() if v[0] == 'num') == [-1, 0, 1], sg.loc if sg else 'pokerkit/utilities.py',
           'sign() distinguishes positive, negative and zero amounts (late posts are negative blinds)')


class _Rename:
    """re-files the shared helper obligations under C19"""

    def __init__(self, chk):
        self.chk = chk

    def ob(self, rule, *a, **k):
        return self.chk.ob(rule.replace('C01.', 'C19.'), *a, **k)

    def floor(self, rule, n):
        return self.chk.floor(rule.replace('C01.', 'C19.'), n)

    def __getattr__(self, name):
        return getattr(self.chk, name)
