"""C13 - the right player opens each betting round.

Decided statically: the match over the opening rules is exhaustive; the term
assigned to the opener in each arm against the rule table (position with signed
blinds, low / high up-card with suit tie-break and the right ace convention,
best / lowest exposed hand with earliest seat on ties); the category tables of
the two opening lookups; the heads-up reversal applied alike to antes and
blinds; removal of players who cannot act; when the bring-in is due.
Not decided: concrete up-card assignments.
"""
from __future__ import annotations

import ast

from .. import terms as T
from ..evalstatic import EnumMember, SEval
from ..model import AnalysisError, walk_no_nested
from ..paths import unversion
from ..phases import conjuncts

PI = ('self', 'player_indices')


def run(chk, ctx) -> None:
    from .helpers import sign_helper
    sign_helper(chk, ctx, 'C13.helpers')
    from . import c11
    from .helpers import StreetColumn
    c11.run(StreetColumn(chk, 'C13.variants', 'openings', 4,
                         'who opens each street of the variant: position in button and draw games; in stud the lowest up-card (highest in razz) on '
                         'the first street and the best exposed hand (lowest in razz) afterwards'), ctx)
    chk.floor('C13.variants', 12)
    fi = ctx.sfi('_begin_betting')
    sev = SEval(ctx.prog)
    members = set(sev.enum_members('Opening'))
    from .c08 import exhaustive_default_raises
    chk.ob('C13.exhaustive', 'State._begin_betting', bool(exhaustive_default_raises(ctx.prog, fi)), fi.loc,
           'the match over the opening rule covers every member of Opening', got=sorted(members))
    # which rank order each opening lookup uses
    lo = sev.class_attr('_LowHandOpeningLookup', 'rank_order')
    hi = sev.class_attr('_HighHandOpeningLookup', 'rank_order')
    chk.ob('C13.lookups', 'opening lookups', isinstance(lo, EnumMember) and lo.name == 'REGULAR' and isinstance(hi, EnumMember) and hi.name == 'STANDARD',
           ctx.prog.cls('_LowHandOpeningLookup').loc,
           'the low-hand opening lookup ranks ace low (REGULAR), the high-hand one ace high (STANDARD); category tables are checked under C04',
           got=(lo, hi))
    from .helpers import extremum_helpers, sign_helper
    extremum_helpers(chk, ctx, 'C13.helpers')
    sign_helper(chk, ctx, 'C13.helpers')
    HIGH_ORDER = T.spec('_HighHandOpeningLookup.rank_order')
    LOW_ORDER = T.spec('_LowHandOpeningLookup.rank_order')
    key = lambda order: ('call', 'partial', (('localfn', 'card_key'), order), ())  # noqa
    ups = lambda f, order: T.spec(f'[{f}(self.get_up_cards(i), key=K) for i in self.player_indices]', {'K': key(order)})  # noqa

    def by_card(f, order):
        lst = ups(f, order)
        return ('mcall', lst, 'index', (('call', f, (lst, key(order)), ()),), ())       # (key= is read as the second positional parameter)

    def by_hand(f, lookup):
        lst = T.spec(f'[self.{lookup}.get_entry_or_none(self.get_up_cards(i)) for i in self.player_indices]')
        return ('mcall', lst, 'index', (('call', f, (lst,), ()),), ())
    pos = T.spec('(max(self.player_indices, key=lambda i: (self.bets[i] * sign(self.blinds_or_straddles[i]), i)) + 1) % self.player_count')
    want = {
        'POSITION': pos,
        'LOW_CARD': by_card('min_or_none', HIGH_ORDER),
        'HIGH_CARD': by_card('max_or_none', LOW_ORDER),
        'LOW_HAND': by_hand('min_or_none', '_State__low_hand_opening_lookup'),
        'HIGH_HAND': by_hand('max_or_none', '_State__high_hand_opening_lookup'),
    }
    got = {}
    for p in ctx.paths(fi):
        if p.raised:
            continue
        arm = None
        for c in p.conds():
            for x in conjuncts(unversion(c)):
                if x[0] == 'eq':
                    for side in x[1]:
                        if side[0] == 'attr' and side[1] == ('name', 'Opening'):
                            arm = side[2]
        ws = [unversion(e.value) for e in p.writes() if e.term == ('self', 'opener_index') and e.op == 'set']
        if arm and ws:
            got[arm] = _unmangle(ws[-1])
    want = {k: _unmangle(v) for k, v in want.items()}
    for arm in sorted(want):
        chk.ob('C13.table', f'State._begin_betting:{arm}', got.get(arm) == want[arm], fi.loc,
               {'POSITION': 'button games: first to act is the seat after the largest forced bet that counts (late posts, given as negative blinds, do not; highest seat on ties)',
                'LOW_CARD': 'stud first street: lowest up-card, ace high, suits break ties; earliest seat on exact ties',
                'HIGH_CARD': 'razz first street: highest up-card, ace low, suits break ties',
                'LOW_HAND': 'razz later streets: lowest exposed hand, earliest seat on ties',
                'HIGH_HAND': 'stud later streets: best exposed hand, earliest seat on ties'}[arm],
               got=T.show(got[arm])[:260] if arm in got else None, want=T.show(want[arm])[:260])
    chk.floor('C13.table', 5)
    # the local key function: (rank position in the given order, suit)
    ck = [n for n in walk_no_nested(fi.node) if False]
    nested = [n for n in fi.node.body if isinstance(n, ast.FunctionDef) and n.name == 'card_key']
    ok = False
    if nested:
        rets = [n for n in ast.walk(nested[0]) if isinstance(n, ast.Return)]
        ok = len(rets) == 1 and T.norm(rets[0].value) == T.spec('(rank_order.index(card.rank), card.suit)') \
            and [a.arg for a in nested[0].args.args] == ['rank_order', 'card']
    chk.ob('C13.table', 'State._begin_betting:card_key', ok, fi.loc,
           'up-cards are compared by (position of the rank in the rank order, suit): suits break ties c < d < h < s')
    suits = list(sev.enum_members('Suit'))
    vals = [m.value for m in sev.enum_members('Suit').values()]
    chk.ob('C13.table', 'Suit:order', vals[:4] == ['c', 'd', 'h', 's'], ctx.prog.cls('Suit').loc,
           'suit values compare c < d < h < s (string order of the values)', got=vals)
    # ---- heads-up reversal in both accessors
    for name, attr in (('get_effective_ante', 'antes'), ('get_effective_blind_or_straddle', 'blinds_or_straddles')):
        f = ctx.sfi(name)
        two = T.spec('self.player_count == 2', boolean=True)
        rev = norm_ok = False
        for p in ctx.paths(f):
            if not p.returned:
                continue
            cs = [unversion(c) for c in p.conds()]
            r = unversion(p.outcome[1])
            has = lambda idx: T.mentions(r, lambda s: s == ('sub', ('self', attr), idx))  # noqa
            if two in cs:
                rev = has(T.spec('not player_index', boolean=True))
            elif T.mk_not(two) in cs:
                norm_ok = has(('name', 'player_index'))
        chk.ob('C13.heads_up', f'State.{name}', rev and norm_ok, f.loc,
               'heads-up the button posts the small blind: the forced-bet layout is read reversed for exactly two players, in both accessors alike',
               got=f'reversed when 2 players: {rev}; straight otherwise: {norm_ok}')
    # ---- bring-in due
    ok = False
    for p in ctx.paths(fi):
        for e in p.writes():
            if e.term == ('self', 'bring_in_status') and e.op == 'set':
                ok = unversion(e.value) == T.spec('self.street is self.streets[0] and self.bring_in > 0', boolean=True)
    chk.ob('C13.bring_in', 'State._begin_betting', ok, fi.loc, 'the opener owes the bring-in on the first street of a game that has one')
    # ---- prune: same clause as C03.S10 (players who cannot act pass the turn clockwise)
    i = ('elem', PI)
    drop = T.spec('not self.statuses[i] or not self.stacks[i] or not self.get_effective_stack(i)', {'i': i}, boolean=True)
    ok = False
    for p in ctx.paths(fi):
        cs = [unversion(c) for c in p.conds()]
        for e in p.writes():
            if T.root_self_attr(e.term) == 'actor_indices' and e.op == 'call:remove' and drop in cs:
                ok = True
    rot = any(e.op == 'call:rotate' and unversion(e.value) == ('tuple', (T.neg(('self', 'opener_index')),)) for p in ctx.paths(fi) for e in p.writes())
    chk.ob('C13.prune', 'State._begin_betting', ok and rot, fi.loc,
           'the queue starts at the designated opener; an opener who is out, all-in or uncallable is dropped, so the turn passes clockwise')


def _unmangle(t):
    """``self.__x`` inside class State is stored as written; name mangling is irrelevant for comparison"""
    def f(x):
        if isinstance(x, tuple) and len(x) == 2 and x[0] == 'self' and isinstance(x[1], str):
            return ('self', x[1].replace('_State__', '__'))
        if isinstance(x, tuple):
            return tuple(f(y) for y in x)
        return x
    return f(t)
