"""Rules added after the generic mutation audit (tools/mutaudit.py) showed code no rule was reading.
Each function files its obligations under the property that depends on the construct."""
from __future__ import annotations

import ast

from .helpers import Every  # noqa: E402

from .. import terms as T
from ..model import AnalysisError, self_attr, stmt_text, walk_no_nested
from ..paths import unversion
from ..phases import conjuncts

PI = ('self', 'player_indices')
I = ('elem', PI)

FLAG_OPS = {
    # operation: (verifier, helper, indices property, flag list)
    'post_ante': ('verify_ante_posting', '_verify_ante_posting', 'ante_poster_indices', 'ante_posting_statuses'),
    'post_blind_or_straddle': ('verify_blind_or_straddle_posting', '_verify_blind_or_straddle_posting', 'blind_or_straddle_poster_indices', 'blind_or_straddle_posting_statuses'),
    'select_runout_count': ('verify_runout_count_selection', '_verify_runout_count_selection', 'runout_count_selector_indices', 'runout_count_selector_statuses'),
    'kill_hand': ('verify_hand_killing', '_verify_hand_killing', 'hand_killing_indices', 'hand_killing_statuses'),
    'pull_chips': ('verify_chips_pulling', '_verify_chips_pulling', 'chips_pulling_indices', 'chips_pulling_statuses'),
}


# ----------------------------------------------------------------------- C01
def initial_ledger(chk, ctx) -> None:
    fi = ctx.sfi('_setup')
    want = {'stacks': T.spec('self.starting_stacks[i]', {'i': I}), 'bets': T.num(0), 'payoffs': T.num(0)}
    got = {}
    for p in ctx.paths(fi):
        for e in p.writes():
            r = T.root_self_attr(e.term)
            if r in want and e.op == 'call:append' and unversion(e.term) == ('self', r):
                got[r] = unversion(e.value[1][0])
    chk.ob('C01.initial', 'State._setup', got == want, fi.loc,
           'every player starts with his starting stack behind, nothing in front and a payoff of zero (one entry per player)',
           got={k: T.show(v) for k, v in got.items()}, want={k: T.show(v) for k, v in want.items()})


def pots_resets(chk, ctx) -> None:
    from .c01 import pots_roles
    fi, roles = pots_roles(ctx)
    A = roles.get('amount')
    consts = [n.value.value for n in walk_no_nested(fi.node) if isinstance(n, ast.Assign) and isinstance(n.targets[0], ast.Name)
              and n.targets[0].id == A and isinstance(n.value, ast.Constant)]
    other = [n for n in walk_no_nested(fi.node) if isinstance(n, ast.Assign) and isinstance(n.targets[0], ast.Name)
             and n.targets[0].id == A and not isinstance(n.value, ast.Constant)]
    chk.ob('C01.pots', 'State.pots:amount_resets', bool(consts) and all(c == 0 for c in consts) and not other, fi.loc,
           'the running pot amount starts at 0 and is reset to 0 after each level (no chip is invented or carried into the next pot)', got=consts)
    # the level loop ends by remembering the level and clearing the amount
    loops = [n for n in walk_no_nested(fi.node) if isinstance(n, ast.For) and isinstance(n.target, ast.Name)
             and ctx.m.eq(T.norm(n.iter), f'sorted(set({roles.get("contrib")}))')]
    ok = False
    if loops:
        lv = loops[0].target.id
        tail = loops[0].body[-2:]
        ok = any(isinstance(s, ast.Assign) and isinstance(s.value, ast.Name) and s.value.id == lv for s in tail) \
            and any(isinstance(s, ast.Assign) and isinstance(s.targets[0], ast.Name) and s.targets[0].id == A and isinstance(s.value, ast.Constant) and s.value.value == 0 for s in tail)
        prev0 = [n for n in walk_no_nested(fi.node) if isinstance(n, ast.Assign) and isinstance(n.targets[0], ast.Name) and isinstance(n.value, ast.Constant)
                 and any(isinstance(s, ast.Assign) and isinstance(s.value, ast.Name) and s.value.id == lv and s.targets[0].id == n.targets[0].id for s in tail if isinstance(s.targets[0], ast.Name))]
        ok = ok and bool(prev0) and all(n.value.value == 0 for n in prev0)
    chk.ob('C01.pots', 'State.pots:level_bookkeeping', ok, fi.loc,
           'each level is measured from the previous one (starting from 0) and the previous level is updated at the end of every round of the loop')
    none = T.spec('self._pots is not None', boolean=True)
    ok_f = False
    ok_f = Every()
    for p in ctx.paths(fi, max_paths=200000):
        ys = [e for e in p.events if e.kind == 'yield']
        cs = [unversion(c) for c in p.conds()]
        if none in cs:
            ok_f.see(bool(ys) and unversion(ys[0].term) == ('self', '_pots') and ys[0].op == 'from' and p.returned)
            break
    chk.ob('C01.pots', 'State.pots:frozen', ok_f, fi.loc, 'once pushing has begun the frozen pots are reported, not recomputed')


def collect_conditions(chk, ctx) -> None:
    fi = ctx.sfi('collect_bets')
    trim = T.spec('self.street is not None or self.ante_trimming_status', boolean=True)
    lone = T.spec('sum(self.statuses) == 1', boolean=True)
    ok_trim = ok_lone = True
    n_ref = n_lone = 0
    for p in ctx.paths(fi):
        if p.raised:
            continue
        cs = [unversion(c) for c in p.conds()]
        refunded = any(T.root_self_attr(e.term) == 'stacks' for e in p.writes())
        if refunded:
            n_ref += 1
            ok_trim &= trim in cs
        if T.mk_not(trim) in cs:
            ok_trim &= not refunded
        if lone in cs:
            n_lone += 1
            # the survivor's own bet is not collected: it is removed from the players whose bets are zeroed
            removes = [e for e in p.events if e.kind == 'call' and e.term[0] == 'mcall' and e.term[2] == 'remove'
                       and unversion(e.term[3][0]) == T.spec('self.statuses.index(True)')]
            ok_lone &= bool(removes)
    chk.ob('C01.collect', 'State.collect_bets:when_refunded', ok_trim and n_ref > 0, fi.loc,
           'the uncalled part is returned on every betting street, and for antes only when ante trimming is on', want=T.show(trim))
    chk.ob('C01.collect', 'State.collect_bets:lone_survivor', ok_lone and n_lone > 0, fi.loc,
           'when one player is left his own bet stays in front of him (it is his to pull back), only the others\' bets are collected')


# ----------------------------------------------------------------------- C06
def initial_deck(chk, ctx) -> None:
    fi = ctx.sfi('_setup')
    ok = False
    ok = Every()
    for p in ctx.paths(fi):
        ws = [(e.op, unversion(e.value)) for e in p.writes() if T.root_self_attr(e.term) == 'deck_cards']
        ok.see(ws[:2] == [('call:extend', ('tuple', (('self', 'deck'),))), ('call:shuffle', ())])
    chk.ob('C06.initial', 'State._setup', ok, fi.loc, 'the deck starts as exactly the cards of the configured deck, shuffled; every other card place starts empty')


# ----------------------------------------------------------------------- C07
def begin_flags(chk, ctx) -> None:
    table = {
        '_begin_ante_posting': ('ante_posting_statuses', 'self.get_effective_ante(i) > 0', True),
        '_begin_blind_or_straddle_posting': ('blind_or_straddle_posting_statuses', 'self.get_effective_blind_or_straddle(i) > 0', True),
        '_begin_bet_collection': ('bet_collection_status', 'any(self.bets)', False),
    }
    for name, (attr, src, per_player) in table.items():
        fi = ctx.sfi(name)
        want = T.spec(src, {'i': I}, boolean=True)
        got = None
        for p in ctx.paths(fi):
            for e in p.writes():
                if T.root_self_attr(e.term) == attr:
                    got = (unversion(e.term), T.truthy(unversion(e.value)))
        tgt = ('sub', ('self', attr), I) if per_player else ('self', attr)
        chk.ob('C07.begin_flags', f'State.{name}', got == (tgt, want), fi.loc,
               'the phase is pending for exactly the players / exactly when there is something to do', got=T.show(got[1]) if got else None, want=src)


END_GUARDS = {
    'ante_posting': 'not any(self.ante_posting_statuses)',
    'bet_collection': 'not self.bet_collection_status',
    'blind_or_straddle_posting': 'not any(self.blind_or_straddle_posting_statuses)',
    'dealing': 'not self.card_burning_status and not any(self.hole_dealing_statuses) and not any(self.board_dealing_counts) and not any(self.standing_pat_or_discarding_statuses)',
    'showdown': 'not any(self.runout_count_selector_statuses) and not self.showdown_indices',
    'hand_killing': 'not any(self.hand_killing_statuses)',
    'chips_pushing': 'not self._sub_pots',
    'chips_pulling': 'not any(self.chips_pulling_statuses)',
}


def end_guards(chk, ctx) -> None:
    for ph, src in END_GUARDS.items():
        fi = ctx.sfi(f'_update_{ph}')
        want = T.spec(src, boolean=True)
        ended = kept = 0
        ok = True
        for p in ctx.paths(fi):
            cs = set()
            for c in p.conds():
                cs |= set(conjuncts(unversion(c)))
            calls_end = [k for k, e in enumerate(p.events) if e.kind == 'call' and e.value == ('self', f'_end_{ph}')]
            if calls_end:
                ended += 1
                before = set()
                for x in p.events[:calls_end[0]]:
                    if x.kind == 'assume':
                        before |= set(conjuncts(unversion(x.term)))
                ok &= all(c in before for c in conjuncts(want))
            else:
                # conditions established at the head of the step (before anything happened on the path)
                head = set()
                firsts = [x for x in p.events if x.kind == 'assume']
                if ph == 'showdown':
                    firsts = [x for x in firsts if unversion(x.term) != T.spec('self.street is not None', boolean=True)]
                if firsts:      # the first test of the step (later tests on the same path may contradict it: paths are not pruned)
                    head = set(conjuncts(unversion(firsts[0].term)))
                if all(c in head for c in conjuncts(want)) and not (ph == 'showdown' and T.spec('self.street is None', boolean=True) in head):
                    ok = False      # nothing pending and yet the phase is not ended
                kept += 1
        chk.ob('C07.end_guard', f'State._update_{ph}', ok and ended > 0, fi.loc,
               'the phase is ended exactly when nothing of it is pending any more', want=src)


def setup_flags(chk, ctx) -> None:
    table = {
        '_setup_ante_posting': {'ante_posting_statuses': ('const', False)},
        '_setup_blind_or_straddle_posting': {'blind_or_straddle_posting_statuses': ('const', False)},
        '_setup_showdown': {'runout_count_selector_statuses': ('const', False)},
        '_setup_hand_killing': {'hand_killing_statuses': ('const', False)},
        '_setup_chips_pulling': {'chips_pulling_statuses': ('const', False)},
        '_setup_dealing': {'hole_dealing_statuses': T.spec('deque()'), 'standing_pat_or_discarding_statuses': ('const', False), 'board_dealing_counts': T.num(0)},
    }
    for name, want in table.items():
        fi = ctx.sfi(name)
        got = {}
        loops = {}
        for p in ctx.paths(fi):
            for e in p.writes():
                r = T.root_self_attr(e.term)
                if e.op == 'call:append':
                    got[r] = unversion(e.value[1][0])
            its = [unversion(e.term) for e in p.events if e.kind == 'loop' and e.op == 'enter']
            for it in its:
                loops[T.show(it)] = True
        per = set(loops) <= {'range(self.player_count)', 'range(self.starting_board_count)', 'self.player_indices'} and bool(loops)
        chk.ob('C07.setup', f'State.{name}', got == want and per, fi.loc,
               'before the hand starts nothing is pending: one cleared flag (empty queue, zero count) per player / per starting board',
               got={k: T.show(v) for k, v in got.items()})


# ----------------------------------------------------------------------- C03
def all_in_rule(chk, ctx) -> None:
    fi = ctx.sfi('_end_betting')
    i = I
    live_more = T.spec('sum(self.statuses) > 1', boolean=True)
    no_draw = T.spec('not any(islice(self.draw_statuses, self.street_index + 1, None))', boolean=True)
    counted = T.spec('self.statuses[i] and self.stacks[i]', {'i': i}, boolean=True)
    last = T.spec('not all(self.stacks) and self.street_index == len(self.streets) - 1', boolean=True)
    facts = dict.fromkeys(['counts live players with chips', 'all-in when at most one of them', 'only with two or more live players and no draw to come',
                           'a player without chips on the last street', 'not otherwise'], False)
    facts['not otherwise'] = True
    for p in ctx.paths(fi):
        cs = set()
        for c in p.conds():
            cs |= set(conjuncts(unversion(c)))
        sets = [e for e in p.writes() if T.root_self_attr(e.term) == 'all_in_status']
        if any(e.value != ('const', True) for e in sets):
            facts['not otherwise'] = False
        # which reasons hold on this path
        cnt = unversion(p.env.get('count', ('num', 0))) if 'count' in p.env else None
        by_count = [c for c in cs if c[0] == 'le' and c[2] == T.num(1)]
        reason_count = bool(by_count) and all(x in cs for x in conjuncts(live_more)) and all(x in cs for x in conjuncts(no_draw))
        reason_last = all(x in cs for x in conjuncts(last))
        if sets and not (reason_count or reason_last):
            facts['not otherwise'] = False
        if reason_count and sets:
            facts['all-in when at most one of them'] = True
            facts['only with two or more live players and no draw to come'] = True
        if reason_last and sets:
            facts['a player without chips on the last street'] = True
        if (reason_count or reason_last) and not sets:
            facts['not otherwise'] = False
        for e in p.events:
            if e.kind == 'assume' and unversion(e.term) == counted:
                facts['counts live players with chips'] = True
    # the decisions are taken under exactly these conditions (nothing more: a further conjunct - "somebody acted", say - would leave a
    # hand that is all-in from the forced bets alone undetected)
    wanted = {frozenset(conjuncts(T.mk_bool('and', [live_more, no_draw]))), frozenset(conjuncts(last)),
              frozenset(by for by in [T.spec('count <= 1', boolean=True)])}
    gates = set()
    for n in walk_no_nested(fi.node):
        if isinstance(n, ast.If) and any(isinstance(x, (ast.Assign, ast.AugAssign, ast.For)) for st in n.body for x in ast.walk(st)
                                         if not isinstance(x, ast.For) or True):
            if any(self_attr(t) == 'all_in_status' for st in n.body for x in ast.walk(st) if isinstance(x, ast.Assign) for t in x.targets):
                gates.add(frozenset(conjuncts(T.cond(n.test))))
    facts['decided under exactly the stated conditions'] = bool(gates) and all(
        g in wanted or any(g == frozenset(c for c in w) for w in wanted) or (len(g) == 1 and next(iter(g))[0] == 'le') for g in gates) \
        and frozenset(conjuncts(T.mk_bool('and', [live_more, no_draw]))) in gates
    # the counter: starts at 0, += 1 per counted player
    inits = [n for n in walk_no_nested(fi.node) if isinstance(n, ast.Assign) and isinstance(n.value, ast.Constant) and n.value.value == 0]
    incs = [n for n in walk_no_nested(fi.node) if isinstance(n, ast.AugAssign) and isinstance(n.op, ast.Add) and isinstance(n.value, ast.Constant) and n.value.value == 1]
    ok_counter = len(inits) == 1 and len(incs) == 1 and isinstance(inits[0].targets[0], ast.Name) and isinstance(incs[0].target, ast.Name) \
        and inits[0].targets[0].id == incs[0].target.id
    missing = [k for k, v in facts.items() if not v] + ([] if ok_counter else ['counter starts at 0 and grows by 1'])
    chk.ob('C03.all_in', 'State._end_betting', not missing, fi.loc,
           'the hand is all-in when at most one live player still has chips (with at least two live players and no draw to come), '
           'or when somebody has no chips left on the last street; and not otherwise', got=f'missing: {missing}' if missing else 'ok')
    ai = ctx.sfi('actor_index')
    ok = False
    ok = Every()
    for p in ctx.paths(ai):
        if p.returned and p.outcome[1] == ('const', None):
            ok.see(T.spec('not self.actor_indices', boolean=True) in [unversion(c) for c in p.conds()])
    chk.ob('C03.actor', 'State.actor_index:none', ok, ai.loc, 'there is no actor exactly when the queue of players to act is empty')


# ----------------------------------------------------------------------- C08
def flag_verifiers(chk, ctx, availability_only=False) -> None:
    """availability_only (C07): only "refused exactly when the player's flag is not set / nothing is pending" is judged -
    how an absent index is recognised and which player is returned are C08's clauses"""
    ms = ctx.state.methods
    for op, (v, h, idx, flags) in FLAG_OPS.items():
        vf, hf, xf = ms.get(v), ms.get(h), ms.get(idx)
        if not (vf and hf and xf):
            raise AnalysisError(f'flag-indexed operation {op}: verifier chain vanished')
        P = ('name', 'player_index')
        dflt = ('call', 'next', (('self', idx),), ())
        ok_first = bool(vf.body) and isinstance(vf.body[0], ast.Expr) and isinstance(vf.body[0].value, ast.Call) and self_attr(vf.body[0].value.func) == h
        ok_ref = ok_ret = True
        n_ref = n_ret = 0
        for p in ctx.paths(vf):
            cs = [unversion(c) for c in p.conds()]
            who = dflt if T.cmp('Is', P, ('const', None)) in cs else P
            if availability_only and T.mk_not(T.truthy(P)) in cs:
                who = dflt
            flag = T.truthy(('sub', ('self', flags), who))
            if p.raised:
                if cs and T.mentions(cs[-1], lambda s: s == ('name', 'runout_count')):
                    continue    # the count check (C14)
                n_ref += 1
                ok_ref &= p.outcome[1] == 'ValueError' and cs and cs[-1] == T.mk_not(flag)
            elif p.returned:
                n_ret += 1
                ok_ret &= unversion(p.outcome[1]) == who and flag in cs
        hg = [unversion(p.conds()[-1]) for p in ctx.paths(hf) if p.raised and p.conds()]
        ok_h = hg == [T.spec(f'not any(self.{flags})', boolean=True)]
        ys = []
        for p in ctx.paths(xf):
            for e in p.events:
                if e.kind == 'yield':
                    k = p.events.index(e)
                    before = [unversion(x.term) for x in p.events[:k] if x.kind == 'assume']
                    ys.append((unversion(e.term), T.truthy(('sub', ('self', flags), I)) in before))
        ok_x = bool(ys) and all(t == I and g for t, g in ys)
        if availability_only:
            ok_ret = ok_x = True
        chk.ob('C08.flag_verifiers', f'State.{v}', ok_first and ok_ref and ok_ret and ok_h and ok_x and n_ref >= 1 and n_ret >= 2, vf.loc,
               'a per-player step is accepted for exactly the players whose flag is set (default: the first of them), refused when nothing is pending, '
               'and the verified player is returned',
               got=f'phase check first: {ok_first}; refusal = flag not set: {ok_ref}; returns the flagged player: {ok_ret}; '
                   f'nothing pending refused: {ok_h}; indices = flagged players in seat order: {ok_x}')


# ------------------------------------------------------------------- C10/C14
def board_rows(chk, ctx, rule) -> None:
    fi = ctx.sfi('deal_board')
    cards = T.spec('self.verify_board_dealing(cards)')
    base = T.spec('self.streets[E].board_dealing_count + max(self.street.board_dealing_count - self.board_dealing_count, 0)',
                  {'E': ('elem', T.spec('range(self.street_index)'))})
    base0 = T.spec('max(self.street.board_dealing_count - self.board_dealing_count, 0)')
    ok_row = ok_new = ok_step = False
    for p in ctx.paths(fi):
        if not p.returned:
            continue
        for e in p.writes():
            t = unversion(e.term)
            if T.root_self_attr(t) == 'board_cards' and e.op == 'call:append' and unversion(e.value) == ('tuple', (('elem', cards),)) and t[0] == 'sub':
                ok_row |= t[2] in (base, base0)
                cs = [unversion(c) for c in p.conds()]
                # a new row is opened exactly when the row index equals the number of rows
                ok_new |= any(c[0] == 'eq' and ('call', 'len', (('self', 'board_cards'),), ()) in c[1] for c in cs) or \
                    any(c[0] == 'ne' and ('call', 'len', (('self', 'board_cards'),), ()) in c[1] for c in cs)
    incs = [n for n in walk_no_nested(fi.node) if isinstance(n, ast.For) and any(
        isinstance(s, ast.AugAssign) and isinstance(s.op, ast.Add) and isinstance(s.value, ast.Constant) and s.value.value == 1 for s in n.body)]
    ok_step = len(incs) == 1
    chk.ob(rule, 'State.deal_board:rows', ok_row and ok_new and ok_step, fi.loc,
           'the first card goes to row (board cards of earlier streets + cards of this street already dealt to the board), each further card one row on; '
           'a row is opened exactly when the index reaches the number of rows',
           got=f'row term: {ok_row}; new row when index == len(board_cards): {ok_new}; one step per card: {ok_step}')
    gb = ctx.sfi('get_board_cards')
    cmps = [T.cond(n.test) for n in walk_no_nested(gb.node) if isinstance(n, ast.If) and 'len(' in ast.unparse(n.test)]
    ok = len(cmps) == 2 and all(c[0] == 'lt' and c[2][0] == 'call' and c[2][1] == 'len' for c in cmps)
    mids = [n for n in walk_no_nested(gb.node) if isinstance(n, ast.Assign) and isinstance(n.value, ast.Constant) and isinstance(n.value.value, int)]
    chk.ob(rule, 'State.get_board_cards:bounds', ok and all(n.value.value == 0 for n in mids) and len(mids) == 1, gb.loc,
           'a row contributes its card for the board only if it has one for it (index < len(row)); shared rows are counted from 0')


def _none_of_value(c) -> bool:
    def never_none(t):
        return t[0] in ('concat', 'repeat', 'tuple', 'list', 'num', 'lin') or (t[0] == 'call' and t[1] in ('tuple', 'list', 'len')) \
            or (t[0] == 'mcall' and t[2] == 'clean')
    if c[0] == 'is' and ('const', None) in c[1]:
        other = [y for y in c[1] if y != ('const', None)]
        return len(other) == 1 and never_none(other[0])
    return False


def showing_components(chk, ctx) -> None:
    fi = ctx.sfi('verify_hole_cards_showing_or_mucking')
    isbool = T.spec('isinstance(status_or_hole_cards, bool)', boolean=True)
    none = T.spec('status_or_hole_cards is None', boolean=True)
    ok_show = ok_muck = True
    n_show = n_muck = 0
    for p in ctx.paths(fi):
        if not p.returned:
            continue
        cs = [unversion(c) for c in p.conds(flat=True)]
        explicit = T.mk_not(isbool) in cs and T.mk_not(none) in cs
        if explicit:
            continue
        r = unversion(p.outcome[1])
        if r[0] != 'tuple' or len(r[1]) != 5:
            ok_show = False
            continue
        status, cards, hole, stat, who = r[1]
        held = ('call', 'tuple', (('sub', ('self', 'hole_cards'), who),), ())
        if T.truthy(status) in cs:
            n_show += 1
            ok_show &= cards == held and hole == held and stat == ('repeat', ('tuple', (('const', True),)), ('call', 'len', (held,), ()))
        elif T.mk_not(T.truthy(status)) in cs:
            n_muck += 1
            ok_muck &= cards == ('tuple', ()) and hole == ('tuple', ()) and stat == ('tuple', ())
    chk.ob('C12.show_all', f'State.{fi.name}', ok_show and ok_muck and n_show > 0 and n_muck > 0, fi.loc,
           'showing without naming cards tables the whole hand (all cards, all face up); mucking tables nothing',
           got=f'show paths ok: {ok_show} ({n_show}); muck paths ok: {ok_muck} ({n_muck})')
    # naming the cards to show: exactly the named (known) cards are face up; cards the engine fills in from the hand stay face down
    n_exp = 0
    ok_flags = True
    why = ''
    for p in ctx.paths(fi):
        if not p.returned:
            continue
        cs = [unversion(c) for c in p.conds(flat=True)]
        if not (T.mk_not(isbool) in cs and T.mk_not(none) in cs) or ('const', False) in cs:
            continue          # (a constant-false assumption: the path is infeasible)
        def never_none(t):
            return t[0] in ('concat', 'repeat', 'tuple', 'list', 'num', 'lin') or (t[0] == 'call' and t[1] in ('tuple', 'list', 'len')) \
                or (t[0] == 'mcall' and t[2] == 'clean')

        def is_none_of_value(c):
            if c[0] == 'is' and ('const', None) in c[1]:
                other = [y for y in c[1] if y != ('const', None)]
                return len(other) == 1 and never_none(other[0])
            return False
        if any(is_none_of_value(c) or (c[0] == 'or' and all(is_none_of_value(d) for d in c[1])) for c in cs):
            continue          # "a freshly built tuple is None" cannot hold: the path is infeasible
        r = unversion(p.outcome[1])
        if r[0] != 'tuple' or len(r[1]) != 5:
            ok_flags = False
            continue
        stat = r[1][3]
        n_exp += 1
        good = stat[0] == 'concat' and len(stat) == 3 and stat[1][0] == 'repeat' and stat[1][1] == ('tuple', (('const', True),)) \
            and stat[2][0] == 'repeat' and stat[2][1] == ('tuple', (('const', False),))
        if good:
            n_up = stat[1][2]          # how many flags are True
            shown = T.show(n_up)
            good = n_up[0] == 'call' and n_up[1] == 'len' and 'status_or_hole_cards' in shown and 'filterfalse' not in shown \
                and (shown.startswith('len(tuple(filter(None, ') or shown.startswith("len(tuple(comp('gen'"))
        if not good:
            ok_flags = False
            why = T.show(stat)[:160]
    # the cards reported as shown are the named ones (padded with unknowns to the size of the hand), never the filled-in hand: the
    # tournament rule "all cards must be shown" and the record of the operation read them
    ok_cards = True
    n_cards = 0
    why_c = ''
    for p in ctx.paths(fi):
        if not p.returned:
            continue
        cs = [unversion(c) for c in p.conds(flat=True)]
        if not (T.mk_not(isbool) in cs and T.mk_not(none) in cs) or ('const', False) in cs:
            continue
        r = unversion(p.outcome[1])
        if r[0] != 'tuple' or len(r[1]) != 5:
            continue
        cards, who = r[1][1], r[1][4]
        if any(_none_of_value(c) or (c[0] == 'or' and all(_none_of_value(d) for d in c[1])) for c in cs):
            continue          # "a freshly built tuple is None" cannot hold: the path is infeasible
        n_cards += 1
        named = T.spec('Card.clean(status_or_hole_cards)')
        want_c = ('concat', named, ('repeat', ('tuple', (T.spec('Card.UNKNOWN'),)), T.spec('len(H) - len(N)', {'H': ('sub', ('self', 'hole_cards'), who), 'N': named})))
        if cards != want_c:
            ok_cards = False
            why_c = T.show(cards)[:200]
    chk.ob('C12.show_flags', f'State.{fi.name}:cards', ok_cards and n_cards > 0, fi.loc,
           'the cards an explicit show reports are the cards that were named, padded with unknown cards to the size of the hand',
           got=why_c or f'{n_cards} explicit path(s)')
    chk.ob('C12.show_flags', f'State.{fi.name}', ok_flags and n_exp > 0, fi.loc,
           'when the cards to show are named, exactly those cards are marked face up; the rest of the hand (known to the engine or not) stays face down '
           'and takes no part in the showdown', got=why or f'{n_exp} explicit path(s)')
    guards = []
    for p in ctx.paths(fi):
        if p.raised and p.outcome[1] == 'ValueError' and p.conds():
            guards.append(unversion(p.conds()[-1]))
    gs = {T.show(g) for g in guards}
    need = {
        'more cards shown than held': any('len(' in g and 'Card.clean(status_or_hole_cards)' in g for g in gs),
        'player not in the hand': any(g.startswith('not self.statuses[') or g.startswith('self.statuses[') and '== 0' in g for g in gs) or
        any(T.mk_not(T.truthy(('sub', ('self', 'statuses'), ('name', 'player_index')))) == g for g in guards) or
        any(g[0] == 'not' and g[1][0] == 'sub' and g[1][1] == ('self', 'statuses') for g in guards),
        'not his turn to show': any('not in self.showdown_indices' in g for g in gs),
    }
    missing = [k for k, v in need.items() if not v]
    chk.ob('C12.show_refusals', f'State.{fi.name}', not missing, fi.loc,
           'a show is refused for a player who is out, who is not due to show, or who names more cards than he holds', got=f'missing: {missing}' if missing else 'ok')
    hand_observers(chk, ctx, 'C12.hand_source', names=('get_hand',))


def hand_observers(chk, ctx, rule, names=('get_hand', 'get_up_hand')) -> None:
    """the two places where the engine evaluates a hand hand the evaluator the right cards: the player's known hole cards (his own hand)
    or his face-up cards (the hand the others see), and the cards of the asked board, with the asked hand type"""
    for name, cards, what in (('get_hand', 'filter(None, self.hole_cards[player_index])', "a player's own hand is made from his known hole cards and the asked board"),
                              ('get_up_hand', 'self.get_up_cards(player_index)', "a showdown hand is made from the player's shown cards and the asked board")):
        if name not in names:
            continue
        f = ctx.sfi(name)
        want = T.spec(f'self.hand_types[hand_type_index].from_game({cards}, self.get_board_cards(board_index))')
        got = [unversion(c.term) for p in ctx.paths(f) for c in p.calls() if c.term[0] == 'mcall' and c.term[2] == 'from_game']
        # ... and that evaluation (or None: player out of the hand, no hand can be formed) is all the function ever answers
        rets = [unversion(p.outcome[1]) for p in ctx.paths(f) if p.returned]
        other = [r for r in rets if r != ('const', None) and r != want]
        chk.ob(rule, f'State.{name}', bool(got) and all(g == want for g in got) and not other and want in rets, f.loc,
               what + ', with the asked hand type; that evaluation or None is the only answer',
               got=T.show(other[0]) if other else (T.show(got[0]) if got else None), want=T.show(want))


def handover_last(chk, ctx, rule) -> None:
    """a phase step (_begin_X / _end_X) has applied everything it has to apply when it hands over to the next step: the cascade that
    runs from there (automated operations, possibly to the end of the hand) sees the finished state, and nothing is written over
    what the cascade did once it returns"""
    ms = ctx.state.methods
    for name, fi in sorted(ms.items()):
        if not name.startswith(('_begin_', '_end_')):
            continue
        bad = None
        n = 0
        for p in ctx.paths(fi):
            if p.raised:
                continue
            ks = [k for k, e in enumerate(p.events) if e.kind == 'call' and e.value[0] == 'self' and e.value[1].startswith(('_begin_', '_end_', '_update_'))]
            if not ks:
                continue
            n += 1
            late = [e for e in p.events[ks[0] + 1:] if e.kind == 'write']
            if late:
                bad = late[0]
        if n:
            chk.ob(rule, f'State.{name}:handover_last', bad is None, ctx.loc(fi, bad.node) if bad is not None else fi.loc,
                   'nothing is written after the step has handed over to the next one (the automated cascade runs inside that call)',
                   got=stmt_text(bad.node, 80) if bad is not None else f'{n} path(s)')


def records_inert(chk, ctx, rule) -> None:
    """an operation builds its record after it has changed the state: constructing a record must not be able to fail or to do anything -
    the record classes are plain frozen dataclasses without constructor hooks or validation of their own"""
    prog = ctx.prog
    hooks = {'__post_init__', '__init__', '__new__', '__setattr__', '__init_subclass__', '__getattribute__'}
    bad = []
    classes = [prog.cls('Operation')] + prog.subclasses('Operation')
    for ci in classes:
        for h in sorted(hooks & set(ci.methods)):
            bad.append((ci, h))
    chk.analysed['operation_records'] = [c.name for c in classes]
    chk.ob(rule, 'Operation:records_inert', not bad and len(classes) >= 10, bad[0][0].methods[bad[0][1]].loc if bad else prog.cls('Operation').loc,
           'operation records are plain data: no constructor hook or validation that could refuse a record after the state has changed',
           got=[f'{c.name}.{h}' for c, h in bad[:3]] or f'{len(classes)} record classes')
