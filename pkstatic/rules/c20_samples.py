"""Sample log lines per site and pattern (public formats of the sites), with the captures the generic driver needs.
A pattern that no longer matches its sample lines drops or mis-reads every such line of every hand of the site."""

SAMPLES = {
 'PokerStarsParser': {
  'VARIANT': [("PokerStars Game #27738502010:  Hold'em No Limit ($0.50/$1.00) - 2009/05/02 13:32:38 ET", {'variant': "Hold'em No Limit"})],
  'FINAL_SEAT': [("Table 'Sabauda IX' 6-max Seat #3 is the button", {'final_seat': '3'})],
  'SEATS': [("Seat 1: player one ($100 in chips)", {'seat': '1', 'player': 'player one'})],
  'STARTING_STACKS': [("Seat 1: player one ($100.50 in chips)", {'player': 'player one', 'starting_stack': '100.50'})],
  'BLIND_OR_STRADDLE_POSTING': [("player one: posts small blind $0.50", {'player': 'player one', 'blind_or_straddle': '0.50'}), ("p2: posts big blind $1", {'player': 'p2', 'blind_or_straddle': '1'})],
  'HOLE_DEALING': [("Dealt to player one [Ah Kd]", {'player': 'player one', 'cards': 'Ah Kd'})],
  'BOARD_DEALING': [("*** FLOP *** [2c 3d 4h]", {'cards': '2c 3d 4h'}), ("*** TURN *** [2c 3d 4h] [5s]", {'cards': '5s'}), ("*** RIVER *** [2c 3d 4h 5s] [6s]", {'cards': '6s'})],
  'FOLDING': [("player one: folds", {'player': 'player one'})],
  'CHECKING_OR_CALLING': [("player one: checks", {'player': 'player one'}), ("p2: calls $0.50", {'player': 'p2'})],
  'COMPLETION_BETTING_OR_RAISING': [("player one: bets $2", {'player': 'player one', 'amount': '2'}), ("p2: raises $4 to $6", {'player': 'p2', 'amount': '4'}), ("p3: raises $44 to $50 and is all-in", {'player': 'p3', 'amount': '44'})],
  'HOLE_CARDS_SHOWING': [("player one: shows [Ah Kd] (a pair of Aces)", {'player': 'player one', 'cards': 'Ah Kd'})],
 },
 'FullTiltPokerParser': {
  'VARIANT': [("Full Tilt Poker Game #12345678: Table Foo (6 max) - $0.50/$1 - No Limit Hold'em - 12:00:00 ET - 2009/07/01", {'variant': "No Limit Hold'em"})],
  'FINAL_SEAT': [("The button is in seat #3", {'final_seat': '3'})],
  'SEATS': [("Seat 1: player one ($100)", {'seat': '1', 'player': 'player one'})],
  'STARTING_STACKS': [("Seat 1: player one ($100.50)", {'player': 'player one', 'starting_stack': '100.50'})],
  'BLIND_OR_STRADDLE_POSTING': [("player one posts the small blind of $0.50", {'player': 'player one', 'blind_or_straddle': '0.50'}), ("p2 posts the big blind of $1", {'player': 'p2', 'blind_or_straddle': '1'})],
  'BOARD_DEALING': [("*** FLOP *** [2c 3d 4h]", {'cards': '2c 3d 4h'}), ("*** TURN *** [2c 3d 4h] [5s]", {'cards': '5s'})],
  'FOLDING': [("player one folds", {'player': 'player one'})],
  'CHECKING_OR_CALLING': [("player one checks", {'player': 'player one'}), ("p2 calls $0.50", {'player': 'p2'})],
  'COMPLETION_BETTING_OR_RAISING': [("player one bets $2", {'player': 'player one', 'amount': '2'}), ("p2 raises to $6", {'player': 'p2', 'amount': '6'})],
  'HOLE_CARDS_SHOWING': [("player one shows [Ah Kd] a pair of Aces", {'player': 'player one', 'cards': 'Ah Kd'})],
 },
 'PartyPokerParser': {
  'VARIANT': [("$100 USD NL Texas Hold'em - Sunday, July 01, 00:00:00 EDT 2009", {'variant': "NL Texas Hold'em"})],
  'FINAL_SEAT': [("Seat 3 is the button", {'final_seat': '3'})],
  'SEATS': [("Seat 1: player1 ( $100 USD )", {'seat': '1', 'player': 'player1'})],
  'STARTING_STACKS': [("Seat 1: player1 ( $100.50 USD )", {'player': 'player1', 'starting_stack': '100.50'})],
  'BLIND_OR_STRADDLE_POSTING': [("player1 posts small blind [$0.50 USD].", {'player': 'player1', 'blind_or_straddle': '0.50'}), ("p2 posts big blind [$1 USD].", {'player': 'p2', 'blind_or_straddle': '1'})],
  'BOARD_DEALING': [("** Dealing Flop ** [ 2c, 3d, 4h ]", {'cards': ' 2c, 3d, 4h '}), ("** Dealing Turn ** [ 5s ]", {'cards': ' 5s '})],
  'FOLDING': [("player1 folds", {'player': 'player1'})],
  'CHECKING_OR_CALLING': [("player1 checks", {'player': 'player1'}), ("p2 calls [$0.50 USD]", {'player': 'p2'})],
  'COMPLETION_BETTING_OR_RAISING': [("player1 bets [$2 USD]", {'player': 'player1', 'amount': '2'}), ("p2 raises [$4 USD]", {'player': 'p2', 'amount': '4'}), ("p3 is all-In  [$50 USD]", {'player': 'p3', 'amount': '50'})],
  'HOLE_CARDS_SHOWING': [("player1 shows [ Ah, Kd ] a pair of Aces.", {'player': 'player1', 'cards': ' Ah, Kd '})],
 },
 'AbsolutePokerParser': {
  'VARIANT': [("Stage #1234567890: Holdem  No Limit $1 - 2009-07-01 00:00:00 (ET)", {'variant': 'Holdem  No Limit'}), ("Stage #1234567890: Holdem (1 on 1)  No Limit $1 - 2009-07-01 00:00:00 (ET)", {'variant': 'Holdem (1 on 1)  No Limit'})],
  'FINAL_SEAT': [("Table: FOO (Real Money) Seat #3 is the dealer", {'final_seat': '3'}), ("Table: FOO (Real Money) Seat #3 is the dead dealer", {'final_seat': '3'})],
  'SEATS': [("Seat 1 - PLAYER1 ($100 in chips)", {'seat': '1', 'player': 'PLAYER1'})],
  'STARTING_STACKS': [("Seat 1 - PLAYER1 ($100.50 in chips)", {'player': 'PLAYER1', 'starting_stack': '100.50'})],
  'ANTE_POSTING': [("PLAYER1 - Ante $0.25", {'player': 'PLAYER1', 'ante': '0.25'})],
  'BLIND_OR_STRADDLE_POSTING': [("PLAYER1 - Posts small blind $0.50", {'player': 'PLAYER1', 'blind_or_straddle': '0.50'}), ("P2 - Posts big blind $1", {'player': 'P2', 'blind_or_straddle': '1'})],
  'BOARD_DEALING': [("*** FLOP *** [2c 3d 4h]", {'cards': '2c 3d 4h'}), ("*** TURN *** [2c 3d 4h] [5s]", {'cards': '5s'})],
  'FOLDING': [("PLAYER1 - Folds", {'player': 'PLAYER1'})],
  'CHECKING_OR_CALLING': [("PLAYER1 - Checks", {'player': 'PLAYER1'}), ("P2 - Calls $0.50", {'player': 'P2'})],
  'COMPLETION_BETTING_OR_RAISING': [("PLAYER1 - Bets $2", {'player': 'PLAYER1', 'amount': '2'}), ("P2 - Raises $4 to $6", {'player': 'P2', 'amount': '4'}), ("P3 - All-In(Raise) $44 to $50", {'player': 'P3', 'amount': '44'}), ("P4 - All-In $50", {'player': 'P4', 'amount': '50'})],
  'HOLE_CARDS_SHOWING': [("PLAYER1 - Shows [Ah Kd]", {'player': 'PLAYER1', 'cards': 'Ah Kd'})],
 },
 'OngameNetworkParser': {
  'VARIANT': [("Table: Foo [123] (NO_LIMIT TEXAS_HOLDEM $0.50/$1, Real money)", {'variant': 'NO_LIMIT TEXAS_HOLDEM'})],
  'FINAL_SEAT': [("Button: seat 3", {'final_seat': '3'})],
  'SEATS': [("Seat 1: player1 ($100) ", {'seat': '1', 'player': 'player1'})],
  'STARTING_STACKS': [("Seat 1: player1 ($100.50) ", {'player': 'player1', 'starting_stack': '100.50'})],
  'BLIND_OR_STRADDLE_POSTING': [("player1 posts small blind ($0.50)", {'player': 'player1', 'blind_or_straddle': '0.50'}), ("p2 posts big blind ($1)", {'player': 'p2', 'blind_or_straddle': '1'})],
  'BOARD_DEALING': [("--- Dealing flop [2c, 3d, 4h]", {'cards': '2c, 3d, 4h'}), ("--- Dealing turn [5s]", {'cards': '5s'})],
  'FOLDING': [("player1 folds", {'player': 'player1'})],
  'CHECKING_OR_CALLING': [("player1 checks", {'player': 'player1'}), ("p2 calls $0.50", {'player': 'p2'})],
  'COMPLETION_BETTING_OR_RAISING': [("player1 bets $2", {'player': 'player1', 'amount': '2'}), ("p2 raises $4 to $6", {'player': 'p2', 'amount': '4'})],
  'HOLE_CARDS_SHOWING': [("Seat 1: player1 ($120), net: +$20, [Ah, Kd] (PAIR ACE)", {'player': 'player1', 'cards': 'Ah, Kd'})],
 },
 'IPokerNetworkParser': {
  'FINAL_SEAT': [('<player seat="3" name="player1" chips="$100" dealer="1" win="$0" bet="$1"/>', {'final_seat': '3'})],
  'SEATS': [('<player seat="1" name="player1" chips="$100" dealer="0" win="$0" bet="$1"/>', {'seat': '1', 'player': 'player1'})],
  'STARTING_STACKS': [('<player seat="1" name="player1" chips="$100.50" dealer="0" win="$0" bet="$1"/>', {'player': 'player1', 'starting_stack': '100.50'})],
  'BLIND_OR_STRADDLE_POSTING': [('<action no="1" player="player1" type="1" sum="$0.50" cards="[cards]"/>', {'player': 'player1', 'blind_or_straddle': '0.50'}), ('<action no="2" player="p2" type="2" sum="$1" cards="[cards]"/>', {'player': 'p2', 'blind_or_straddle': '1'})],
  'FOLDING': [('<action no="3" player="player1" type="0" sum="$0" cards=""/>', {'player': 'player1'})],
  'CHECKING_OR_CALLING': [('<action no="4" player="player1" type="4" sum="$0" cards=""/>', {'player': 'player1'}), ('<action no="5" player="p2" type="3" sum="$0.50" cards=""/>', {'player': 'p2'})],
  'COMPLETION_BETTING_OR_RAISING': [('<action no="6" player="player1" type="5" sum="$2" cards=""/>', {'player': 'player1', 'amount': '2'}), ('<action no="7" player="p2" type="23" sum="$6" cards=""/>', {'player': 'p2', 'amount': '6'}), ('<action no="8" player="p3" type="6" sum="$4" cards=""/>', {'player': 'p3', 'amount': '4'})],
 },
}

# amounts written with thousands separators (the sites that write them capture [0-9.,]+)
THOUSANDS = {'FullTiltPokerParser': {'COMPLETION_BETTING_OR_RAISING': [('p2 raises to $1,200', {'player': 'p2', 'amount': '1,200'}), ('p2 bets $2,500.50', {'player': 'p2', 'amount': '2,500.50'})], 'BLIND_OR_STRADDLE_POSTING': [('p2 posts the big blind of $1,000', {'player': 'p2', 'blind_or_straddle': '1,000'})], 'STARTING_STACKS': [('Seat 1: player one ($12,345.50)', {'player': 'player one', 'starting_stack': '12,345.50'})]}, 'PartyPokerParser': {'COMPLETION_BETTING_OR_RAISING': [('p2 raises [$1,200 USD]', {'player': 'p2', 'amount': '1,200'}), ('p3 is all-In  [$2,500.50 USD]', {'player': 'p3', 'amount': '2,500.50'})], 'BLIND_OR_STRADDLE_POSTING': [('p2 posts big blind [$1,000 USD].', {'player': 'p2', 'blind_or_straddle': '1,000'})], 'STARTING_STACKS': [('Seat 1: player1 ( $12,345.50 USD )', {'player': 'player1', 'starting_stack': '12,345.50'})]}, 'AbsolutePokerParser': {'COMPLETION_BETTING_OR_RAISING': [('P2 - Raises $1,200 to $2,400', {'player': 'P2', 'amount': '1,200'}), ('P4 - All-In $2,500.50', {'player': 'P4', 'amount': '2,500.50'})], 'BLIND_OR_STRADDLE_POSTING': [('P2 - Posts big blind $1,000', {'player': 'P2', 'blind_or_straddle': '1,000'})], 'STARTING_STACKS': [('Seat 1 - PLAYER1 ($12,345.50 in chips)', {'player': 'PLAYER1', 'starting_stack': '12,345.50'})], 'ANTE_POSTING': [('PLAYER1 - Ante $1,000', {'player': 'PLAYER1', 'ante': '1,000'})]}, 'OngameNetworkParser': {'COMPLETION_BETTING_OR_RAISING': [('p2 raises $1,200 to $2,400', {'player': 'p2', 'amount': '1,200'}), ('player1 bets $2,500.50', {'player': 'player1', 'amount': '2,500.50'})], 'BLIND_OR_STRADDLE_POSTING': [('p2 posts big blind ($1,000)', {'player': 'p2', 'blind_or_straddle': '1,000'})], 'STARTING_STACKS': [('Seat 1: player1 ($12,345.50) ', {'player': 'player1', 'starting_stack': '12,345.50'})]}, 'IPokerNetworkParser': {'COMPLETION_BETTING_OR_RAISING': [('<action no="7" player="p2" type="23" sum="$1,200" cards=""/>', {'player': 'p2', 'amount': '1,200'})], 'BLIND_OR_STRADDLE_POSTING': [('<action no="2" player="p2" type="2" sum="$1,000" cards="[cards]"/>', {'player': 'p2', 'blind_or_straddle': '1,000'})], 'STARTING_STACKS': [('<player seat="1" name="player1" chips="$12,345.50" dealer="0" win="$0" bet="$1,000"/>', {'player': 'player1', 'starting_stack': '12,345.50'})]}}
for _c, _p in THOUSANDS.items():
    for _a, _s in _p.items():
        SAMPLES.setdefault(_c, {}).setdefault(_a, []).extend(_s)
