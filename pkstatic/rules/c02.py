"""C02 - every pot goes to the best eligible live hand(s).

Decided statically (eligibility dataflow): who is appended to a pot's eligible
set, that the winners of a sub-pot are drawn from exactly that set by equality
with the maximum over exactly that set, that the hand types a pot is split
over depend on the pot's own contenders, the lone-survivor arm, dead players
never hold a hand, and writer/reader agreement on the sub-pot records.
The two clauses C02 shares with other properties are decided by the same rule families, re-filed under C02 names:
"in the right amounts" is the pot arithmetic of C01 (C02.amounts) and "the strongest hand" is the best-of-combinations
search of C05 (C02.strongest).  Not decided: the order of two given hands (C04).
"""
from __future__ import annotations

import ast

from .helpers import Every  # noqa: E402

from .. import terms as T
from ..model import AnalysisError, self_attr, stmt_text, walk_no_nested
from ..paths import unversion


def run(chk, ctx) -> None:
    from .helpers import extremum_helpers
    extremum_helpers(chk, ctx, 'C02.helpers')
    _eligible(chk, ctx)
    _winners(chk, ctx)
    _types(chk, ctx)
    _lone(chk, ctx)
    _dead(chk, ctx)
    _records(chk, ctx)
    # "in the right amounts": the pot arithmetic is the one C01 decides (layers, merge, rake plumbing; quotient to every
    # winner / board / hand type and the odd chips to the first of them; what leaves a pot is what is pushed)
    from .c01 import _divmod, _mirror_transfer, _pots, chip_writers
    from .helpers import Refile
    re = Refile(chk, {'C01.pots': 'C02.amounts', 'C01.divmod': 'C02.amounts', 'C01.push': 'C02.amounts'})
    _pots(re, ctx)
    _divmod(re, ctx)
    _mirror_transfer(re, ctx, chip_writers(ctx))
    # ... and the division every variant is built with is the package's own (exact quotient, remainder by the smallest unit)
    from .helpers import default_helpers
    default_helpers(chk, ctx, 'C02.amounts', ['state', 'games', 'notation'])
    from .c01 import _helpers
    _helpers(Refile(chk, {'C01.helpers': 'C02.amounts'}, only=lambda r, c: c == 'utilities.divmod'), ctx)
    chk.floor('C02.amounts', 18)
    # "the strongest hand": the hand a player takes to the showdown is the one Hand.from_game forms (C05's search clauses)
    from . import c05
    from .helpers import foreign
    foreign(chk, c05.run, Refile(chk, {r: 'C02.strongest' for r in ('C05.exhaustive', 'C05.polarity', 'C05.source', 'C05.badugi', 'C05.errors',
                                                                    'C05.counts', 'C05.helpers', 'C05.none')}), ctx)
    from .c04 import _operators
    _operators(Refile(chk, {'C04.operators': 'C02.strongest'}, only=lambda r, c: c.startswith('Hand')), ctx)
    chk.floor('C02.strongest', 40)
    # only tabled cards take part in the showdown: the face-up flags of a partial show cover exactly the named cards
    from .cover import showing_components
    showing_components(Refile(chk, {'C12.show_flags': 'C02.hand_source'}), ctx)


def _eligible(chk, ctx) -> None:
    fi = ctx.sfi('pots')
    # the append that builds a pot's eligible set: the list later passed (as tuple) to Pot(...)
    pot_calls = [n for n in walk_no_nested(fi.node) if isinstance(n, ast.Call) and isinstance(n.func, ast.Name) and n.func.id == 'Pot']
    if len(pot_calls) != 1 or len(pot_calls[0].args) != 3:
        raise AnalysisError('State.pots no longer builds Pot(raked, unraked, players) once')
    names = {n.id for n in ast.walk(pot_calls[0].args[2]) if isinstance(n, ast.Name)} - {'tuple'}
    appends = [n for n in walk_no_nested(fi.node) if isinstance(n, ast.Call) and isinstance(n.func, ast.Attribute)
               and n.func.attr == 'append' and isinstance(n.func.value, ast.Name) and n.func.value.id in names]
    if not appends:
        raise AnalysisError('State.pots: no append to the eligible-player list')
    for a in appends:
        guards = _enclosing_tests(fi.node, a)
        conj = set()
        for g in guards:
            for c in _conj(T.cond(g)):
                conj.add(c)
        loop = _enclosing_for(fi.node, a)
        iv = loop.target.id if loop is not None and isinstance(loop.target, ast.Name) else 'i'
        who = T.norm(a.args[0]) if a.args else None
        want_live = T.spec(f'self.statuses[{iv}]', boolean=True)
        from .c01 import pots_roles
        _, roles = pots_roles(ctx)
        P = roles.get('pending')
        lvl = [c for c in conj if c[0] in ('le', 'lt') and T.mentions(c, lambda s: s == ('name', P))]
        lvl_loops = [n for n in walk_no_nested(fi.node) if isinstance(n, ast.For) and isinstance(n.target, ast.Name)
                     and ctx.m.eq(T.norm(n.iter), f'sorted(set({roles.get("contrib")}))') and any(x is a for x in ast.walk(n))]
        level_name = lvl_loops[0].target.id if lvl_loops else None
        ok_lvl = level_name is not None and any(c == T.spec(f'{P}[{iv}] >= {level_name}', boolean=True) for c in lvl)
        chk.ob('C02.eligible', 'State.pots:live', want_live in conj and who == ('name', iv), ctx.loc(fi, a),
               'a player is eligible for a pot only if he is still in the hand', got=[T.show(c) for c in conj], want=T.show(want_live))
        chk.ob('C02.eligible', 'State.pots:level', ok_lvl, ctx.loc(fi, a),
               'a player is eligible for a pot only if he paid at least up to its level (>=, not >)',
               got=[T.show(c) for c in lvl], want='pending[i] >= level')
        chk.ob('C02.eligible', 'State.pots:levels', bool(lvl_loops), ctx.loc(fi, lvl_loops[0]) if lvl_loops else fi.loc,
               'pots are layered over the distinct contribution levels in ascending order', want='for level in sorted(set(contributions))')
    # the eligibility level is adjusted exactly like the contribution (dead antes are nobody's level)
    from .c01 import pots_roles
    _, roles2 = pots_roles(ctx)
    adj = {roles2.get('contrib'): [], roles2.get('pending'): []}
    for n in walk_no_nested(fi.node):
        if isinstance(n, ast.AugAssign) and isinstance(n.target, ast.Subscript) and isinstance(n.target.value, ast.Name) and n.target.value.id in adj:
            adj[n.target.value.id].append((type(n.op).__name__, T.key(T.norm(n.target.slice)), T.key(T.norm(n.value)),
                                           tuple(sorted(T.key(T.cond(t)) for t in _enclosing_tests(fi.node, n)))))
    chk.ob('C02.eligible', 'State.pots:level_adjusted', sorted(adj[roles2.get('contrib')]) == sorted(adj[roles2.get('pending')]), fi.loc,
           "a player's eligibility level is reduced by whatever is taken out of his contribution (an untrimmed ante is dead money, it buys no side-pot level)",
           got={k: [(o, v) for o, _, v, _ in x] for k, x in adj.items()})
    antes = ctx.m.assigns(fi.node, 'self.get_effective_ante(i)')
    an = antes[0].targets[0].id if len(antes) == 1 and isinstance(antes[0].targets[0], ast.Name) else None
    ok_a = an is not None and any(isinstance(n, ast.AugAssign) and isinstance(n.op, ast.Sub) and isinstance(n.target, ast.Subscript)
                                  and isinstance(n.target.value, ast.Name) and n.target.value.id == roles2.get('pending')
                                  and isinstance(n.value, ast.Name) and n.value.id == an for n in walk_no_nested(fi.node))
    chk.ob('C02.eligible', 'State.pots:ante_amount', ok_a, fi.loc,
           'what is taken out of the eligibility level for an untrimmed ante is the ante the player actually posted '
           '(the effective ante: position-swapped heads-up, capped by the stack)')
    chk.floor('C02.eligible', 5)


def _conj(t):
    if t[0] == 'and':
        out = []
        for x in t[1]:
            out.extend(_conj(x))
        return out
    return [t]


def _enclosing_tests(fn, node):
    """tests of the if-statements whose *body* (true branch) contains node"""
    out = []

    def walk(stmts, acc):
        for st in stmts:
            if any(n is node for n in ast.walk(st)):
                if isinstance(st, ast.If):
                    if any(n is node for b in st.body for n in ast.walk(b)):
                        walk(st.body, acc + [st.test])
                    else:
                        walk(st.orelse, acc)
                elif isinstance(st, (ast.For, ast.While, ast.With, ast.Try)):
                    for fld in ('body', 'orelse', 'finalbody'):
                        walk(getattr(st, fld, []) or [], acc)
                    for h in getattr(st, 'handlers', []):
                        walk(h.body, acc)
                else:
                    out.extend(acc)
                return
    walk(fn.body, [])
    return out


def _enclosing_for(fn, node):
    best = None
    for n in ast.walk(fn):
        if isinstance(n, ast.For) and any(m is node for m in ast.walk(n)):
            best = n
    return best


def _winners(chk, ctx) -> None:
    fi = ctx.sfi('push_chips')
    pop = T.spec('self._sub_pots.pop(0)')
    pot = ('sub', ('self', '_pots'), ('proj', pop, 1))
    elig = ('attr', pot, 'player_indices')
    hands = T.spec('tuple(self.get_up_hands(B, H))', {'B': ('proj', pop, 2), 'H': ('proj', pop, 3)})
    max_forms = [
        T.spec('max_or_none(map(partial(getitem, HANDS), ELIG))', {'HANDS': hands, 'ELIG': elig}),
        T.spec('max_or_none(HANDS[i] for i in ELIG)', {'HANDS': hands, 'ELIG': elig}),
        T.spec('max_or_none([HANDS[i] for i in ELIG])', {'HANDS': hands, 'ELIG': elig}),
    ]
    found = False
    for p in ctx.paths(fi):
        if p.raised:
            continue
        for e in p.writes():
            if e.term[0] == 'sub' and e.term[1] == ('self', 'bets') and e.term[2][0] == 'elem':
                found = True
                winners = unversion(e.term[2][1])
                ok_src = ok_max = False
                ok_src = Every()
                ok_max = Every()
                got_max = None
                if winners[0] == 'comp' and len(winners[3]) == 1:
                    tgt, it, ifs = winners[3][0]
                    ok_src.see(it == elig and winners[2] == (tgt,))
                    if len(ifs) == 1 and ifs[0][0] == 'eq':
                        a, b = ifs[0][1]
                        hi = ('sub', hands, tgt)
                        other = b if a == hi else a if b == hi else None
                        got_max = other
                        ok_max.see(other in max_forms)
                chk.ob('C02.winners', 'State.push_chips:drawn_from_pot', ok_src, ctx.loc(fi, e.node),
                       "the players paid from a sub-pot are drawn from that pot's eligible players only",
                       got=T.show(winners)[:200], want=f'[i for i in {T.show(elig)} if ...]')
                chk.ob('C02.winners', 'State.push_chips:best_of_pot', ok_max, ctx.loc(fi, e.node),
                       "a winner is a player whose hand (this board, this hand type) equals the best hand among the pot's eligible players",
                       got=T.show(got_max)[:200] if got_max else None, want=T.show(max_forms[0])[:200])
                break
        if found:
            break
    if not found:
        chk.ob('C02.winners', 'State.push_chips', False, fi.loc, 'no per-winner payment loop found')
    chk.floor('C02.winners', 2)


def backward_slice(fn, seeds):
    """expressions the given local names may depend on inside ``fn`` (flow-insensitive backward slice over locals): values
    assigned / appended / extended to them, iterables their loop variables range over, and the tests and loop headers those
    statements are controlled by - transitively through every local mentioned on the way"""
    parents = {}
    for n in ast.walk(fn):
        for c in ast.iter_child_nodes(n):
            parents[id(c)] = n

    def controls(node):
        out = []
        cur = node
        while id(cur) in parents:
            par = parents[id(cur)]
            if isinstance(par, (ast.If, ast.While)) and cur is not par.test:
                out.append(par.test)
            if isinstance(par, ast.For) and cur is not par.iter:
                out.append(par.iter)
            if isinstance(par, ast.comprehension):
                out.append(par.iter)
                out.extend(par.ifs)
            if isinstance(par, (ast.ListComp, ast.SetComp, ast.GeneratorExp, ast.DictComp)):
                for g in par.generators:
                    out.append(g.iter)
                    out.extend(g.ifs)
            cur = par
        return out
    names = set(seeds)
    exprs = []
    seen_expr = set()
    changed = True
    while changed:
        changed = False
        for n in ast.walk(fn):
            deps = []
            if isinstance(n, (ast.Assign, ast.AnnAssign, ast.AugAssign)):
                tg = n.targets if isinstance(n, ast.Assign) else [n.target]
                hit = any(isinstance(x, ast.Name) and x.id in names for t in tg for x in ast.walk(t) if isinstance(getattr(x, 'ctx', None), ast.Store))
                if hit and n.value is not None:
                    deps = [n.value] + controls(n)
            elif isinstance(n, ast.Call) and isinstance(n.func, ast.Attribute) and isinstance(n.func.value, ast.Name) and n.func.value.id in names \
                    and n.func.attr in ('append', 'extend', 'add', 'insert', 'update', 'appendleft'):
                deps = list(n.args) + controls(n)
            elif isinstance(n, ast.For):
                if any(isinstance(x, ast.Name) and x.id in names for x in ast.walk(n.target)):
                    deps = [n.iter] + controls(n)
            elif isinstance(n, ast.comprehension):
                if any(isinstance(x, ast.Name) and x.id in names for x in ast.walk(n.target)):
                    deps = [n.iter] + list(n.ifs) + controls(n)
            for d in deps:
                if id(d) in seen_expr:
                    continue
                seen_expr.add(id(d))
                exprs.append(d)
                for x in ast.walk(d):
                    if isinstance(x, ast.Name) and isinstance(x.ctx, ast.Load) and x.id not in names and x.id not in ('self',):
                        names.add(x.id)
                        changed = True
    return exprs, names


def _types(chk, ctx) -> None:
    """the hand types a sub-pot is split over are data-dependent on the pot's eligible players (and on the board)"""
    fi = ctx.sfi('_begin_chips_pushing')
    fn = fi.node
    # the divisor of the hand-type split: self.divmod(<per-board amount>, len(L)) - L is the list of hand types in play
    lname = site = None
    for n in walk_no_nested(fn):
        if isinstance(n, ast.Call) and self_attr(n.func) == 'divmod' and len(n.args) == 2:
            d = n.args[1]
            if isinstance(d, ast.Name):
                defs = [a for a in walk_no_nested(fn) if isinstance(a, ast.Assign) and isinstance(a.targets[0], ast.Name) and a.targets[0].id == d.id]
                d = defs[0].value if len(defs) == 1 else d
            if isinstance(d, ast.Call) and isinstance(d.func, ast.Name) and d.func.id == 'len' and len(d.args) == 1 and isinstance(d.args[0], ast.Name):
                lname, site = d.args[0].id, n
    if lname is None:
        raise AnalysisError('_begin_chips_pushing: list of hand types in play not found')
    exprs, names = backward_slice(fn, {lname})
    # the pot whose sub-pots are queued: the loop variable bound from self._pots
    pot_vars = set()
    for n in walk_no_nested(fn):
        if isinstance(n, ast.For) and 'self._pots' in ast.unparse(n.iter):
            pot_vars |= {x.id for x in ast.walk(n.target) if isinstance(x, ast.Name)}
    dep_pot = any(isinstance(x, ast.Attribute) and x.attr == 'player_indices' and isinstance(x.value, ast.Name) and x.value.id in pot_vars
                  for e in exprs for x in ast.walk(e))
    tests_none = any(isinstance(x, ast.Compare) and any(isinstance(o, (ast.IsNot, ast.Is)) for o in x.ops)
                     and any(isinstance(c, ast.Constant) and c.value is None for c in x.comparators) for e in exprs for x in ast.walk(e))
    chk.ob('C02.types_depend_on_pot', 'State._begin_chips_pushing', dep_pot and tests_none, ctx.loc(fi, site),
           "a hand type takes part in the split of a (side) pot only if one of THAT pot's eligible players holds a hand of the type "
           "(two pots with different contenders must be able to split differently)",
           got='the list of hand types in play depends on: ' + ', '.join(sorted(n for n in names if n != lname))[:200],
           want='a dependence on <pot>.player_indices through an `is not None` test of a hand')
    chk.floor('C02.types_depend_on_pot', 1)
    board_vars = set()
    for n in walk_no_nested(fn):
        if isinstance(n, ast.For) and ctx.m.eq(T.norm(n.iter), 'self.board_indices') and any(x is site for x in ast.walk(n)):
            board_vars |= {x.id for x in ast.walk(n.target) if isinstance(x, ast.Name)}
    dep_board = bool(board_vars) and any(isinstance(x, ast.Name) and x.id in board_vars for e in exprs for x in ast.walk(e))
    chk.ob('C02.types_depend_on_board', 'State._begin_chips_pushing', dep_board, fi.loc,
           'whether a hand type takes part in the split is decided per board, on the hands of the very board the sub-pot is queued for',
           got=f'board variable(s) {sorted(board_vars)} in the slice: {dep_board}')


def _feeds_divisor(fi, lname) -> bool:
    for n in walk_no_nested(fi.node):
        if isinstance(n, ast.Call) and self_attr(n.func) == 'divmod' and len(n.args) == 2:
            d = n.args[1]
            src = ast.unparse(d)
            if f'len({lname})' in src:
                return True
            if isinstance(d, ast.Name):
                for m in walk_no_nested(fi.node):
                    if isinstance(m, ast.Assign) and isinstance(m.targets[0], ast.Name) and m.targets[0].id == d.id \
                            and f'len({lname})' in ast.unparse(m.value):
                        return True
    return False


def _lone(chk, ctx) -> None:
    one = T.spec('sum(self.statuses) == 1', boolean=True)
    fi = ctx.sfi('_begin_chips_pushing')
    ok = False
    for p in ctx.paths(fi):
        conds = [unversion(c) for c in p.conds()]
        if one not in conds:
            continue
        q = [e for e in p.writes() if T.root_self_attr(e.term) == '_sub_pots' and e.op == 'call:append']
        loops = [e for e in p.events if e.kind == 'loop' and e.op == 'enter']
        if q and len(q) == 1 and len(loops) == 1:
            rec = unversion(q[0].value[1][0])
            ok = rec[0] == 'tuple' and rec[1][0][0] == 'attr' and rec[1][0][2] == 'unraked_amount' \
                and rec[1][2] == ('const', None) and rec[1][3] == ('const', None)
    chk.ob('C02.lone', 'State._begin_chips_pushing', ok, fi.loc,
           'with one player left every pot is queued whole, once, without board or hand type')
    fi = ctx.sfi('push_chips')
    ok = False
    got = None
    for p in ctx.paths(fi):
        conds = [unversion(c) for c in p.conds()]
        if one not in conds or p.raised:
            continue
        bw = [e for e in p.writes() if T.root_self_attr(e.term) == 'bets']
        if len(bw) == 1:
            got = unversion(bw[0].term[2])
            ok = got == T.spec('self.statuses.index(True)')
    chk.ob('C02.lone', 'State.push_chips', ok, fi.loc,
           'the lone survivor - the one live player - is paid every pot, also side pots he did not reach',
           got=T.show(got) if got else None, want='self.statuses.index(True)')
    chk.floor('C02.lone', 2)


def _dead(chk, ctx) -> None:
    ms = ctx.state.methods
    fi = ctx.sfi('_muck_hole_cards')
    ok = True
    n = 0
    for p in ctx.paths(fi):
        if p.raised:
            continue
        n += 1
        ws = [e for e in p.writes() if e.term == ('sub', ('self', 'statuses'), ('name', 'player_index'))]
        ok &= len(ws) == 1 and ws[0].value == ('const', False)
    chk.ob('C02.dead', 'State._muck_hole_cards', ok and n > 0, fi.loc, 'mucking marks the player as out of the hand on every path')
    for op in ('fold', 'kill_hand'):
        f = ctx.sfi(op)
        ok = all(any(c.value == ('self', '_muck_hole_cards') for c in p.calls()) for p in ctx.paths(f) if p.returned)
        chk.ob('C02.dead', f'State.{op}', ok, f.loc, f'{op} takes the player out of the hand (through _muck_hole_cards)')
    f = ctx.sfi('show_or_muck_hole_cards')
    ok = True
    for p in ctx.paths(f):
        if not p.returned:
            continue
        conds = [unversion(c) for c in p.conds()]
        st = ('proj', T.spec('self.verify_hole_cards_showing_or_mucking(status_or_hole_cards, player_index)'), 0)
        mucked = any(c.value == ('self', '_muck_hole_cards') for c in p.calls())
        if T.mk_not(T.truthy(st)) in conds:
            ok &= mucked
        elif T.truthy(st) in conds:
            ok &= not mucked
    chk.ob('C02.dead', 'State.show_or_muck_hole_cards', ok, f.loc, 'a player who mucks at showdown is out of the hand; one who shows is not')
    for g in ('get_hand', 'get_up_hand'):
        f = ctx.sfi(g)
        dead = T.spec('not self.statuses[player_index]', boolean=True)
        ok = True
        n = 0
        for p in ctx.paths(f):
            conds = [unversion(c) for c in p.conds()]
            if dead in conds:
                n += 1
                ok &= p.returned and p.outcome[1] == ('const', None) and not any(c.term[0] == 'mcall' and c.term[2] == 'from_game' for c in p.calls())
            elif p.returned and p.outcome[1] != ('const', None):
                ok &= T.mk_not(dead) in conds
        chk.ob('C02.dead', f'State.{g}', ok and n > 0, f.loc, 'a player who is out of the hand holds no hand (None, before any evaluation)')
    # hands are evaluated from the right cards
    from .cover import hand_observers
    hand_observers(chk, ctx, 'C02.hand_source', names=('get_up_hand',))
    f = ctx.sfi('get_up_hands')
    want = T.spec('self.get_up_hand(i, board_index, hand_type_index)', {'i': ('elem', ('self', 'player_indices'))})
    got = [unversion(e.term) for p in ctx.paths(f) for e in p.events if e.kind == 'yield']
    chk.ob('C02.hand_source', 'State.get_up_hands', bool(got) and all(g == want for g in got), f.loc,
           'hands are listed in seat order, one per player (index i of the list is player i)',
           got=T.show(got[0]) if got else None, want=T.show(want))
    chk.floor('C02.dead', 6)


def _records(chk, ctx) -> None:
    """writer/reader agreement on the (amount, pot, board, hand type) records"""
    fi = ctx.sfi('_begin_chips_pushing')
    shapes = set()
    for p in ctx.paths(fi):
        for e in p.writes():
            if T.root_self_attr(e.term) == '_sub_pots' and e.op == 'call:append' and e.value[1]:
                rec = unversion(e.value[1][0])
                if rec[0] == 'tuple' and len(rec[1]) == 4:
                    a, i, j, k = rec[1]
                    shapes.add((_role(i), _role(j), _role(k)))
    want = {('pot', 'none', 'none'), ('pot', 'board', 'type')}
    chk.ob('C02.records', 'State._begin_chips_pushing', shapes == want, fi.loc,
           'queued records are (amount, pot index, board index, hand type index) in that order', got=sorted(shapes), want=sorted(want))
    f = ctx.sfi('push_chips')
    pops = [n for n in walk_no_nested(f.node) if isinstance(n, ast.Call) and isinstance(n.func, ast.Attribute)
            and n.func.attr in ('pop', 'popleft') and self_attr(n.func.value) == '_sub_pots']
    fifo = len(pops) == 1 and ((pops[0].func.attr == 'pop' and len(pops[0].args) == 1 and isinstance(pops[0].args[0], ast.Constant) and pops[0].args[0].value == 0)
                               or pops[0].func.attr == 'popleft')
    chk.ob('C02.records', 'State.push_chips:fifo', fifo, ctx.loc(f, pops[0]) if pops else f.loc,
           'sub-pots are pushed in the order they were queued (first board / first hand type carry the odd chips)')
    pop = T.spec('self._sub_pots.pop(0)')
    uses = {'pot': False, 'hands': False}
    for p in ctx.paths(f):
        for c in p.calls():
            t = unversion(c.term)
            if t[0] == 'mcall' and t[2] == 'get_up_hands':
                uses['hands'] = t[3] == (('proj', pop, 2), ('proj', pop, 3))
        for e in p.writes():
            t = unversion(e.term)
            if t[0] == 'attr' and t[2] == 'unraked_amount':
                uses['pot'] = t[1] == ('sub', ('self', '_pots'), ('proj', pop, 1)) and unversion(e.value) == ('proj', pop, 0)
    chk.ob('C02.records', 'State.push_chips:fields', all(uses.values()), f.loc,
           'the record is read back in the order it was written: amount, pot, board, hand type', got=uses)
    op = [n for n in walk_no_nested(f.node) if isinstance(n, ast.Call) and isinstance(n.func, ast.Name) and n.func.id == 'ChipsPushing']
    chk.floor('C02.records', 3)


def _role(t):
    if t == ('const', None):
        return 'none'
    if t[0] == 'enumidx':
        return 'pot'
    if t[0] == 'elem' and t[1] == ('self', 'board_indices'):
        return 'board'
    if t[0] == 'elem':
        return 'type'
    return T.show(t)
