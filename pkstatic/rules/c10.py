"""C10 - dealing follows the street definitions.

Decided statically (flow table): each pending structure set up by
`_begin_dealing` flows from the matching Street attribute, for live players
only; the stud fallback; the guard sets of the burn / hole / board / draw
verifiers; the dealee order key; facings popped in order; draws re-queue the
facing of the discarded card; betting starts only from the end of dealing;
Street validation.
Not decided: counts on concrete histories.
"""
from __future__ import annotations

import ast

from .helpers import Every  # noqa: E402

from .. import terms as T
from ..model import AnalysisError, self_attr, walk_no_nested
from ..paths import unversion
from .c03 import raise_guards


def run(chk, ctx) -> None:
    _setup(chk, ctx)
    _verifiers(chk, ctx)
    _order(chk, ctx)
    _draw(chk, ctx)
    _facing(chk, ctx)
    _board(chk, ctx)
    _gate(chk, ctx)
    _street(chk, ctx)
    from .cover import board_rows
    board_rows(chk, ctx, 'C10.board')
    # "when the deck cannot cover a stud street": what can be dealt - asked without a count - is the deck plus the reshuffled reserve
    from .c06 import _engine_cards
    from .helpers import Refile
    from .helpers import foreign
    foreign(chk, _engine_cards, Refile(chk, {'C06.engine_cards': 'C10.setup'}, only=lambda r, c: c == 'State.get_dealable_cards'), ctx)


def _setup(chk, ctx) -> None:
    fi = ctx.sfi('_begin_dealing')
    i = ('elem', ('self', 'player_indices'))
    live = T.spec('self.statuses[i]', {'i': i}, boolean=True)
    short = T.spec('sum(map(len, self.hole_dealing_statuses)) > len(tuple(self.get_dealable_cards()))', boolean=True)
    facts = dict.fromkeys(['burn', 'boards', 'holes_live_only', 'draw_live_only', 'street_advance', 'fallback_boards', 'fallback_clears', 'no_fallback_keeps'], False)
    refuted = set()

    def upd(k, ok):
        # every write of the kind must be the prescribed one (a second, overriding write refutes the flow)
        if ok and k not in refuted:
            facts[k] = True
        elif not ok:
            refuted.add(k)
            facts[k] = False
    for p in ctx.paths(fi):
        if p.raised:
            continue
        cs = [unversion(c) for c in p.conds()]
        for e in p.writes():
            t, v = unversion(e.term), unversion(e.value)
            r = T.root_self_attr(t)
            k = p.events.index(e)
            cs_before = [unversion(x.term) for x in p.events[:k] if x.kind == 'assume']
            if r == 'card_burning_status' and e.op == 'set':
                upd('burn', v == T.spec('self.street.card_burning_status'))
            if r == 'board_dealing_counts' and e.op == 'set':
                upd('boards', v in (T.spec('[self.street.board_dealing_count] * self.starting_board_count'),
                                        T.spec('self.starting_board_count * [self.street.board_dealing_count]')))
            if r == 'hole_dealing_statuses' and e.op == 'call:extend':
                upd('holes_live_only', t == ('sub', ('self', 'hole_dealing_statuses'), i) and live in cs_before \
                    and v == ('tuple', (T.spec('self.street.hole_dealing_statuses'),)))
            if r == 'standing_pat_or_discarding_statuses' and e.op == 'set':
                upd('draw_live_only', t == ('sub', ('self', 'standing_pat_or_discarding_statuses'), i) and live in cs_before \
                    and v == T.spec('self.street.draw_status'))
            if r == 'board_dealing_counts' and e.op == '+=':
                upd('fallback_boards', short in cs_before and v == T.spec('len(self.street.hole_dealing_statuses)') \
                    and t[0] == 'sub' and t[2] == ('elem', T.spec('range(self.starting_board_count)')))
            if r == 'hole_dealing_statuses' and e.op == 'call:clear':
                upd('fallback_clears', short in cs_before and t == ('sub', ('self', 'hole_dealing_statuses'), i))
        if T.mk_not(short) in cs:
            facts['no_fallback_keeps'] |= not any(e.op in ('call:clear', '+=') and T.root_self_attr(e.term) in ('hole_dealing_statuses', 'board_dealing_counts') for e in p.writes())
        sets = [(e.op, unversion(e.value)) for e in p.writes() if T.root_self_attr(e.term) == 'street_index']
        none = T.spec('self.street_index is None', boolean=True)
        if none in cs:
            facts['street_advance'] = sets == [('set', T.num(0))]
        elif T.mk_not(none) in cs and sets != [('+=', T.num(1))]:
            facts['street_advance'] = False
    missing = [k for k, v in facts.items() if not v]
    chk.ob('C10.setup', 'State._begin_dealing', not missing, fi.loc,
           'the burn flag, the per-board count and - for live players only - the hole facings and the draw flag come from the street; '
           'when the deck cannot cover the hole cards of a stud street they are dealt as shared board cards instead (queues cleared)',
           got=f'missing: {missing}' if missing else 'all eight flows')


def _guard_set(ctx, name):
    return [last for exc, last, cs, p in raise_guards(ctx, name) if exc == 'ValueError']


def _verifiers(chk, ctx) -> None:
    spds = 'any(self.standing_pat_or_discarding_statuses)'
    table = {
        'verify_card_burning': ['not self.card_burning_status', spds, 'len(C) != 1'],
        '_verify_hole_dealing': ['self.card_burning_status', 'not any(self.hole_dealing_statuses)', spds],
        '_verify_board_dealing': ['self.card_burning_status', 'not any(self.board_dealing_counts)', spds],
        '_verify_standing_pat_or_discarding': [f'not {spds}'],
    }
    for name, ws in table.items():
        got = _guard_set(ctx, name)
        got = [_anon_cards(g) for g in got]
        want = [_anon_cards(T.spec(w, boolean=True)) for w in ws]
        chk.ob('C10.verifiers', f'State.{name}', {T.key(g) for g in got} == {T.key(w) for w in want}, ctx.sfi(name).loc,
               'refusal rules of the dealing step: burn needs a pending burn, no pending draw and exactly one card; hole/board dealing '
               'need the burn done, something pending and no pending draw', got=[T.show(g) for g in got], want=ws)
    # hole: right player, 1..pending cards
    fi = ctx.sfi('verify_hole_dealing')
    cards = T.spec('self._verify_cards_consumption(1 if cards is None else cards)')
    pend = lambda pi: ('sub', ('self', 'hole_dealing_statuses'), pi)  # noqa
    ok_player = ok_count = ok_default = False
    ok_default = Every()
    for exc, last, cs, p in raise_guards(ctx, 'verify_hole_dealing'):
        for pi in (('name', 'player_index'), ('self', 'hole_dealee_index')):
            if last == T.mk_not(T.truthy(pend(pi))):
                ok_player = True
            want_count = T.spec('len(C) not in range(1, len(Q) + 1)', {'C': cards, 'Q': pend(pi)}, boolean=True)
            if last == want_count or T.under(last, cs[:-1]) == T.under(want_count, cs[:-1]):
                ok_count = True         # (compared as they read under the assumptions of the path: a default may be filled in by a statement)
    for p in ctx.paths(fi):
        pcs = [unversion(c) for c in p.conds()]
        if p.returned and T.cmp('Is', ('name', 'player_index'), ('const', None)) in pcs:
            r = unversion(p.outcome[1])
            want_r = ('tuple', (cards, ('self', 'hole_dealee_index')))
            ok_default.see(r == want_r or T.under(r, pcs) == T.under(want_r, pcs))
    chk.ob('C10.verifiers', 'State.verify_hole_dealing', ok_player and ok_count and ok_default, fi.loc,
           'hole cards go to a player who is still owed cards, between 1 and as many as he is owed; by default one card to the next dealee',
           got=f'owed-player check: {ok_player}; 1..owed count check: {ok_count}; default (1 card, next dealee): {ok_default}')
    fi = ctx.sfi('verify_board_dealing')
    cards = T.spec('self._verify_cards_consumption(self.board_dealing_count if cards is None else cards)')
    want = T.spec('not 0 < len(C) <= self.board_dealing_count', {'C': cards}, boolean=True)
    got = _guard_set(ctx, 'verify_board_dealing')
    chk.ob('C10.verifiers', 'State.verify_board_dealing', got == [want], fi.loc,
           'board cards: between 1 and the number still owed to the board; by default all of them',
           got=[T.show(g) for g in got], want=T.show(want))
    bc = ctx.sfi('board_dealing_count')
    rets = {T.key(unversion(p.outcome[1])) for p in ctx.paths(bc) if p.returned}
    chk.ob('C10.verifiers', 'State.board_dealing_count', rets == {T.key(('const', None)), T.key(T.spec('next(filter(None, self.board_dealing_counts))'))}, bc.loc,
           'the pending board count is the first non-zero per-board count', got=sorted(rets))
    chk.floor('C10.verifiers', 7)


def _anon_cards(t):
    """the local holding the cleaned cards differs per verifier: compare modulo its definition"""
    def f(x):
        if isinstance(x, tuple) and x and x[0] == 'mcall' and x[2] == '_verify_cards_consumption':
            return ('name', 'C')
        if isinstance(x, tuple):
            return tuple(f(y) for y in x)
        return x
    return T.resort(f(t))


def _order(chk, ctx) -> None:
    fi = ctx.sfi('hole_dealee_index')
    stud = T.spec('self.street.hole_dealing_statuses', boolean=True)
    want_stud = T.spec('max(self.player_indices, key=lambda i: (len(self.hole_dealing_statuses[i]), -i))')
    want_draw = T.spec('next(filter(partial(getitem, self.hole_dealing_statuses), self.player_indices))')
    ok_s = ok_d = False
    ok_s = Every()
    ok_d = Every()
    got = []
    for p in ctx.paths(fi):
        if not p.returned or any(e.kind == 'exc' for e in p.events):
            continue
        cs = [unversion(c) for c in p.conds()]
        r = unversion(p.outcome[1])
        got.append(T.show(r))
        if stud in cs:
            ok_s.see(r == want_stud)
        elif T.mk_not(stud) in cs:
            ok_d.see(r == want_draw)
    chk.ob('C10.order', 'State.hole_dealee_index', ok_s and ok_d, fi.loc,
           'next dealee: the player owed the most cards, earliest seat first (one card per round in position order); '
           'after a draw the first player owed replacements', got=got, want=[T.show(want_stud), T.show(want_draw)])


def _draw(chk, ctx) -> None:
    fi = ctx.sfi('verify_standing_pat_or_discarding')
    d = ('self', 'stander_pat_or_discarder_index')
    cards = T.spec('Card.clean(cards)')
    incl = [
        T.spec('Counter(C) - Counter(self.hole_cards[D])', {'C': cards, 'D': d}, boolean=True),
        T.spec('not Counter(C) <= Counter(self.hole_cards[D])', {'C': cards, 'D': d}, boolean=True),
    ]
    got = _guard_set(ctx, 'verify_standing_pat_or_discarding')
    chk.ob('C10.draw', 'State.verify_standing_pat_or_discarding', len(got) == 1 and got[0] in incl, fi.loc,
           'a player may discard only cards he holds, each at most as often as he holds it',
           got=[T.show(g) for g in got], want=T.show(incl[0]))
    si = ctx.sfi('stander_pat_or_discarder_index')
    rets = [unversion(p.outcome[1]) for p in ctx.paths(si) if p.returned and not any(e.kind == 'exc' for e in p.events)]
    chk.ob('C10.draw', 'State.stander_pat_or_discarder_index', rets == [T.spec('self.standing_pat_or_discarding_statuses.index(True)')], si.loc,
           'draws are made in seat order: the first player who still has to stand pat or discard', got=[T.show(r) for r in rets])
    fi = ctx.sfi('stand_pat_or_discard')
    card = ('elem', T.spec('self.verify_standing_pat_or_discarding(cards)'))
    idx = T.spec('self.hole_cards[D].index(c)', {'D': d, 'c': card})
    facts = dict.fromkeys(['flag_cleared', 'requeue_own_facing', 'card_and_facing_removed_together'], False)
    for p in ctx.paths(fi):
        if not p.returned:
            continue
        ws = p.writes()
        for e in ws:
            t, v = unversion(e.term), unversion(e.value)
            if t == ('sub', ('self', 'standing_pat_or_discarding_statuses'), d) and e.op == 'set':
                facts['flag_cleared'] = v == ('const', False)
            if t == ('sub', ('self', 'hole_dealing_statuses'), d) and e.op == 'call:append':
                facts['requeue_own_facing'] = v == ('tuple', (('sub', ('sub', ('self', 'hole_card_statuses'), d), idx),))
        pops = [(unversion(e.term), unversion(e.value)) for e in ws if e.op == 'call:pop']
        if pops:
            facts['card_and_facing_removed_together'] = sorted(pops, key=T.key) == sorted([
                (('sub', ('self', 'hole_cards'), d), ('tuple', (idx,))),
                (('sub', ('self', 'hole_card_statuses'), d), ('tuple', (idx,)))], key=T.key)
    missing = [k for k, v in facts.items() if not v]
    chk.ob('C10.draw', 'State.stand_pat_or_discard', not missing, fi.loc,
           'each discarded card leaves the hand together with its facing, and one replacement with the same facing is queued; the draw flag is cleared',
           got=f'missing: {missing}' if missing else 'ok')
    chk.floor('C10.draw', 3)


def _facing(chk, ctx) -> None:
    fi = ctx.sfi('deal_hole')
    ver = T.spec('self.verify_hole_dealing(cards, player_index)')
    pi, cards = ('proj', ver, 1), ('proj', ver, 0)
    pop = T.spec('self.hole_dealing_statuses[P].popleft()', {'P': pi})
    ok = False
    ok = Every()
    for p in ctx.paths(fi):
        if not p.returned:
            continue
        ws = [(unversion(e.term), e.op, unversion(e.value)) for e in p.writes()]
        need = [
            (('sub', ('self', 'hole_cards'), pi), 'call:append', ('tuple', (('elem', cards),))),
            (('sub', ('self', 'hole_card_statuses'), pi), 'call:append', ('tuple', (pop,))),
        ]
        if any(e.kind == 'loop' and e.op == 'enter' for e in p.events):
            ok.see(all(n in ws for n in need) and sum(1 for w in ws if w[1] == 'call:popleft') == 1)
    chk.ob('C10.facing', 'State.deal_hole', ok, fi.loc,
           'each dealt card takes the next facing (up/down) of the street, in order, for the player it is dealt to')


def _board(chk, ctx) -> None:
    fi = ctx.sfi('deal_board')
    facts = dict.fromkeys(['row_of_first_pending_board', 'count_decreases_by_cards', 'cards_appended_in_order'], False)
    cards = T.spec('self.verify_board_dealing(cards)')
    for p in ctx.paths(fi):
        if not p.returned:
            continue
        for e in p.writes():
            t, v = unversion(e.term), unversion(e.value)
            if T.root_self_attr(t) == 'board_dealing_counts' and e.op == '-=':
                facts['count_decreases_by_cards'] = v == ('call', 'len', (cards,), ())
                facts['row_of_first_pending_board'] = t == ('sub', ('self', 'board_dealing_counts'),
                                                            T.spec('self.board_dealing_counts.index(self.board_dealing_count)'))
            if T.root_self_attr(t) == 'board_cards' and e.op == 'call:append' and v == ('tuple', (('elem', cards),)):
                facts['cards_appended_in_order'] = True
    missing = [k for k, v in facts.items() if not v]
    chk.ob('C10.board', 'State.deal_board', not missing, fi.loc,
           'board cards go to the first board still owed cards, whose count drops by the number dealt',
           got=f'missing: {missing}' if missing else 'ok')


def _gate(chk, ctx) -> None:
    eff = ctx.eff
    chk.ob('C10.gate', 'State._begin_betting', eff.callers('_begin_betting') == {'_end_dealing'}, ctx.sfi('_begin_betting').loc,
           'betting starts only from the end of dealing', got=sorted(eff.callers('_begin_betting')))
    up = ctx.sfi('_update_dealing')
    clear = T.spec('not self.card_burning_status and not any(self.hole_dealing_statuses) and not any(self.board_dealing_counts) '
                   'and not any(self.standing_pat_or_discarding_statuses)', boolean=True)
    from ..phases import conjuncts
    ok = True
    n = 0
    for p in ctx.paths(up):
        ends = [k for k, e in enumerate(p.events) if e.kind == 'call' and e.value == ('self', '_end_dealing')]
        for k in ends:
            n += 1
            have = {c for x in p.events[:k] if x.kind == 'assume' for c in conjuncts(unversion(x.term))}
            ok &= all(c in have for c in conjuncts(clear))
    chk.ob('C10.gate', 'State._update_dealing', ok and n > 0, up.loc,
           'dealing ends only when no burn, hole card, board card or draw is pending', want=T.show(clear))


def _street(chk, ctx) -> None:
    st = ctx.prog.cls('Street')
    fi = st.methods.get('__post_init__')
    if fi is None:
        raise AnalysisError('Street.__post_init__ vanished')
    want = [
        'self.board_dealing_count < 0',
        'not self.hole_dealing_statuses and not self.board_dealing_count and not self.draw_status',
        'self.hole_dealing_statuses and self.draw_status',
        'self.min_completion_betting_or_raising_amount <= 0',
        'self.max_completion_betting_or_raising_count is not None and self.max_completion_betting_or_raising_count < 0',
    ]
    got = []
    for p in ctx.paths(fi):
        if p.raised and p.outcome[1] == 'ValueError':
            got.append(unversion(p.conds()[-1]))
    # board_dealing_count is numeric on Street: normalise truthiness the same way for both sides
    ws = [T.spec(w, boolean=True) for w in want]
    chk.ob('C10.street', 'Street.__post_init__', {T.key(g) for g in got} == {T.key(w) for w in ws}, fi.loc,
           'a street is rejected when: negative board count; nothing is dealt at all; hole dealing together with a draw; '
           'non-positive bet size; negative raise cap', got=[T.show(g) for g in got], want=want)
