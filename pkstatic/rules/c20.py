"""C20 - importing a poker-site log yields a history that reproduces the log's outcome.

Decided statically (pattern tables): each of the site parsers defines every
pattern the generic driver reads, and every matchable pattern has the named
groups the driver subscripts (derived from the driver itself and compared with
a table); the per-site convention that turns the logged number into a raise-TO
amount; the per-street bet table the conventions read (who posted, who called,
cleared at a new street); variant alternatives all mapped to PHH codes; error
handlers raise or warn; seat ordering, heads-up reversal and late posts.
Not decided: agreement of a replay with the amounts in a concrete log.
"""
from __future__ import annotations

import ast
import re

from .. import terms as T
from ..evalstatic import Obj, SEval, Unknown
from ..model import AnalysisError, stmt_text, walk_no_nested
from ..paths import unversion

try:
    import re._parser as sre_parse
    import re._constants as sre_c
except ImportError:  # pragma: no cover
    import sre_parse
    import sre_constants as sre_c

GROUPS = {
    'FINAL_SEAT': {'final_seat'},
    'SEATS': {'seat', 'player'},
    'VARIANT': {'variant'},
    'ANTE_POSTING': {'player', 'ante'},
    'BLIND_OR_STRADDLE_POSTING': {'player', 'blind_or_straddle'},
    'STARTING_STACKS': {'player', 'starting_stack'},
    'HOLE_DEALING': {'player', 'cards'},
    'BOARD_DEALING': {'cards'},
    'FOLDING': {'player'},
    'CHECKING_OR_CALLING': {'player'},
    'COMPLETION_BETTING_OR_RAISING': {'player', 'amount'},
    'HOLE_CARDS_SHOWING': {'player', 'cards'},
}
OWN, N, MAXB = 'bets[player]', 'completion_betting_or_raising_amount', 'max(bets.values(), default=0)'
CONVENTIONS = {
    'PokerStarsParser': [(None, f'{MAXB} + {N}')],
    'FullTiltPokerParser': [(None, N)],
    'AbsolutePokerParser': [(None, f'{OWN} + {N}')],
    'PartyPokerParser': [(None, f'{OWN} + {N}')],
    'OngameNetworkParser': [("'bets' in line.split()", N), ("not 'bets' in line.split()", f'{OWN} + {N}')],
    'IPokerNetworkParser': [("'type=\"6\"' in line.split()", f'{OWN} + {N}'), ("not 'type=\"6\"' in line.split()", N)],
}
PHH_CODES = {'FT', 'NT', 'NS', 'PO', 'FO/8', 'F7S', 'F7S/8', 'FR', 'N2L1D', 'F2L3D', 'FB'}


def pattern_of(sev, cname, attr):
    v = sev.class_attr(cname, attr)
    if isinstance(v, Obj) and v.cls == 'Pattern':
        return v.args[0], v
    return None, v


def groups_of(rx: str) -> set:
    return set(sre_parse.parse(rx).state.groupdict)


def unmatchable(rx) -> bool:
    return rx == '(?!)'


def enumerate_group(rx: str, group: str, limit=64):
    """finite language of the named group's sub-pattern, or None"""
    parsed = sre_parse.parse(rx)
    gid = parsed.state.groupdict.get(group)

    def find(seq):
        for op, av in seq:
            if op is sre_c.SUBPATTERN:
                if av[0] == gid:
                    return av[3]
                r = find(av[3])
                if r is not None:
                    return r
            elif op is sre_c.BRANCH:
                for alt in av[1]:
                    r = find(alt)
                    if r is not None:
                        return r
            elif op in (sre_c.MAX_REPEAT, sre_c.MIN_REPEAT):
                r = find(av[2])
                if r is not None:
                    return r
        return None

    def lang(seq):
        out = ['']
        for op, av in seq:
            if op is sre_c.LITERAL:
                out = [s + chr(av) for s in out]
            elif op is sre_c.SUBPATTERN:
                sub = lang(av[3])
                if sub is None:
                    return None
                out = [s + t for s in out for t in sub]
            elif op is sre_c.BRANCH:
                alts = []
                for alt in av[1]:
                    a = lang(alt)
                    if a is None:
                        return None
                    alts += a
                out = [s + t for s in out for t in alts]
            elif op in (sre_c.MAX_REPEAT, sre_c.MIN_REPEAT):
                lo, hi, sub = av
                if hi > 3 or hi is sre_c.MAXREPEAT:
                    return None
                body = lang(sub)
                if body is None:
                    return None
                reps = []
                for k in range(lo, hi + 1):
                    cur = ['']
                    for _ in range(k):
                        cur = [s + t for s in cur for t in body]
                    reps += cur
                out = [s + t for s in out for t in reps]
            else:
                return None
            if len(out) > limit:
                return None
        return out
    sub = find(parsed)
    if sub is None:
        return None
    return lang(sub)


def _helper_facts(chk, ctx) -> None:
    """the small steps of the generic reconstruction, each as the shape it must have"""
    prog = ctx.prog
    m = ctx.m
    base = prog.cls('REParser')

    def facts(rule, construct, fi, table, detail):
        missing = [k for k, v in table.items() if not v]
        chk.ob(rule, construct, not missing, fi.loc if fi is not None else base.loc, detail, got=f'not found: {missing}' if missing else 'ok')
    pa = base.methods.get('_parse_actions')
    if pa is not None:
        fp_ = [n for n in ast.walk(pa.node) if isinstance(n, ast.FunctionDef) and n.name == 'format_player']
        loops = m.fors(pa.node, 's.splitlines()')
        tbl = {
            'a player is written p<position + 1>, position = index in the ordered player list': len(fp_) == 1
            and bool(m.exprs(fp_[0], "players.index(m['player'])", nested=True))
            and any(isinstance(x, ast.JoinedStr) and len(x.values) == 2 and isinstance(x.values[0], ast.Constant) and x.values[0].value == 'p'
                    and isinstance(x.values[1], ast.FormattedValue) and T.norm(x.values[1].value)[0] == 'lin' and T.norm(x.values[1].value)[2] == 1
                    for x in ast.walk(fp_[0])),
            'one pass over the lines of the log': len(loops) == 1,
        }
        if len(loops) == 1:
            lp = loops[0]
            first, last = lp.body[0], lp.body[-1]
            tbl['each line starts without an action'] = isinstance(first, ast.Assign) and isinstance(first.value, ast.Constant) and first.value.value is None
            tbl['every action found is appended, none invented'] = isinstance(last, ast.If) and not last.orelse \
                and m.eq(T.cond(last.test), 'action is not None', boolean=True, fn=pa.node) and bool(m.calls(last, 'actions.append(action)'))
        tbl['the list of actions is returned'] = any(isinstance(n, ast.Return) and isinstance(n.value, ast.Name) for n in pa.node.body)
        facts('C20.bookkeeping', 'REParser._parse_actions:flow', pa, tbl,
              'the log is read line by line; each recognised event yields one action for the player at his position; every action is kept')
    pp = base.methods.get('_parse_players')
    if pp is not None:
        facts('C20.driver', 'REParser._parse_players', pp, {
            # (a loop that adds to a set, or the set comprehension over the same two generators)
            'in every kind of event line (antes, blinds, folds, calls, bets and raises, shows)': {
                x.attr for n in ast.walk(pp.node) if isinstance(n, ast.Tuple) for x in n.elts if isinstance(x, ast.Attribute) and isinstance(x.value, ast.Name)
                and x.value.id == 'self'} == {'ANTE_POSTING', 'BLIND_OR_STRADDLE_POSTING', 'FOLDING', 'CHECKING_OR_CALLING', 'COMPLETION_BETTING_OR_RAISING',
                                              'HOLE_CARDS_SHOWING'},
            'every player named in an event line is collected': bool(m.calls(pp.node, "players.add(m['player'])")) or any(
                isinstance(n, ast.SetComp) and m.eq(T.norm(n.elt), "m['player']", fn=pp.node) for n in ast.walk(pp.node)),
            'over all lines': bool(m.fors(pp.node, 's.splitlines()')) or any(
                isinstance(n, ast.SetComp) and n.generators and m.eq(T.norm(n.generators[0].iter), 's.splitlines()', fn=pp.node) for n in ast.walk(pp.node)),
        }, 'the players of a hand are everybody who posts, folds, calls, raises or shows')
    pv, ppv = base.methods.get('_parse_variables'), base.methods.get('_parse_player_variables')
    if pv is not None:
        facts('C20.driver', 'REParser._parse_variables', pv, {
            'the value parser defaults to parse_value': bool(m.ifs(pv.node, 'parse_pattern is None')) and bool(m.full_assigns(pv.node, 'parse_pattern', 'parse_value')),
            'a variable is set from its named group when the pattern matches and has that group': bool(m.ifs(pv.node, '(m := search(pattern, s)) and key in m.groupdict()'))
            and bool(m.full_assigns(pv.node, 'variables[key]', 'parse_pattern(m[key])')),
        }, 'optional hand-level fields (venue, time, ...) are taken from their patterns, parsed by the pattern\'s parser or parse_value')
    if ppv is not None:
        facts('C20.driver', 'REParser._parse_player_variables', ppv, {
            'the value parser defaults to parse_value': bool(m.ifs(ppv.node, 'parse_pattern is None')) and bool(m.full_assigns(ppv.node, 'parse_pattern', 'parse_value')),
            'values are merged per player': bool(m.full_assigns(ppv.node, 'sub_player_variables[player]', 'merge(sub_player_variables[player], parse_pattern(m[key]))')),
            'every per-player field is kept': bool(m.full_assigns(ppv.node, 'player_variables[key]', 'sub_player_variables')),
        }, 'optional per-player fields (winnings, ...) are merged per player and all returned')
    ft = prog.cls('FullTiltPokerParser').methods.get('_parse_starting_stacks')
    if ft is not None:
        facts('C20.conventions', 'FullTiltPokerParser._parse_starting_stacks', ft, {
            'starts from the generic stacks': bool(m.assigns(ft.node, 'super()._parse_starting_stacks(s, parse_value)')),
            'a cap applies only when the log states one': bool(m.ifs(ft.node, 'cap is not None')),
            'stacks above the cap are cut to it (and only those)': bool(m.ifs(ft.node, 'value > cap')) and bool(m.full_assigns(ft.node, 'starting_stacks[key]', 'cap')),
        }, 'Full Tilt cap games: a stack counts up to the cap')
    ipk = prog.cls('IPokerNetworkParser')
    ips = ipk.methods.get('_parse_starting_stacks')
    if ips is not None:
        facts('C20.conventions', 'IPokerNetworkParser._parse_starting_stacks', ips, {
            'starts from the generic stacks': bool(m.assigns(ips.node, 'super()._parse_starting_stacks(s, parse_value)')),
            'the placeholder stack means unknown (infinite)': bool(m.ifs(ips.node, 'value == self.PLACEHOLDER_STARTING_STACK'))
            and bool(m.full_assigns(ips.node, 'starting_stacks[key]', "parse_value('inf')")),
        }, 'iPoker: a placeholder starting stack is read as unbounded')
    # the per-line collectors: one entry per matching line, keyed by the player
    for fname, spec_assign, what in (
            ('_parse_seats', ("seats[m['player']]", "int(m['seat'])"), 'seat of every player'),
            ('_parse_antes', ("antes[m['player']]", "parse_value(m['ante'])"), 'ante of every poster'),
            ('_parse_blinds_or_straddles', ("blinds_or_straddles[m['player']]", "parse_value(m['blind_or_straddle'])"), 'blind / straddle of every poster'),
            ('_parse_starting_stacks', ("starting_stacks[m['player']]", "parse_value(m['starting_stack'])"), 'starting stack of every player')):
        fi = base.methods.get(fname)
        if fi is None:
            continue
        facts('C20.driver', f'REParser.{fname}', fi, {
            f'{what} is taken from its line': bool(m.full_assigns(fi.node, *spec_assign)),
            'over all lines': bool(m.fors(fi.node, 's.splitlines()')),
            'to the last line (the scan is not left early: a late entrant posts a third blind, a dead blind comes after the button)':
                not any(isinstance(x, (ast.Break, ast.Return)) for lp in m.fors(fi.node, 's.splitlines()') for st in lp.body for x in ast.walk(st)),
        }, f'the {what} is read from the lines that state it, parsed with the caller\'s value parser')
    for fname, group, conv in (('_parse_final_seat', 'final_seat', "int(m['final_seat'])"), ('_parse_variant', 'variant', "self.VARIANTS[m['variant']]")):
        fi = base.methods.get(fname)
        if fi is None:
            continue
        refuse = any(any(isinstance(r, ast.Raise) for r in yes) for yes, no in m.when(fi.node, 'm is None'))
        facts('C20.errors', f'REParser.{fname}', fi, {
            'a log without it is refused (ValueError)': refuse,
            'the value comes from the named group': bool(m.exprs(fi.node, conv)),
        }, f'the {group} is read from its pattern; a log that does not state it cannot be interpreted')
    cs = prog.cls('FullTiltPokerParser').methods.get('_cap_starting_stacks')
    if cs is not None:
        none_ret = any(any(isinstance(x, ast.Assign) and isinstance(x.value, ast.Constant) and x.value.value is None or
                           isinstance(x, ast.Return) and (x.value is None or isinstance(x.value, ast.Constant) and x.value.value is None) for x in yes)
                       for yes, no in m.when(cs.node, 'm is None'))
        facts('C20.conventions', 'FullTiltPokerParser._cap_starting_stacks', cs, {
            'no cap line means no cap': none_ret,
            'the cap is parsed from its group': bool(m.exprs(cs.node, "parse_value(m['cap'])")),
        }, 'Full Tilt: the cap is what the header states, and absent otherwise')
    # every parser entry point hands out every history it managed to build
    entry_points(chk, ctx, 'C20.errors', [base, prog.cls('ACPCProtocolParser')] + [c for c in prog.subclasses('REParser')])
    ipc = ipk.methods.get('__call__')
    if ipc is not None:
        facts('C20.driver', 'IPokerNetworkParser.__call__', ipc, {
            'session-level fields are read once': bool(m.assigns(ipc.node, 'self._parse_variables(s, parse_value)')),
            'and copied into every hand that does not state them itself': bool(m.ifs(ipc.node, 'getattr(hh, key, None) is None')) and bool(m.calls(ipc.node, 'setattr(hh, key, value)')),
            'the generic importer does the rest (errors as asked)': bool(m.exprs(ipc.node, 'super().__call__(s, parse_value=parse_value, error_status=error_status)')),
            'the count of the generic importer is returned': bool(m.full_assigns(ipc.node, 'return_value', 'e.value')) and bool(m.ifs(ipc.node, 'return_value is None')),
        }, 'iPoker: session fields are filled into each hand; hands, errors and the count come from the generic importer')
    # REParser._parse: order the players, then lay out seats, antes, blinds and stacks in that order
    rp = base.methods.get('_parse')
    if rp is not None:
        def role(call_src):
            """name of the local bound to the given parser call"""
            hits = [n.targets[0].id for n in m.assigns(rp.node, call_src) if isinstance(n.targets[0], ast.Name)]
            return hits[0] if len(hits) == 1 else None
        r_seats, r_antes = role('self._parse_seats(s)'), role('self._parse_antes(s, parse_value)')
        r_blinds, r_stacks = role('self._parse_blinds_or_straddles(s, parse_value)'), role('self._parse_starting_stacks(s, parse_value)')
        ordered = [n for n in walk_no_nested(rp.node) if isinstance(n, ast.Assign) and isinstance(n.value, ast.Call)
                   and ast.unparse(n.value.func) == 'self._get_ordered_players' and isinstance(n.targets[0], ast.Name)]
        pl = ordered[0].targets[0].id if len(ordered) == 1 else None

        def laid_out(src_role, after_ordering=True):
            if src_role is None or pl is None:
                return 0
            want = T.spec(f'list(map({src_role}.__getitem__, {pl}))')
            return sum(1 for n in walk_no_nested(rp.node) if isinstance(n, ast.Assign) and T.norm(n.value) == want
                       and (not after_ordering or n.lineno > ordered[0].lineno))
        facts('C20.order', 'REParser._parse:layout', rp, {
            'players are ordered from the button': pl is not None and r_blinds is not None
            and len(ordered[0].value.args) == 5 and [ast.unparse(a) for a in ordered[0].value.args[:3]] == ['s', role('self._parse_final_seat(s)') or '?', r_blinds],
            'seats follow the player order': laid_out(r_seats) == 1,
            'antes follow the player order': laid_out(r_antes) == 1,
            'blinds follow the player order': laid_out(r_blinds) == 1,
            'stacks follow the player order': laid_out(r_stacks) == 1,
            'actions are parsed against the ordered players': bool(m.exprs(rp.node, 'self._parse_actions(s, parse_value, players)', nested=False)),
            # late posts are marked (negated) in the parsed table BEFORE the per-seat list of blinds is read off it
            'late posts are marked before the blinds are laid out': any(
                isinstance(lp, ast.For) and any(isinstance(x, ast.UnaryOp) and isinstance(x.op, ast.USub) for x in ast.walk(lp))
                and all(lp.lineno < a.lineno for a in rp.node.body if isinstance(a, ast.Assign) and any(
                    isinstance(x, ast.Attribute) and x.attr == '__getitem__' and isinstance(x.value, ast.Name) and x.value.id == r_blinds for x in ast.walk(a.value)))
                for lp in rp.node.body) if r_blinds else False,
            'what is returned is built from the replayed hand (with seats and names)': any(
                isinstance(n, ast.Return) and n.value is not None and 'from_game_state' in ast.unparse(n.value) and 'seats=seats' in ast.unparse(n.value)
                and 'players=players' in ast.unparse(n.value) for n in rp.node.body)
            or (bool(m.assigns(rp.node, 'HandHistory.from_game_state(game, state, seats=seats, players=players, **self.CONSTANTS, **V, **W)'))),
        }, 'the hand is laid out in position order (seats, antes, blinds, stacks alike) and the result is the replayed hand')
    ipo = ipk.methods.get('_get_ordered_players')
    if ipo is not None:
        facts('C20.order', 'IPokerNetworkParser._get_ordered_players', ipo, {
            'starts from the generic order': bool(m.assigns(ipo.node, 'super()._get_ordered_players(s, final_seat, parsed_blinds_or_straddles, players, seats)')),
            'keeps the two blinds': bool(m.full_assigns(ipo.node, 'players', 'players[:2]')),
            'then everybody in the order of his first action': bool(m.calls(ipo.node, 'players.append(player)')) and bool(m.full_assigns(ipo.node, 'player', "m['player']")),
            'lines without a player are skipped, the scan stops at the first repeated player': any(
                any(isinstance(x, ast.Continue) for x in yes) or (not yes and any(isinstance(c, ast.Call) and isinstance(c.func, ast.Attribute) and c.func.attr == 'append'
                                                                              for st in no for c in ast.walk(st)))
                for yes, no in m.when(ipo.node, 'player is None')) and any(
                any(isinstance(x, ast.Break) for x in yes) for yes, no in m.when(ipo.node, 'player in players')),
            'per line the player starts unknown': bool(m.full_assigns(ipo.node, 'player', 'None')),
        }, 'iPoker logs carry no seat order: after the blinds, players are ordered by their first action')


def run(chk, ctx) -> None:
    from .helpers import rotated_helper
    rotated_helper(chk, ctx, 'C20.order')
    # amounts in the log text are numbers with thousands separators; a site hand is replayed with the defaults of a hand history
    from .helpers import hand_history_defaults, parse_value_helper
    parse_value_helper(chk, ctx, 'C20.conventions')
    hand_history_defaults(chk, ctx, 'C20.conventions')
    _helper_facts(chk, ctx)
    prog = ctx.prog
    sev = SEval(prog)
    base = prog.cls('REParser')
    parsers = [c for c in prog.subclasses('REParser') if not prog.is_abstract(c)]
    chk.analysed['site_parsers'] = [c.name for c in parsers]
    # groups the driver reads, derived from the driver itself
    derived = _driver_groups(base)
    chk.analysed['driver_reads'] = {k: sorted(v) for k, v in derived.items()}
    for k, want in GROUPS.items():
        chk.ob('C20.driver', f'REParser:{k}', derived.get(k, set()) >= want - {'variant', 'final_seat'} or derived.get(k) == want or k in ('VARIANT', 'FINAL_SEAT'),
               base.loc, 'the generic driver reads these named groups of the pattern', got=sorted(derived.get(k, ())), want=sorted(want))
    for ci in parsers:
        for attr, want in GROUPS.items():
            rx, raw = pattern_of(sev, ci.name, attr)
            if rx is None:
                chk.ob('C20.patterns', f'{ci.name}.{attr}', False, ci.loc, 'the parser defines the pattern as a compiled literal', got=raw)
                continue
            if unmatchable(rx):
                chk.ob('C20.patterns', f'{ci.name}.{attr}', attr not in ('FINAL_SEAT', 'SEATS', 'VARIANT', 'STARTING_STACKS', 'BLIND_OR_STRADDLE_POSTING',
                                                                       'FOLDING', 'CHECKING_OR_CALLING', 'COMPLETION_BETTING_OR_RAISING', 'BOARD_DEALING'),
                       ci.loc, 'only events a site never logs (antes, dealt cards, shown cards) may be declared unmatchable', got=rx)
                continue
            try:
                re.compile(rx)
                g = groups_of(rx)
                err = None
            except re.error as ex:
                g, err = set(), str(ex)
            chk.ob('C20.patterns', f'{ci.name}.{attr}', err is None and want <= g, ci.loc,
                   'the pattern compiles and carries every named group the driver subscripts (a missing group is a KeyError, i.e. every hand of the site is dropped)',
                   got=err or sorted(g), want=sorted(want))
        rx, raw = pattern_of(sev, ci.name, 'HAND')
        chk.ob('C20.patterns', f'{ci.name}.HAND', rx is not None and not unmatchable(rx), ci.loc, 'the pattern that splits a file into hands exists')
        # one notion of "a chip amount" per site: stacks, antes, blinds, bets and caps are matched by the same character class
        # (a site whose stacks may carry thousands separators while its bets may not reads `bets $2,500` as 2)
        amount_classes = {}
        for attr in list(GROUPS) + ['CAP']:
            rx2, _ = pattern_of(sev, ci.name, attr)
            if rx2 is None or unmatchable(rx2):
                continue
            try:
                parsed = sre_parse.parse(rx2)
            except re.error:
                continue
            gi = parsed.state.groupdict

            def walk(items):
                for op, av in items:
                    if op is sre_c.SUBPATTERN:
                        name = next((k for k, v in gi.items() if v == av[0]), None)
                        if name in ('starting_stack', 'ante', 'blind_or_straddle', 'amount', 'cap'):
                            amount_classes.setdefault(str(av[3]), set()).add(f'{attr}:{name}')
                        walk(av[3])
                    elif op in (sre_c.MAX_REPEAT, sre_c.MIN_REPEAT):
                        walk(av[2])
                    elif op is sre_c.BRANCH:
                        for b in av[1]:
                            walk(b)
                    elif op in (sre_c.ASSERT, sre_c.ASSERT_NOT):
                        walk(av[1])
            walk(parsed)
        chk.ob('C20.patterns', f'{ci.name}:amount_class', len(amount_classes) == 1, ci.loc,
               'every pattern of a site matches chip amounts with the same character class (stacks, antes, blinds, bets, caps alike)',
               got={k[:70]: sorted(v) for k, v in amount_classes.items()} if len(amount_classes) != 1 else 'one class')
        # a `cards` group (shown hole cards, board cards) can spell every card the site prints: all ranks (a ten as T or as 10), all suits
        card_sets = {}
        for attr in list(GROUPS):
            rx2, _ = pattern_of(sev, ci.name, attr)
            if rx2 is None or unmatchable(rx2):
                continue
            try:
                parsed = sre_parse.parse(rx2)
            except re.error:
                continue
            gi = parsed.state.groupdict

            def chars_of(items, acc):
                for op, av in items:
                    if op is sre_c.IN:
                        for o2, a2 in av:
                            if o2 is sre_c.LITERAL:
                                acc.add(chr(a2))
                            elif o2 is sre_c.RANGE:
                                acc.update(chr(x) for x in range(a2[0], a2[1] + 1))
                            elif o2 is sre_c.CATEGORY:
                                acc.add(str(a2))
                            elif o2 is sre_c.NEGATE:
                                acc.add('<negated>')
                    elif op is sre_c.LITERAL:
                        acc.add(chr(av))
                    elif op in (sre_c.MAX_REPEAT, sre_c.MIN_REPEAT):
                        chars_of(av[2], acc)
                    elif op is sre_c.SUBPATTERN:
                        chars_of(av[3], acc)
                    elif op is sre_c.BRANCH:
                        for b in av[1]:
                            chars_of(b, acc)
                    elif op is sre_c.ANY:
                        acc.add('<any>')
                return acc

            def walk2(items):
                for op, av in items:
                    if op is sre_c.SUBPATTERN:
                        name = next((k for k, v in gi.items() if v == av[0]), None)
                        if name == 'cards':
                            card_sets[attr] = chars_of(av[3], set())
                        walk2(av[3])
                    elif op in (sre_c.MAX_REPEAT, sre_c.MIN_REPEAT):
                        walk2(av[2])
                    elif op is sre_c.BRANCH:
                        for b in av[1]:
                            walk2(b)
            walk2(parsed)
        # ... compared with the classes of the reviewed tree (pkstatic/card_classes.json): a site class never loses a character it
        # admitted - Absolute Poker prints a ten as `10c` and needs the 0, the sites that print `Tc` never had it
        import json as _json
        import os as _os
        try:
            with open(_os.path.join(_os.path.dirname(_os.path.dirname(_os.path.abspath(__file__))), 'card_classes.json'), encoding='utf-8') as fp:
                known_cc = _json.load(fp)
        except OSError:
            known_cc = {}
        short = {}
        for attr, cs_ in card_sets.items():
            if '<any>' in cs_ or '<negated>' in cs_ or any('CATEGORY' in x for x in cs_):
                continue          # (a free-text group: the card parser decides)
            low = {c.lower() for c in cs_}
            need = set('23456789jqka') | set('cdhs')
            lost = set(known_cc.get(f'{ci.name}.{attr}', '')) - cs_
            if not need <= low or lost:
                short[attr] = ''.join(sorted((need - low) | lost))
        chk.analysed.setdefault('card_classes', {}).update({f'{ci.name}.{attr}': ''.join(sorted(cs_)) for attr, cs_ in card_sets.items()})
        if card_sets:
            chk.ob('C20.patterns', f'{ci.name}:card_class', not short, ci.loc,
                   'the character class of a `cards` group admits every rank and suit character the site prints (none that it admitted is lost)',
                   got=short or sorted(card_sets))
        # variable tables
        vs = sev.class_attr(ci.name, 'VARIABLES')
        if isinstance(vs, dict):
            bad = []
            for key, tup in vs.items():
                p = tup[0] if isinstance(tup, tuple) else None
                if not (isinstance(p, Obj) and p.cls == 'Pattern' and key in groups_of(p.args[0])):
                    bad.append(key)
            chk.ob('C20.patterns', f'{ci.name}.VARIABLES', not bad, ci.loc, 'every meta-data pattern carries the group named after its key', got=bad)
        pvs = sev.class_attr(ci.name, 'PLAYER_VARIABLES')
        if isinstance(pvs, dict):
            bad = []
            for key, tup in pvs.items():
                p = tup[0] if isinstance(tup, tuple) else None
                if not (isinstance(p, Obj) and p.cls == 'Pattern' and {key, 'player'} <= groups_of(p.args[0])):
                    bad.append(key)
            chk.ob('C20.patterns', f'{ci.name}.PLAYER_VARIABLES', not bad, ci.loc, 'every per-player pattern carries `player` and the group named after its key', got=bad)
        # variants
        rx, _ = pattern_of(sev, ci.name, 'VARIANT')
        table = sev.class_attr(ci.name, 'VARIANTS')
        if rx is not None and isinstance(table, dict):
            lang = enumerate_group(rx, 'variant')
            if lang is None:
                chk.undecided('C20.variants', f'{ci.name}.VARIANT', ci.loc, 'the variant group is not a finite alternation')
            else:
                chk.ob('C20.variants', f'{ci.name}.VARIANT', set(lang) <= set(table) and set(table.values()) <= PHH_CODES, ci.loc,
                       'every text the variant pattern can capture is a key of VARIANTS and every value is a PHH variant code '
                       '(an unmapped capture is a KeyError: the hand is reported, never mis-imported)',
                       got=f'captures {sorted(lang)}; table {table}', want='captures within the table keys')
        # amount convention
        fi = prog.resolve_method(ci, '_get_completion_betting_or_raising_to_amount')
        got = []
        for p in ctx.paths(fi):
            if p.returned:
                conds = [unversion(c) for c in p.conds()]
                got.append((conds[-1] if conds else None, unversion(p.outcome[1])))
        want = [(None if c is None else T.spec(c, boolean=True), T.spec(v)) for c, v in CONVENTIONS.get(ci.name, [])]
        if ci.name in CONVENTIONS:
            ok = sorted(map(T.key, got)) == sorted(map(T.key, want))
            chk.ob('C20.conventions', f'{ci.name}', ok, fi.loc,
                   'how the number in the log becomes a raise-TO amount on this site (on top of the current maximum / of the own bet / already a raise-to)',
                   got=[(T.show(c) if c else 'always', T.show(v)) for c, v in got], want=CONVENTIONS[ci.name])
        else:
            chk.note(f'site parser {ci.name} has no convention in the table (not checked)')
    from .c20_samples import SAMPLES
    n_s = 0
    for cname, pats in SAMPLES.items():
        if cname not in prog.classes:
            continue
        for attr, samples in pats.items():
            rx, raw = pattern_of(sev, cname, attr)
            if rx is None:
                continue
            bad = []
            for line, want in samples:
                n_s += 1
                try:
                    m = re.search(rx, line)
                except re.error:
                    m = None
                if m is None:
                    bad.append(f'no match: {line!r}')
                elif want is not None and {k: m[k] for k in want if k in m.groupdict()} != want:
                    bad.append(f'{line!r} -> { {k: m[k] for k in want if k in m.groupdict()} }')
            chk.ob('C20.samples', f'{cname}.{attr}', not bad, prog.cls(cname).loc,
                   "the pattern (evaluated as a declaration with `re`) matches the site's line format and captures the player / amount / cards the driver reads",
                   got=bad[:2] or f'{len(samples)} sample line(s)')
    chk.floor('C20.samples', 55)
    chk.floor('C20.patterns', 6 * 13)
    chk.floor('C20.conventions', 6)
    chk.floor('C20.variants', 6)
    from .helpers import rotated_helper
    rotated_helper(chk, ctx, 'C20.order')
    _bookkeeping(chk, ctx, base)
    _errors(chk, ctx)
    _order(chk, ctx, base)


def _driver_groups(base):
    """pattern attribute -> groups subscripted on its match object in REParser"""
    out = {}
    for fi in base.methods.values():
        for n in ast.walk(fi.node):
            if isinstance(n, ast.NamedExpr) and isinstance(n.value, ast.Call) and getattr(n.value.func, 'id', '') == 'search':
                a0 = n.value.args[0]
                pats = []
                if isinstance(a0, ast.Attribute) and isinstance(a0.value, ast.Name) and a0.value.id == 'self':
                    pats = [a0.attr]
                elif isinstance(a0, ast.Name) and a0.id == 'pattern':
                    # for pattern in (self.A, self.B, ...)
                    for f in ast.walk(fi.node):
                        if isinstance(f, ast.For) and isinstance(f.target, ast.Name) and f.target.id == 'pattern' and isinstance(f.iter, ast.Tuple):
                            pats = [e.attr for e in f.iter.elts if isinstance(e, ast.Attribute)]
                var = n.target.id
                # the statement that owns the walrus
                owner = None
                for st in ast.walk(fi.node):
                    if isinstance(st, ast.If) and any(x is n for x in ast.walk(st.test)):
                        owner = st
                groups = set()
                scope = owner.body if owner is not None else []
                for st in scope:
                    for s in ast.walk(st):
                        if isinstance(s, ast.Subscript) and isinstance(s.value, ast.Name) and s.value.id == var and isinstance(s.slice, ast.Constant):
                            groups.add(s.slice.value)
                        # helpers taking the match: format_player(m) / self._format_cards(m)
                        if isinstance(s, ast.Call) and any(isinstance(a, ast.Name) and a.id == var for a in s.args):
                            fn = s.func.id if isinstance(s.func, ast.Name) else s.func.attr if isinstance(s.func, ast.Attribute) else ''
                            if fn == 'format_player':
                                groups.add('player')
                            if fn == '_format_cards':
                                groups.add('cards')
                for p in pats:
                    out.setdefault(p, set()).update(groups)
            if isinstance(n, ast.Assign) and isinstance(n.value, ast.Call) and getattr(n.value.func, 'id', '') == 'search' \
                    and isinstance(n.value.args[0], ast.Attribute):
                pat = n.value.args[0].attr
                var = n.targets[0].id if isinstance(n.targets[0], ast.Name) else None
                for s in ast.walk(fi.node):
                    if isinstance(s, ast.Subscript) and isinstance(s.value, ast.Name) and s.value.id == var and isinstance(s.slice, ast.Constant):
                        out.setdefault(pat, set()).add(s.slice.value)
    return out


def _search_arms(fn):
    """pattern attribute -> statements run when ``search(self.PATTERN, line)`` matched (if / elif chain, either polarity)"""
    out = {}
    for n in ast.walk(fn):
        if isinstance(n, ast.If):
            t = n.test
            neg = False
            if isinstance(t, ast.UnaryOp) and isinstance(t.op, ast.Not):
                t, neg = t.operand, True
            if isinstance(t, ast.NamedExpr) and isinstance(t.value, ast.Call) and getattr(t.value.func, 'id', '') == 'search' \
                    and t.value.args and isinstance(t.value.args[0], ast.Attribute):
                out[t.value.args[0].attr] = (n, n.orelse if neg else n.body, t.target.id)
    return out


def _bookkeeping(chk, ctx, base) -> None:
    fi = base.methods.get('_parse_actions')
    if fi is None:
        raise AnalysisError('REParser._parse_actions vanished')
    m = ctx.m
    arms = _search_arms(fi.node)
    tables = [n.targets[0].id for n in m.assigns(fi.node, 'defaultdict(int)') if isinstance(n.targets[0], ast.Name)]
    if len(tables) != 1:
        raise AnalysisError('REParser._parse_actions: the per-street bet table (defaultdict(int)) is not recognisable')
    B = tables[0]
    lines = [n.target.id for n in m.fors(fi.node, 's.splitlines()') if isinstance(n.target, ast.Name)]
    line_var = lines[0] if lines else 'line'

    def stmts(arm):
        return [x for st in arms[arm][1] for x in ast.walk(st)] if arm in arms else []

    def sets_bet(arm, value_spec):
        mv = arms[arm][2] if arm in arms else 'm'
        for x in stmts(arm):
            if isinstance(x, ast.Assign) and isinstance(x.targets[0], ast.Subscript) and isinstance(x.targets[0].value, ast.Name) and x.targets[0].value.id == B:
                if m.eq(T.norm(x.value), value_spec.replace('<B>', B).replace('<M>', mv)):
                    return x
        return None
    facts = {}
    facts["a posted blind is the poster's bet"] = sets_bet('BLIND_OR_STRADDLE_POSTING', "parse_value(<M>['blind_or_straddle'])") is not None
    facts['a new street clears the bets'] = any(isinstance(x, ast.Call) and ast.unparse(x.func) == f'{B}.clear' for x in stmts('BOARD_DEALING'))
    facts['a caller has matched the maximum'] = sets_bet('CHECKING_OR_CALLING', 'max(<B>.values(), default=0)') is not None
    raise_set = None
    for x in stmts('COMPLETION_BETTING_OR_RAISING'):
        if isinstance(x, ast.Assign) and isinstance(x.targets[0], ast.Subscript) and isinstance(x.targets[0].value, ast.Name) and x.targets[0].value.id == B \
                and isinstance(x.value, ast.Call) and ast.unparse(x.value.func) == 'self._get_completion_betting_or_raising_to_amount':
            a = x.value.args
            mv = arms['COMPLETION_BETTING_OR_RAISING'][2]
            if len(a) == 4 and T.norm(a[0]) == ('name', B) and T.norm(a[1]) == T.norm(x.targets[0].slice) \
                    and T.norm(a[2]) == T.spec(f"parse_value({mv}['amount'])") and T.norm(a[3]) == ('name', line_var):
                raise_set = x
    facts["a raiser's bet becomes the converted raise-to"] = raise_set is not None
    down = before = False
    if raise_set is not None:
        body = arms['COMPLETION_BETTING_OR_RAISING'][1]
        key_t = T.norm(raise_set.targets[0].slice)
        maxes = [st for st in body if isinstance(st, ast.Assign) and isinstance(st.targets[0], ast.Name)
                 and T.norm(st.value) == T.spec(f'max({B}.values(), default=0)')]
        if len(maxes) == 1:
            M = maxes[0].targets[0].id
            before = body.index(maxes[0]) < next((k for k, st in enumerate(body) if any(x is raise_set for x in ast.walk(st))), -1)
            down = any(isinstance(x, ast.If) and T.cond(x.test) in (T.cmp('LtE', ('sub', ('name', B), key_t), ('name', M)),
                                                                 T.cmp('Gt', ('sub', ('name', B), key_t), ('name', M)))
                       for st in body for x in ast.walk(st))
    facts['a "raise" that does not exceed the maximum is a call'] = down
    facts["the maximum is read before the raiser's bet changes"] = before
    missing = [k for k, v in facts.items() if not v]
    chk.ob('C20.bookkeeping', 'REParser._parse_actions', not missing, fi.loc,
           'the per-street bet table the site conventions read is kept up to date by every event that changes a bet', got=f'missing: {missing}' if missing else 'ok')
    emitted = {}
    for k, (node, body, mv) in arms.items():
        for x in [y for st in body for y in ast.walk(st)]:
            if isinstance(x, ast.Assign) and isinstance(x.value, ast.JoinedStr):
                toks = ' '.join(v.value for v in x.value.values if isinstance(v, ast.Constant)).split()
                if toks:
                    emitted.setdefault(k, set()).add(tuple(toks))
    want = {'HOLE_DEALING': {('d', 'dh')}, 'BOARD_DEALING': {('d', 'db')}, 'FOLDING': {('f',)}, 'CHECKING_OR_CALLING': {('cc',)},
            'COMPLETION_BETTING_OR_RAISING': {('cc',), ('cbr',)}, 'HOLE_CARDS_SHOWING': {('sm',)}}
    chk.ob('C20.bookkeeping', 'REParser._parse_actions:verbs', emitted == want, fi.loc,
           'each log event is rendered with the PHH verb of the same meaning', got={k: sorted(v) for k, v in emitted.items()})


def _errors(chk, ctx) -> None:
    prog = ctx.prog
    for cname in ('REParser', 'ACPCProtocolParser'):
        fi = prog.cls(cname).methods.get('__call__')
        if fi is None:
            raise AnalysisError(f'{cname}.__call__ vanished')
        hs = [h for n in ast.walk(fi.node) if isinstance(n, ast.Try) for h in n.handlers]
        ok = bool(hs)
        for h in hs:
            raises = any(isinstance(s, ast.Raise) for s in ast.walk(h))
            warns = any(isinstance(s, ast.Call) and getattr(s.func, 'id', '') == 'warn' for s in ast.walk(h))
            passes = any(isinstance(s, (ast.Pass, ast.Continue)) for s in h.body) and not (raises or warns)
            ok &= (raises and warns) and not passes
        chk.ob('C20.errors', f'{cname}.__call__', ok, fi.loc,
               'a hand that cannot be interpreted is reported - ValueError when asked for errors, a warning otherwise - never skipped silently')
        yields_in_else = any(isinstance(n, ast.Try) and any(isinstance(s, ast.Expr) and isinstance(s.value, ast.Yield) for s in n.orelse) for n in ast.walk(fi.node))
        chk.ob('C20.errors', f'{cname}.__call__:yield', yields_in_else, fi.loc, 'a history is yielded only when parsing it raised nothing')
    # the parsed history is replayed before it is returned (an unreplayable hand raises)
    fi = prog.cls('REParser').methods['_parse']
    ok = bool(ctx.m.exprs(fi.node, 'tuple(hh)[-1]', nested=False))
    chk.ob('C20.errors', 'REParser._parse:replayed', ok, fi.loc, 'the reconstructed hand is replayed to the end before it is handed out')


def _order(chk, ctx, base) -> None:
    fi = base.methods['_parse']
    m = ctx.m
    # the lists handed to the history: HandHistory(antes=A, blinds_or_straddles=Bl, min_bet=..., starting_stacks=...)
    kw = {}
    for c in ast.walk(fi.node):
        if isinstance(c, ast.Call) and getattr(c.func, 'id', '') == 'HandHistory':
            for k in c.keywords:
                if k.arg in ('antes', 'blinds_or_straddles', 'min_bet'):
                    kw[k.arg] = k.value
            break
    A = kw['antes'].id if isinstance(kw.get('antes'), ast.Name) else None
    Bl = kw['blinds_or_straddles'].id if isinstance(kw.get('blinds_or_straddles'), ast.Name) else None
    neg = False
    for n in fi.body:
        if isinstance(n, ast.For) and isinstance(n.target, ast.Name) and m.eq(T.norm(n.iter), 'players[2:]'):
            p = n.target.id
            neg = any(isinstance(st, ast.Assign) and isinstance(st.targets[0], ast.Subscript) and T.norm(st.value) == T.neg(T.norm(st.targets[0]))
                      and T.norm(st.targets[0].slice) == ('name', p) for st in n.body)
    chk.ob('C20.order', 'REParser._parse:late_posts', neg, fi.loc, 'blinds posted by players other than the two blind positions are late posts (negative amounts)')
    rev = False
    for n in fi.body:
        if isinstance(n, ast.If):
            b = m.bind(T.cond(n.test), 'count == 2', boolean=True)
            body = n.body
            if not b:
                b = m.bind(T.cond(n.test), 'count != 2', boolean=True)
                body = n.orelse
            direct = False
            if not b:
                for sp, bd in (('len(players) == 2', n.body), ('len(players) != 2', n.orelse)):
                    if m.eq(T.cond(n.test), sp, boolean=True):
                        b, body, direct = {'count': None}, bd, True
            if b:
                calls = sorted(ast.unparse(st.value.func) for st in body if isinstance(st, ast.Expr) and isinstance(st.value, ast.Call))
                cnt = [x for x in fi.body if isinstance(x, ast.Assign) and isinstance(x.targets[0], ast.Name) and x.targets[0].id == b['count']]
                rev = calls == sorted([f'{A}.reverse', f'{Bl}.reverse']) and (direct or (len(cnt) == 1 and m.eq(T.norm(cnt[0].value), 'len(players)')))
    chk.ob('C20.order', 'REParser._parse:heads_up', rev, fi.loc, 'heads-up the forced bets are listed reversed (the button posts the small blind), antes and blinds alike')
    op = base.methods['_get_ordered_players']
    rets = [T.norm(n.value) for n in walk_no_nested(op.node) if isinstance(n, ast.Return) and n.value is not None]
    ok = bool(rets) and all(m.eq(r, 'list(rotated(players, -k - 1))') for r in rets)
    chk.ob('C20.order', 'REParser._get_ordered_players', ok, op.loc, 'players are listed from the seat after the button, in seat order', got=[T.show(r) for r in rets[:1]])
    # where the button is: its seat when somebody sits there; with a dead button the seat before the first blind - heads-up the
    # first blind IS the button (it posts the small blind); no blinds and no button is an error
    summary = set()
    for p in ctx.paths(op):
        conds = frozenset(T.key(unversion(c)) for c in p.conds())
        summary.add((T.key(unversion(p.outcome[1])) if p.returned else ('raise', p.outcome[1]), conds))

    def K(src, boolean=False):
        return T.key(T.spec(src, boolean=boolean))
    first = 'players.index(next(iter(parsed_blinds_or_straddles)))'
    want_summary = {
        (K('list(rotated(players, -seats.index(final_seat) - 1))'), frozenset({K('final_seat in seats', True)})),
        (K(f'list(rotated(players, -{first} - 1))'),
         frozenset({K('final_seat not in seats', True), K('parsed_blinds_or_straddles', True), K('len(players) == 2', True)})),
        (K(f'list(rotated(players, -({first} - 1) - 1))'),
         frozenset({K('final_seat not in seats', True), K('parsed_blinds_or_straddles', True), K('len(players) != 2', True)})),
        (('raise', 'ValueError'), frozenset({K('final_seat not in seats', True), K('not parsed_blinds_or_straddles', True)})),
    }
    chk.ob('C20.order', 'REParser._get_ordered_players:button', summary == want_summary, op.loc,
           'the button is the seat named in the log; with a dead button it is the seat before the first blind, except heads-up where '
           'the first blind is the button itself; neither known is an error',
           got=sorted(str(x)[:150] for x in summary - want_summary), want=sorted(str(x)[:150] for x in want_summary - summary))
    srt = bool(m.assigns(fi.node, 'sorted(parsed_players, key=parsed_seats.__getitem__)'))
    chk.ob('C20.order', 'REParser._parse:seat_order', srt, fi.loc, 'players are first put in seat order')
    mb = Bl is not None and kw.get('min_bet') is not None and T.norm(kw['min_bet']) == T.spec(f'max({Bl}[:2])')
    chk.ob('C20.order', 'REParser._parse:min_bet', mb, fi.loc, 'the minimum bet is the big blind')


def entry_points(chk, ctx, rule, classes) -> None:
    """the ``__call__`` of a parser: one hand (one piece of text, one matching line) at a time - a hand that cannot be read is reported
    (error or warning, as asked) and the next one is still read: the handler sits inside the loop over the hands, around one hand"""
    for ci in classes:
        call = ci.methods.get('__call__')
        if call is None:
            continue
        ys = [n for n in ast.walk(call.node) if isinstance(n, ast.Yield) and n.value is not None]
        ok = bool(ys) and all(isinstance(y.value, ast.Name) for y in ys)
        rets = [n for n in ast.walk(call.node) if isinstance(n, ast.Return) and n.value is not None]
        chk.ob(rule, f'{ci.name}.__call__:yields', ok and bool(rets), call.loc,
               'the importer yields each reconstructed history and returns the number of hands it saw', got=f'{len(ys)} yield(s), {len(rets)} return(s)')
        trys = [n for n in ast.walk(call.node) if isinstance(n, ast.Try)
                and any(h.type is not None and 'ValueError' in ast.unparse(h.type) for h in n.handlers)]
        if not trys:
            continue        # (an importer that delegates to the generic one)
        per_hand = all(any(any(t is x for x in lp.body) for lp in ast.walk(call.node) if isinstance(lp, (ast.For, ast.While))) for t in trys) \
            and not any(isinstance(x, (ast.For, ast.While)) for t in trys for st in t.body for x in ast.walk(st))
        chk.ob(rule, f'{ci.name}.__call__:per_hand', per_hand, ctx.loc(call, trys[0]),
               'a hand that cannot be read is reported and skipped on its own: the handler is a statement of the loop over the hands and '
               'covers one hand, so the hands after it are still read')
