"""C18 - range notation, equities and ICM values are mathematically consistent.

Decided statically: the suit-combination expressions of the range parser are
*evaluated* over the four suits (6 / 4 / 12 / 16 combinations, suited and
offsuit disjoint and together the plain form); the `+` / `-` forms only recurse
into the base forms; separators; the nullable-maximum rule of the equity
calculator (a share is only given for hand types somebody qualifies for); the
share formula; the selection filter (no card twice among hole cards and
board); the ICM recurrence.
Not decided: Monte-Carlo values, ICM numerics.
"""
from __future__ import annotations

import ast

from .. import terms as T
from ..paths import unversion
from ..evalstatic import SEval, Unknown
from ..model import AnalysisError, stmt_text, walk_no_nested


def run(chk, ctx) -> None:
    prog = ctx.prog
    mi = prog.module('analysis')
    sev = SEval(prog)
    pr = next((f for n, f in mi.functions.items() if n.endswith('__parse_range') and n != 'parse_range'), None)
    if pr is None:
        raise AnalysisError('analysis.__parse_range vanished')
    _cardinality(chk, ctx, sev, pr)
    _recursion(chk, ctx, pr)
    _separators(chk, ctx, mi)
    _equities(chk, ctx, mi)
    _icm(chk, ctx, mi)
    _statistics(chk, ctx)
    # "equal to the split the engine itself would pay": a sample is scored with Hand.from_game_or_none, which is from_game (the
    # engine's evaluator) with None for "no hand" and nothing else - no memo, no reordering
    from . import c05
    from .helpers import Refile
    from .helpers import foreign
    foreign(chk, c05.run, Refile(chk, {'C05.errors': 'C18.shares'}, only=lambda r, c: c == 'Hand.from_game_or_none'), ctx)


def _cases(pr):
    m = [n for n in walk_no_nested(pr.node) if isinstance(n, ast.Match)]
    if len(m) != 1:
        raise AnalysisError('__parse_range: not exactly one match over the notation')
    out = {}
    for case in m[0].cases:
        pat = case.pattern
        if isinstance(pat, ast.MatchSequence):
            shape = tuple(sp.value.value if isinstance(sp, ast.MatchValue) else '*' for sp in pat.patterns)
            out[shape] = case
        else:
            out['default'] = case
    return out


def _iterate_args(stmts):
    """[(guard term or None, argument expr of iterate(...))] and other yields"""
    out = []

    def walk(ss, guard):
        for st in ss:
            if isinstance(st, ast.If):
                c = T.cond(st.test)
                walk(st.body, c)
                walk(st.orelse, T.mk_not(c))
            elif isinstance(st, ast.Expr) and isinstance(st.value, ast.YieldFrom):
                v = st.value.value
                if isinstance(v, ast.Call) and isinstance(v.func, ast.Name) and v.func.id == 'iterate' and v.args:
                    out.append((guard, 'iterate', v.args[0]))
                else:
                    out.append((guard, 'other', v))
            elif isinstance(st, ast.Expr) and isinstance(st.value, ast.Yield):
                out.append((guard, 'yield', st.value.value))
    walk(stmts, None)
    return out


def _cardinality(chk, ctx, sev, pr) -> None:
    cases = _cases(pr)
    pair = T.spec('r0 == r1', boolean=True)

    def ev(e):
        v = sev.ev(e, 'analysis', {})
        if isinstance(v, Unknown) or v is None:
            return None
        return [tuple(getattr(x, 'value', x) for x in t) for t in v]
    got = {}
    for shape, key in ((('*', '*'), 'plain'), (('*', '*', 's'), 'suited'), (('*', '*', 'o'), 'offsuit')):
        case = cases.get(shape)
        if case is None:
            raise AnalysisError(f'__parse_range: case {shape} vanished')
        for guard, kind, arg in _iterate_args(case.body):
            which = 'pair' if guard == pair else 'nonpair' if guard == T.mk_not(pair) else 'always'
            if kind == 'iterate':
                got[(key, which)] = ev(arg)
            elif kind == 'other':
                got[(key, which)] = ('delegates', T.show(T.norm(arg)))
    suits = 'cdhs'
    all16 = {(a, b) for a in suits for b in suits}
    want = {
        ('plain', 'pair'): {tuple(sorted(p)) for p in all16 if p[0] != p[1]},                     # 6 unordered
        ('plain', 'nonpair'): all16,                                                              # 16
        ('suited', 'nonpair'): {p for p in all16 if p[0] == p[1]},                                # 4
        ('offsuit', 'nonpair'): {p for p in all16 if p[0] != p[1]},                               # 12
    }
    names = {('plain', 'pair'): 'a pair has 6 combinations (unordered pairs of distinct suits)',
             ('plain', 'nonpair'): 'XY has 16 combinations',
             ('suited', 'nonpair'): 'XYs has 4 combinations, both cards of one suit',
             ('offsuit', 'nonpair'): 'XYo has 12 combinations, cards of different suits'}
    for k, w in want.items():
        g = got.get(k)
        if k == ('plain', 'pair') and isinstance(g, list):
            gs = {tuple(sorted(p)) for p in g}
            ok = gs == w and len(g) == 6 and all(a != b for a, b in g)
        else:
            ok = isinstance(g, list) and set(g) == w and len(g) == len(w)
        chk.ob('C18.cardinality', f'analysis.__parse_range:{k[0]}/{k[1]}', ok, pr.loc, names[k],
               got=f'{len(g)} combinations' if isinstance(g, list) else g, want=f'{len(w)} combinations')
    s, o, p = got.get(('suited', 'nonpair')), got.get(('offsuit', 'nonpair')), got.get(('plain', 'nonpair'))
    if all(isinstance(x, list) for x in (s, o, p)):
        chk.ob('C18.cardinality', 'analysis.__parse_range:XY=XYs+XYo', not (set(s) & set(o)) and set(s) | set(o) == set(p), pr.loc,
               'XY is the disjoint union of XYs and XYo')
    # a suited pair denotes nothing; an offsuit pair is the pair
    chk.ob('C18.cardinality', 'analysis.__parse_range:suited/pair', ('suited', 'pair') not in got, pr.loc,
           'a "suited pair" (two cards of one rank and one suit) denotes no hand', got=got.get(('suited', 'pair')))
    g = got.get(('offsuit', 'pair'))
    chk.ob('C18.cardinality', 'analysis.__parse_range:offsuit/pair', isinstance(g, tuple) and g[0] == 'delegates' and 'parse_range' in g[1], pr.loc,
           'an "offsuit pair" is the pair itself', got=g)
    # every element is built from rank/suit text of two cards
    it = [n for n in pr.node.body if isinstance(n, ast.FunctionDef) and n.name == 'iterate']
    ok = False
    if it:
        ys = [n for n in ast.walk(it[0]) if isinstance(n, ast.Yield)]
        loops = [n for n in ast.walk(it[0]) if isinstance(n, ast.For) and isinstance(n.target, ast.Tuple) and len(n.target.elts) == 2]
        if len(ys) == 1 and len(loops) == 1 and T.norm(ys[0].value)[:2] == ('call', 'frozenset'):
            parts = [v.value.id for n in ast.walk(ys[0].value) if isinstance(n, ast.JoinedStr) for v in n.values
                     if isinstance(v, ast.FormattedValue) and isinstance(v.value, ast.Name)]
            suits = [e.id for e in loops[0].target.elts if isinstance(e, ast.Name)]
            consts = [v for n in ast.walk(ys[0].value) if isinstance(n, ast.JoinedStr) for v in n.values if isinstance(v, ast.Constant)]
            ok = len(parts) == 4 and [parts[1], parts[3]] == suits and parts[0] != parts[2] and parts[0] not in suits and parts[2] not in suits and not consts \
                and 'parse' in ast.unparse(ys[0].value)
    chk.ob('C18.cardinality', 'analysis.__parse_range:element', ok, pr.loc,
           'each element is the set of the two cards (first rank with first suit, second rank with second suit)')
    chk.floor('C18.cardinality', 7)


def _recursion(chk, ctx, pr) -> None:
    cases = _cases(pr)
    want = {
        ('*', '*', '+'): ('iterate_plus', ''), ('*', '*', 's', '+'): ('iterate_plus', 's'), ('*', '*', 'o', '+'): ('iterate_plus', 'o'),
        ('*', '*', '-', '*', '*'): ('iterate_interval', ''), ('*', '*', 's', '-', '*', '*', 's'): ('iterate_interval', 's'),
        ('*', '*', 'o', '-', '*', '*', 'o'): ('iterate_interval', 'o'),
    }
    for shape, (fn, suffix) in want.items():
        case = cases.get(shape)
        got = None
        if case is not None:
            ys = [n.value for n in ast.walk(ast.Module(body=case.body, type_ignores=[])) if isinstance(n, ast.YieldFrom)]
            if len(ys) == 1 and isinstance(ys[0], ast.Call) and isinstance(ys[0].func, ast.Name):
                got = (ys[0].func.id, ys[0].args[0].value if ys[0].args and isinstance(ys[0].args[0], ast.Constant) else None)
        chk.ob('C18.recursion', f'analysis.__parse_range:{"".join(shape)}', got == (fn, suffix), pr.loc,
               'the abbreviation keeps its suitedness marker when it is expanded', got=got, want=(fn, suffix))
    for fn in ('iterate_plus', 'iterate_interval'):
        node = next((n for n in pr.node.body if isinstance(n, ast.FunctionDef) and n.name == fn), None)
        if node is None:
            raise AnalysisError(f'__parse_range.{fn} vanished')
        ys = [n for n in ast.walk(node) if isinstance(n, (ast.Yield, ast.YieldFrom))]
        ok = bool(ys) and all(isinstance(y, ast.YieldFrom) and isinstance(y.value, ast.Call) and 'parse_range' in ast.unparse(y.value.func)
                              and isinstance(y.value.args[0], ast.JoinedStr) for y in ys)
        # the expansion ends with the suitedness marker s
        ends = all(isinstance(y.value.args[0].values[-1], ast.FormattedValue) and ast.unparse(y.value.args[0].values[-1].value) == 's' for y in ys) if ok else False
        chk.ob('C18.recursion', f'analysis.__parse_range.{fn}', ok and ends, pr.loc,
               'a "+" / "-" form yields only through the base forms it abbreviates (union of those hands), each with the same suitedness marker')
    # plus: pairs go up to the top rank; non-pairs keep the higher rank and walk the lower one up to (not including) it
    ip = next(n for n in pr.node.body if isinstance(n, ast.FunctionDef) and n.name == 'iterate_plus')
    src = T.norm
    fors = [n for n in ast.walk(ip) if isinstance(n, ast.For)]
    ok = False
    if len(fors) == 1:
        bnd = ctx.m.bind(T.norm(fors[0].iter), 'rank_order[lo:hi]')
        if bnd:
            ok = any(isinstance(n, ast.If) and T.cond(n.test) == T.cmp('Gt', ('name', bnd['lo']), ('name', bnd['hi'])) for n in ast.walk(ip))
    if ok:
        hi = bnd['hi']
        loopv = fors[0].target.id if isinstance(fors[0].target, ast.Name) else None
        ys = [n for n in ast.walk(fors[0]) if isinstance(n, ast.YieldFrom)]
        ok = len(ys) == 1 and isinstance(ys[0].value, ast.Call) and ys[0].value.args and isinstance(ys[0].value.args[0], ast.JoinedStr)
        if ok:
            vals = [T.norm(v.value) for v in ys[0].value.args[0].values if isinstance(v, ast.FormattedValue)]
            ok = len(vals) == 3 and vals[0] == T.spec(f'rank_order[{hi}]') and vals[1] == ('name', loopv)
    chk.ob('C18.recursion', 'analysis.__parse_range.iterate_plus:kicker_range', ok, pr.loc,
           'XY+ keeps the higher rank and lets the lower one range from itself up to just below the higher one')
    pair_arm = [n for n in ast.walk(ip) if isinstance(n, ast.If) and T.cond(n.test) in (T.spec('r0 == r1', boolean=True), T.spec('r0 != r1', boolean=True))]
    ok = False
    if len(pair_arm) == 1:
        body = pair_arm[0].body if T.cond(pair_arm[0].test) == T.spec('r0 == r1', boolean=True) else pair_arm[0].orelse
        tops = [s2 for s2 in body if isinstance(s2, ast.Assign) and ctx.m.eq(T.norm(s2.value), 'rank_order[-1]', fn=ip)]
        ys = [n for s2 in body for n in ast.walk(s2) if isinstance(n, ast.YieldFrom)]
        if len(tops) == 1 and len(ys) == 1 and isinstance(ys[0].value, ast.Call) and isinstance(ys[0].value.args[0], ast.JoinedStr):
            top = tops[0].targets[0].id
            js = ys[0].value.args[0]
            shape = [('v', ast.unparse(v.value)) if isinstance(v, ast.FormattedValue) else ('c', v.value) for v in js.values]
            ok = shape == [('v', 'r0'), ('v', 'r1'), ('v', 's'), ('c', '-'), ('v', top), ('v', top), ('v', 's')]
    chk.ob('C18.recursion', 'analysis.__parse_range.iterate_plus:pairs', ok, pr.loc,
           'XX+ denotes the pairs from XX up to the highest rank of the rank order (XX-AA)')
    ii = next(n for n in pr.node.body if isinstance(n, ast.FunctionDef) and n.name == 'iterate_interval')
    fors = [n for n in ast.walk(ii) if isinstance(n, ast.For)]
    ok = False
    if len(fors) == 1:
        bnd = ctx.m.bind(T.norm(fors[0].iter), 'zip(rank_order[a0:a2 + 1], rank_order[a1:a3 + 1])')
        if bnd:
            gap = T.spec(f"{bnd['a1']} - {bnd['a0']} != {bnd['a3']} - {bnd['a2']}", boolean=True)
            ok = any(isinstance(n, ast.If) and T.cond(n.test) == gap and any(isinstance(s2, ast.Raise) for s2 in n.body) for n in ast.walk(ii))
    chk.ob('C18.recursion', 'analysis.__parse_range.iterate_interval:bounds', ok, pr.loc,
           'X1Y1-X2Y2 walks both ranks in step, both ends included; bounds with different gaps are rejected')
    chk.floor('C18.recursion', 10)


def _separators(chk, ctx, mi) -> None:
    fi = mi.functions.get('parse_range')
    if fi is None:
        raise AnalysisError('analysis.parse_range vanished')
    want = T.spec("tuple(' '.join(raw_ranges).replace(',', ' ').replace(';', ' ').split())")
    want2 = T.spec("tuple(' '.join(raw_ranges).replace(';', ' ').replace(',', ' ').split())")
    got = [T.norm(n.value) for n in walk_no_nested(fi.node) if isinstance(n, ast.Assign) and 'split' in ast.unparse(n.value)]
    chk.ob('C18.separators', 'analysis.parse_range', got in ([want], [want2]), fi.loc,
           'commas, semicolons and white space are interchangeable separators; empty tokens denote nothing',
           got=[T.show(g) for g in got], want=T.show(want))
    upd = [n for n in walk_no_nested(fi.node) if isinstance(n, ast.Call) and isinstance(n.func, ast.Attribute) and n.func.attr == 'update']
    chk.ob('C18.separators', 'analysis.parse_range:union', len(upd) == 1, fi.loc, 'the range is the union of what each token denotes')


def _equities(chk, ctx, mi) -> None:
    fi = next((f for n, f in mi.functions.items() if n.endswith('__calculate_equities_0')), None)
    if fi is None:
        raise AnalysisError('analysis.__calculate_equities_0 vanished')
    # nullable maximum: every equality test against a max_or_none value is under a non-None guard of it
    maxes = {n.targets[0].id for n in walk_no_nested(fi.node) if isinstance(n, ast.Assign) and isinstance(n.targets[0], ast.Name)
             and isinstance(n.value, ast.Call) and isinstance(n.value.func, ast.Name) and n.value.func.id == 'max_or_none'}
    from .c02 import _enclosing_tests
    bad = []
    n_uses = 0
    for n in walk_no_nested(fi.node):
        uses_eq = None
        if isinstance(n, ast.Call) and isinstance(n.func, ast.Name) and n.func.id == 'partial' and n.args and isinstance(n.args[0], ast.Name) and n.args[0].id == 'eq':
            uses_eq = [a.id for a in n.args[1:] if isinstance(a, ast.Name)]
        if isinstance(n, ast.Compare) and any(isinstance(o, ast.Eq) for o in n.ops):
            uses_eq = [x.id for x in [n.left] + n.comparators if isinstance(x, ast.Name)]
        if not uses_eq:
            continue
        for m in uses_eq:
            if m in maxes:
                n_uses += 1
                guards = [T.cond(t) for t in _enclosing_tests(fi.node, n)]
                if T.cmp('IsNot', ('name', m), ('const', None)) not in guards:
                    bad.append(n)
    chk.ob('C18.nullable_max', fi.qualname, not bad and n_uses > 0, ctx.loc(fi, bad[0]) if bad else fi.loc,
           'hands are compared with the best hand of a type only when somebody holds a hand of that type (None == None would make everybody a winner)')
    # share formula
    ok = False
    got = None
    for loop in [n for n in walk_no_nested(fi.node) if isinstance(n, ast.For) and isinstance(n.target, ast.Name)]:
        for st in loop.body:
            if isinstance(st, ast.Assign) and isinstance(st.value, ast.BinOp) and isinstance(st.value.op, ast.Div):
                got = T.norm(st.value)
                coll, el = T.norm(loop.iter), ('name', loop.target.id)
                ok = got == ('div', T.num(1), T.mul(('call', 'len', (coll,), ()), ('call', 'sum', (el,), ())))
                # the collection holds one winner-flag list per hand type somebody qualifies for
    chk.ob('C18.shares', fi.qualname, ok, fi.loc,
           'the share of one winner for one hand type = 1 / (hand types in play x winners of that type): shares are non-negative and sum to one',
           got=T.show(got) if got else None, want='1 / (len(<types in play>) * sum(<winner flags>))')
    ok = bool(ctx.m.assigns(fi.node, 'list(map(partial(hand_type.from_game_or_none, board_cards=board_cards), hole_cards))'))
    chk.ob('C18.shares', f'{fi.qualname}:hands', ok, fi.loc, "each player's hand is made from his hole cards and the completed board, None when he has none")
    # sampling fills exactly the missing cards, each deck card at most once
    ok = any(isinstance(n, ast.Call) and isinstance(n.func, ast.Name) and n.func.id == 'sample' and any(k.arg == 'k' for k in n.keywords)
             for n in walk_no_nested(fi.node))
    chk.ob('C18.sampling', fi.qualname, ok, fi.loc, 'unknown cards are drawn without replacement from the unused deck cards')
    # each sample starts from the given cards: the lists that are completed are copies (the caller's lists are reused by every sample)
    m = ctx.m
    recv = []
    for p in ctx.paths(fi):
        for e in p.events:
            if e.kind == 'call' and e.term[0] == 'mcall' and e.term[2] == 'extend':
                recv.append(unversion(e.term[1]))

    def is_copy(t):
        return T.mentions(t, lambda x: isinstance(x, tuple) and len(x) > 2 and ((x[0] == 'mcall' and x[2] == 'copy') or x == ('attr', ('name', 'list'), 'copy') or (x[0] == 'call' and x[1] in ('list', 'deepcopy', 'copy'))))
    chk.ob('C18.sampling', f'{fi.qualname}:isolated', bool(recv) and all(is_copy(t) for t in recv), fi.loc,
           'a sample completes copies of the given hole cards and board: no sample sees the cards drawn for another one (equities do not depend on sampling when all cards are given)',
           got=[T.show(t)[:80] for t in recv if not is_copy(t)][:2])
    loops = m.fors(fi.node, 'range(len(hole_cards))')
    formula = 'hole_dealing_count * len(hole_cards) - sum(map(len, hole_cards)) + board_dealing_count - len(board_cards)'
    ks = []
    for n in walk_no_nested(fi.node):
        if isinstance(n, ast.Call) and isinstance(n.func, ast.Name) and n.func.id == 'sample' and len(n.args) == 1 \
                and T.norm(n.args[0]) == ('name', 'deck_cards'):
            for k in n.keywords:
                if k.arg == 'k':
                    v = k.value
                    if isinstance(v, ast.Name):
                        ds = [a for a in walk_no_nested(fi.node) if isinstance(a, ast.Assign) and isinstance(a.targets[0], ast.Name) and a.targets[0].id == v.id]
                        v = ds[0].value if len(ds) == 1 else v
                    ks.append(v)
    facts = {
        'drawn at once, without replacement, as many cards as are missing (holes and board)': len(ks) == 1 and m.eq(T.norm(ks[0]), formula, fn=fi.node),
        'first slice starts at 0': bool(m.full_assigns(fi.node, 'begin', '0')),
        'board gets the rest': bool(m.calls(fi.node, 'board_cards.extend(sampled_cards[begin:])')),
    }
    if len(loops) == 1:
        lp = loops[0]
        facts['each player gets the next (count - held) cards'] = bool(m.assigns(lp, 'begin + hole_dealing_count - len(hole_cards[i])')) \
            and bool(m.calls(lp, 'hole_cards[i].extend(sampled_cards[begin:end])'))
        facts['slices do not overlap (begin = end)'] = m.stmt_pair_order(
            lp.body, ('assign', '', T.spec('end'), T.spec('begin + hole_dealing_count - len(hole_cards[i])')), ('assign', '', T.spec('begin'), T.spec('end')))
    else:
        facts['one loop over the players'] = False
    missing = [k for k, v in facts.items() if not v]
    chk.ob('C18.sampling', f'{fi.qualname}:distribution', not missing, fi.loc,
           'the drawn cards are dealt out in disjoint consecutive slices: to each player what he lacks, the rest to the board',
           got=f'not found: {missing}' if missing else 'ok')
    ce = mi.functions.get('calculate_equities')
    if ce is None:
        raise AnalysisError('analysis.calculate_equities vanished')
    mp = [n for n in walk_no_nested(ce.node) if isinstance(n, (ast.Assign, ast.AnnAssign)) and n.value is not None
          and isinstance(n.value, ast.IfExp) and 'executor' in ast.unparse(n.value)]
    # (a conditional expression assigned to a name is read as an if statement)
    ok_mp = any(isinstance(n, ast.If) and T.cond(n.test) in (T.spec('executor is None', boolean=True), T.spec('executor is not None', boolean=True))
                for n in walk_no_nested(ce.node)) or bool(mp)
    for n in walk_no_nested(ce.node):
        if isinstance(n, ast.If) and 'executor' in ast.unparse(n.test):
            pos, neg = (n.body, n.orelse) if T.cond(n.test) == T.spec('executor is None', boolean=True) else (n.orelse, n.body)
            ok_mp = bool(pos) and bool(neg) and 'executor.map' in ast.unparse(neg[0]) and ast.unparse(pos[0]).endswith('= map')
    for n in mp:
        t, b, o = n.value.test, n.value.body, n.value.orelse
        if T.cond(t) != T.spec('executor is None', boolean=True):
            b, o = o, b
        ok_mp = ast.unparse(b) == 'map' and ast.unparse(o) == 'executor.map'
    chk.ob('C18.sampling', 'analysis.calculate_equities:mapper', ok_mp, ce.loc,
           'samples are mapped with the builtin map when no executor is given, with executor.map otherwise')
    want = T.spec('Counter(chain(chain.from_iterable(selection), board_cards))')
    cnt = ctx.m.assigns(ce.node, want)
    flt = []
    if len(cnt) == 1 and isinstance(cnt[0].targets[0], ast.Name):
        cname_ = cnt[0].targets[0].id
        flt = [n for n in walk_no_nested(ce.node) if isinstance(n, ast.If) and T.cond(n.test) == T.spec(f'all(map(partial(eq, 1), {cname_}.values()))', boolean=True)]
        deck = [T.norm(n.args[0]) for n in walk_no_nested(ce.node) if isinstance(n, ast.Call) and isinstance(n.func, ast.Attribute)
                and n.func.attr == 'append' and n.args and ctx.m.eq(T.norm(n.args[0]), f'list(set(deck) - {cname_}.keys())')]
    else:
        deck = []
    chk.ob('C18.sampling', 'analysis.calculate_equities:no_card_twice', len(cnt) == 1 and len(flt) == 1, ce.loc,
           'a selection of hole cards is used only if no card appears twice among all hole cards AND the board',
           got=[stmt_text(c.value) for c in cnt] or 'no Counter over the hole cards of the selection chained with the board', want=T.show(want))
    chk.ob('C18.sampling', 'analysis.calculate_equities:unused_deck', len(deck) == 1, ce.loc,
           'cards are sampled from the deck minus every card already in a hand or on the board', got=[T.show(d) for d in deck])
    norm = ctx.m.assigns(ce.node, 'equity / sample_count') or ctx.m.exprs(ce.node, '[equity / sample_count for equity in equities]')
    chk.ob('C18.shares', 'analysis.calculate_equities:mean', len(norm) == 1, ce.loc, 'an equity is the mean share over the samples')
    hs = mi.functions.get('calculate_hand_strength')
    def _last_equity(v):
        if not (isinstance(v, ast.Subscript) and T.norm(v.slice) == ('num', -1)):
            return False
        src = v.value
        if isinstance(src, ast.Name):
            defs = [a for a in walk_no_nested(hs.node) if isinstance(a, ast.Assign) and len(a.targets) == 1
                    and isinstance(a.targets[0], ast.Name) and a.targets[0].id == src.id]
            src = defs[0].value if len(defs) == 1 else None
        return isinstance(src, ast.Call) and isinstance(src.func, ast.Name) and src.func.id == 'calculate_equities'
    opp = hs is not None and bool(ctx.m.exprs(hs.node, '[[[]] for _ in range(player_count - 1)]'))
    chk.ob('C18.shares', 'analysis.calculate_hand_strength:opponents', opp, hs.loc if hs else 'pokerkit/analysis.py',
           'the hero plays against player_count - 1 opponents with unknown cards')
    ok = hs is not None and any(isinstance(n, ast.Return) and _last_equity(n.value) for n in walk_no_nested(hs.node)) \
        and any(isinstance(n, ast.Call) and isinstance(n.func, ast.Attribute) and n.func.attr == 'append' and n.args
                and T.norm(n.args[0]) == ('name', 'hole_range') for n in walk_no_nested(hs.node))
    chk.ob('C18.shares', 'analysis.calculate_hand_strength', ok, hs.loc if hs else 'pokerkit/analysis.py', 'hand strength is the equity of the last range (the hero) against unknown opponents')


def _icm(chk, ctx, mi) -> None:
    fi = mi.functions.get('calculate_icm')
    if fi is None:
        raise AnalysisError('analysis.calculate_icm vanished')
    m = ctx.m
    loops = m.fors(fi.node, 'permutations(range(len(chips)), len(payouts))')
    # (the number of players may be given a name of its own)
    n_names = [a.targets[0].id for a in m.assigns(fi.node, 'len(chips)') if isinstance(a.targets[0], ast.Name)]
    if not loops and len(n_names) == 1:
        loops = m.fors(fi.node, f'permutations(range({n_names[0]}), len(payouts))')
    facts = {
        'chip shares': bool(m.assigns(fi.node, '[chip / chip_sum for chip in chips]')) and bool(m.assigns(fi.node, 'sum(chips)')),
        'finishing orders': len(loops) == 1,
        'payout weighting': bool(m.augs(fi.node, ast.Add, 'icms[player_index]', 'payout * probability')),
        'pairing': bool(m.fors(fi.node, 'zip(payouts, player_indices)')),
    }
    order_ok = fresh = False
    if loops:
        order_var = loops[0].target.id if isinstance(loops[0].target, ast.Name) else None
        for n in walk_no_nested(loops[0]):
            if isinstance(n, ast.For) and isinstance(n.iter, ast.Name) and n.iter.id == order_var:
                order_ok = m.stmt_pair_order(
                    n.body,
                    ('aug', 'Mult', T.spec('probability'), T.spec('share / denominator')),
                    ('aug', 'Sub', T.spec('denominator'), T.spec('share')))
        first = [st for st in loops[0].body if isinstance(st, ast.Assign)][:2]
        fresh = len(first) == 2 and all(isinstance(st.value, ast.Constant) and st.value.value == 1.0 for st in first)
    facts['conditional probability, divided before the player is removed'] = order_ok
    facts['fresh probability per order'] = fresh
    # every player keeps his seat: the stacks are taken as given (only made a tuple), one value per stack, returned in seat order
    binds = [n for n in walk_no_nested(fi.node) if isinstance(n, (ast.Assign, ast.AugAssign, ast.AnnAssign))
             for t in (n.targets if isinstance(n, ast.Assign) else [n.target]) if isinstance(t, ast.Name) and t.id == 'chips']
    rets = [n for n in walk_no_nested(fi.node) if isinstance(n, ast.Return)]
    pbinds = [n for n in walk_no_nested(fi.node) if isinstance(n, (ast.Assign, ast.AugAssign, ast.AnnAssign))
              for t in (n.targets if isinstance(n, ast.Assign) else [n.target]) if isinstance(t, ast.Name) and t.id == 'payouts']
    facts['prizes taken as given (every place, a zero in the middle included)'] = \
        all(isinstance(n, ast.Assign) and T.norm(n.value) == T.spec('tuple(payouts)') for n in pbinds) and len(pbinds) <= 1
    facts['stacks taken as given, one value per seat, in seat order'] = \
        all(isinstance(n, ast.Assign) and T.norm(n.value) == T.spec('tuple(chips)') for n in binds) and len(binds) <= 1 \
        and len(rets) == 1 and rets[0].value is not None and any(
            isinstance(a.targets[0], ast.Name) and T.norm(rets[0].value) == ('call', 'tuple', (('name', a.targets[0].id),), ())
            for a in (m.assigns(fi.node, '[0.0] * len(chips)') or (m.assigns(fi.node, f'[0.0] * {n_names[0]}') if len(n_names) == 1 else [])))
    missing = [k for k, v in facts.items() if not v]
    chk.ob('C18.icm', 'analysis.calculate_icm', not missing, fi.loc,
           'Malmuth-Harville: P(order) = prod chips_i / (chips not yet placed); each player gets payout_k * P for finishing k-th; '
           'values are non-negative, sum to the prize pool, and order as the chips do', got=f'missing: {missing}' if missing else 'ok')


def _statistics(chk, ctx) -> None:
    st = ctx.prog.cls('Statistics')
    fi = st.methods.get('from_hand_history')
    ok = False
    if fi is not None:
        for loop in [n for n in ast.walk(fi.node) if isinstance(n, ast.For) and 'zip' in ast.unparse(n.iter)]:
            names = [x.id for x in ast.walk(loop.target) if isinstance(x, ast.Name)]
            z = T.norm(loop.iter)
            made = [n.value for n in ast.walk(loop) if isinstance(n, ast.keyword) and n.arg == 'payoffs'] + \
                [n.args[0] for n in ast.walk(loop) if isinstance(n, ast.Call) and isinstance(n.func, ast.Name) and n.func.id == 'Statistics' and n.args]
            for kv in made:
                v = T.norm(kv)
                # [finishing - starting] where starting iterates hh.starting_stacks and finishing the finishing stacks
                if v[0] == 'list' and len(v[1]) == 1 and v[1][0][0] == 'lin':
                    d = dict(v[1][0][1])
                    pos = [a for a, c in d.items() if c == 1]
                    neg_ = [a for a, c in d.items() if c == -1]
                    if len(pos) == 1 and len(neg_) == 1 and pos[0][0] == 'name' and neg_[0][0] == 'name':
                        zi = z[2] if z[0] == 'call' and z[1] == 'zip' else (z[2][0][2] if z[0] == 'call' and z[1] == 'enumerate' else ())
                        tgt = [x.id for x in ast.walk(loop.target) if isinstance(x, ast.Name)]
                        flat = [x for x in tgt]
                        try:
                            si = flat.index(neg_[0][1]) - (1 if z[1] == 'enumerate' else 0)
                            ok = 'starting_stacks' in T.show(zi[si])
                        except (ValueError, IndexError):
                            ok = False
    chk.ob('C18.statistics', 'Statistics.from_hand_history', ok, fi.loc if fi else st.loc, 'a recorded payoff is finishing stack - starting stack')
    if fi is not None:
        m = ctx.m
        facts = {}
        fin = [n for n in m.ifs(fi.node, 'hh.finishing_stacks is None') + m.ifs(fi.node, 'hh.finishing_stacks is not None')]
        facts['finishing stacks: the recorded ones, else those of the replayed final state'] = any(
            (lambda a, b: bool(m.exprs(ast.Module(body=a, type_ignores=[]), 'tuple(hh)[-1]')) and bool(m.assigns(ast.Module(body=b, type_ignores=[]), 'hh.finishing_stacks')))(
                *((n.body, n.orelse) if m.eq(T.cond(n.test), 'hh.finishing_stacks is None', boolean=True, fn=fi.node) else (n.orelse, n.body))) for n in fin)
        pl = [n for n in m.ifs(fi.node, 'hh.players is None') + m.ifs(fi.node, 'hh.players is not None')]
        facts['players: the recorded names, else nobody'] = any(
            (lambda a, b: bool(m.assigns(ast.Module(body=a, type_ignores=[]), 'repeat(None)')) and bool(m.assigns(ast.Module(body=b, type_ignores=[]), 'hh.players')))(
                *((n.body, n.orelse) if m.eq(T.cond(n.test), 'hh.players is None', boolean=True, fn=fi.node) else (n.orelse, n.body))) for n in pl)
        facts['only named players are recorded'] = any(
            any(isinstance(c, ast.Call) and isinstance(c.func, ast.Attribute) and c.func.attr == 'append' for c in ast.walk(ast.Module(body=n.body, type_ignores=[])))
            for n in m.ifs(fi.node, 'player is not None'))
        missing = [k for k, v in facts.items() if not v]
        chk.ob('C18.statistics', 'Statistics.from_hand_history:sources', not missing, fi.loc,
               'payoffs are taken from the recorded finishing stacks (or the replayed hand) and filed under the recorded player names', got=f'not found: {missing}' if missing else 'ok')
    mg = st.methods.get('merge') if st is not None else None
    if mg is not None:
        ok = bool(ctx.m.fors(mg.node, 'statistics')) and bool(ctx.m.calls(mg.node, 'payoffs.extend(sub_statistics.payoffs)')) \
            and bool(ctx.m.exprs(mg.node, 'Statistics(payoffs=payoffs)'))
        chk.ob('C18.statistics', 'Statistics.merge', ok, mg.loc, 'merged statistics hold the payoffs of all parts')
