"""C03 - betting follows the rules: whose turn, which actions, which amounts.

Decided statically: for each betting query / verifier / mutator the
path-sensitive summary (path condition -> returned term / raise / writes) is
compared, clause by clause, with a formula written from the rules (S1-S13 of
DESIGN.md), both pushed through the same normaliser.  `A` is the acting player.
Not decided: that the clauses *together* admit exactly the legal histories (a
statement about sequences).
"""
from __future__ import annotations

import ast

from .helpers import Every  # noqa: E402

from .. import terms as T
from ..model import AnalysisError, self_attr, stmt_text, walk_no_nested
from ..paths import unversion
from .c01 import ACTOR, actor_identity, canon_actor, returns_of

A = ACTOR
B = {'A': A}


def sp(src, boolean=False, **extra):
    return canon_actor(T.spec(src, {**B, **extra}, boolean=boolean))


def conds_of(p):
    return [canon_actor(unversion(c)) for c in p.conds()]


def raise_guards(ctx, name):
    """for every raising path: (exception, the assumption that sent it there)"""
    fi = ctx.sfi(name)
    out = []
    for p in ctx.paths(fi):
        if not p.raised:
            continue
        cs = conds_of(p)
        out.append((p.outcome[1], cs[-1] if cs else ('const', True), cs, p))
    return out


def run(chk, ctx) -> None:
    actor_identity(chk, ctx, 'C03.actor')
    # "refused after the per-street cap": the cap every street of a predefined game carries is the cap of its structure
    from . import c11
    from .helpers import StreetColumn
    c11.run(StreetColumn(chk, 'C03.caps', 'caps', 6, 'the number of bets and raises a street of the variant allows (4 in fixed-limit games, '
                                                     'unlimited otherwise), the same on every street'), ctx)
    chk.floor('C03.caps', 12)
    # "the player to act": who opens a round (the match over the opening rule in _begin_betting, anchored here too) is C13's table
    from . import c13
    from .helpers import Refile
    from .helpers import foreign as _fg
    _fg(chk, c13.run, Refile(chk, {'C13.table': 'C03.opener'}), ctx)
    chk.floor('C03.opener', 5)
    # "the pot-sized raise": the size of the pot is every bet on the table plus the whole amount of every pot (rake included)
    from .c01 import _pots
    from .helpers import foreign
    foreign(chk, _pots, Refile(chk, {'C01.pots': 'C03.pot_size'}, only=lambda r, c: c in ('State.total_pot_amount', 'Pot.amount')), ctx)
    chk.floor('C03.pot_size', 2)
    _amounts(chk, ctx)
    _max_amount(chk, ctx)
    _refusals(chk, ctx)
    _range(chk, ctx)
    _fold(chk, ctx)
    _simple_verifiers(chk, ctx)
    _raise_effects(chk, ctx)
    _setup_round(chk, ctx)
    _effective_stack(chk, ctx)
    _simple_effects(chk, ctx)
    _turn(chk, ctx)
    from .cover import all_in_rule
    all_in_rule(chk, ctx)


def _cmp_returns(chk, ctx, rule, name, cases, detail):
    """cases: list of (required condition terms, expected value term)"""
    fi = ctx.sfi(name)
    rets = [(c, canon_actor(r)) for c, r in returns_of(ctx, name)]
    rets = [([canon_actor(x) for x in c], r) for c, r in rets]
    ok = True
    used = set()
    why = []
    for need, want in cases:
        hit = [(c, r) for c, r in rets if all(n in c for n in need)]
        if not hit:
            ok = False
            why.append(f'no return path under {[T.show(n) for n in need]}')
            continue
        for c, r in hit:
            used.add(T.key((tuple(c), r)))
            if r != want:
                ok = False
                why.append(f'under {[T.show(n) for n in need]}: got {T.show(r)}')
    extra = [(c, r) for c, r in rets if T.key((tuple(c), r)) not in used]
    if extra:
        ok = False
        why.append(f'{len(extra)} return path(s) outside the rule: {T.show(extra[0][1])}')
    chk.ob(rule, f'State.{name}', ok, fi.loc, detail, got='; '.join(why) or 'matches on every path',
           want=' | '.join(T.show(w) for _, w in cases))


def _amounts(chk, ctx) -> None:
    _cmp_returns(chk, ctx, 'C03.S1', 'checking_or_calling_amount',
                 [([], sp('min(self.stacks[A], max(self.bets) - self.bets[A])'))],
                 'a check/call costs min(stack, amount to match)')
    _cmp_returns(chk, ctx, 'C03.S2', 'effective_bring_in_amount',
                 [([], sp('min(self.stacks[A], self.bring_in)'))],
                 'the bring-in costs min(stack, bring-in)')
    base = 'max(self.completion_betting_or_raising_amount, self.street.min_completion_betting_or_raising_amount)'
    cs = sp('self.completion_status', boolean=True)
    _cmp_returns(chk, ctx, 'C03.S3', 'min_completion_betting_or_raising_to_amount',
                 [([cs], sp(f'min(self.get_effective_stack(A) + self.bets[A], {base})')),
                  ([T.mk_not(cs)], sp(f'min(self.get_effective_stack(A) + self.bets[A], {base} + max(self.bets))'))],
                 'minimum raise-to = the larger of the street minimum and the largest raise so far, on top of the current bet '
                 '(a completion of the bring-in is to the bet size itself), or all-in for less')
    _pot_sized(chk, ctx)


def _pot_sized(chk, ctx, rule='C03.S4') -> None:
    _cmp_returns(chk, ctx, rule, 'pot_completion_betting_or_raising_to_amount',
                 [([], sp('min(self.stacks[A] + self.bets[A], max(self.min_completion_betting_or_raising_to_amount, '
                          '2 * max(self.bets) - self.bets[A] + self.total_pot_amount))'))],
                 'pot-sized raise-to = call first, then raise by the pot: 2*max bet - own bet + total pot (at least the minimum, at most all-in)')


def _max_amount(chk, ctx) -> None:
    name = 'max_completion_betting_or_raising_to_amount'
    fi = ctx.sfi(name)
    want = {
        'FIXED_LIMIT': sp('self.min_completion_betting_or_raising_to_amount'),
        'POT_LIMIT': sp('self.pot_completion_betting_or_raising_to_amount'),
        'NO_LIMIT': sp('self.stacks[A] + self.bets[A]'),
    }
    got = {}
    from ..phases import conjuncts
    for c, r in returns_of(ctx, name):
        for x in [y for z in c for y in conjuncts(z)]:
            if x[0] == 'eq':
                for side in x[1]:
                    if side[0] == 'attr' and side[1] == ('name', 'BettingStructure'):
                        other = [y for y in x[1] if y != side][0]
                        if other == ('self', 'betting_structure'):
                            got[side[2]] = canon_actor(r)
    chk.ob('C03.S5', f'State.{name}', got == want, fi.loc,
           'maximum raise-to: exactly the minimum in fixed-limit, the pot-sized raise in pot-limit, the whole stack in no-limit',
           got={k: T.show(v) for k, v in got.items()}, want={k: T.show(v) for k, v in want.items()})
    from .c08 import exhaustive_default_raises
    ex = exhaustive_default_raises(ctx.prog, fi)
    chk.ob('C03.S5', f'State.{name}:exhaustive', bool(ex), fi.loc, 'the match over the betting structure covers every member')


def _refusals(chk, ctx) -> None:
    name = '_verify_completion_betting_or_raising'
    fi = ctx.sfi(name)
    i = ('elem', ('self', 'player_indices'))
    consec = 'self.consecutive_all_in_completion_betting_or_raising_amounts'
    want = {
        'no actor': sp('not self.actor_indices', True),
        'cap reached': sp('self.completion_betting_or_raising_count == self.street.max_completion_betting_or_raising_count', True),
        'short all-in to a player who already acted': sp(
            f'{consec} and sum({consec}) < self.completion_betting_or_raising_amount and A in self.acted_player_indices', True),
        'covered (cannot even call)': sp('self.stacks[A] <= max(self.bets) - self.bets[A]', True),
    }
    other = sp('i != A and self.statuses[i] and self.stacks[i] + self.bets[i] > max(self.bets)', True, i=i)
    got = []
    saw_nobody = False
    for exc, last, cs, p in raise_guards(ctx, name):
        if exc != 'ValueError':
            got.append(('?', exc))
            continue
        # the for-else arm: raised after the loop found no opponent who can still call more
        loops = [e for e in p.events if e.kind == 'loop']
        if loops:
            entered = any(e.op == 'enter' for e in loops)
            if entered:
                saw_nobody |= T.mk_not(other) in cs
            continue
        got.append(last)
    got_set = {T.key(g) for g in got}
    want_set = {T.key(w) for w in want.values()}
    missing = [k for k, w in want.items() if T.key(w) not in got_set]
    extra = [T.show(g) for g in got if T.key(g) not in want_set]
    chk.ob('C03.S6', f'State.{name}:refusals', not missing and not extra, fi.loc,
           'a bet/raise is refused exactly when: nobody to act, the per-street cap is reached, an already-acted player faces only short all-ins, '
           'or the player cannot even call', got=f'missing: {missing}; unexpected: {extra}' if (missing or extra) else 'the four refusal rules')
    # break condition of the scan
    brk = False
    unscanned = 0
    for p in ctx.paths(fi):
        if p.raised:
            continue
        if any(e.kind == 'loop' and e.op == 'break' for e in p.events) and other in conds_of(p):
            brk = True
        else:
            unscanned += 1          # a way to accept the bet / raise that never found an opponent who can call more
    chk.ob('C03.S6', f'State.{name}:somebody_can_call', saw_nobody and brk and not unscanned, fi.loc,
           'a bet/raise is refused when no other live player has chips beyond the current bet, and allowed only once one such player is found',
           got=f'refusal path under the negated test: {saw_nobody}; accepting path under the test: {brk}; accepting paths without it: {unscanned}',
           want=T.show(other))
    # order: the cap and short-all-in rules read the state of the round, not the amount
    chk.floor('C03.S6', 2)


def _range(chk, ctx) -> None:
    name = 'verify_completion_betting_or_raising_to'
    fi = ctx.sfi(name)
    mn, mx = sp('self.min_completion_betting_or_raising_to_amount'), sp('self.max_completion_betting_or_raising_to_amount')
    amt = ('name', 'amount')
    ok_low = ok_high = ok_default = ok_ret = False
    ok_default = Every()
    stray = []
    for p in ctx.paths(fi):
        cs = conds_of(p)
        is_none = T.cmp('Is', amt, ('const', None)) in cs
        a = mn if is_none else amt
        if p.raised:
            low = T.cmp('Lt', a, mn) in cs and not is_none
            high = T.cmp('Gt', a, mx) in cs and T.mk_not(T.cmp('Lt', a, mn)) in cs and not is_none
            ok_low |= low
            ok_high |= high
            if not (low or high) and not is_none:
                stray.append('an amount is refused for a reason other than being below the minimum or above the maximum')
        elif p.returned:
            r = canon_actor(unversion(p.outcome[1]))
            if is_none:
                ok_default.see(r == mn)
            else:
                good = r == amt and T.mk_not(T.cmp('Lt', amt, mn)) in cs and T.mk_not(T.cmp('Gt', amt, mx)) in cs
                ok_ret |= good
                if not good:
                    stray.append('an amount is accepted on a path that did not compare it with both the minimum and the maximum')
    ok_ret = ok_ret and not stray
    first = fi.body[0] if fi.body else None
    pre = isinstance(first, ast.Expr) and isinstance(first.value, ast.Call) and self_attr(first.value.func) == '_verify_completion_betting_or_raising'
    chk.ob('C03.S7', f'State.{name}', ok_low and ok_high and ok_default and ok_ret and pre, fi.loc,
           'no amount means the minimum; an amount below the minimum or above the maximum is refused; anything in between is accepted as given',
           got=f'admissibility first: {pre}; below-min refused: {ok_low}; above-max refused: {ok_high}; default=min: {ok_default}; in-range returned unchanged: {ok_ret}')


def _fold(chk, ctx) -> None:
    name = 'verify_folding'
    fi = ctx.sfi(name)
    no_reason = sp('self.bets[A] >= max(self.bets)', True)
    tour = sp('self.mode == Mode.TOURNAMENT', True)
    g = {T.key(last): (exc, cs) for exc, last, cs, p in raise_guards(ctx, name)}
    ok_actor = T.key(sp('not self.actor_indices', True)) in g
    ok_bring = T.key(sp('self.bring_in_status', True)) in g
    ok_tour = any(exc == 'ValueError' and no_reason in cs and tour in cs for exc, cs in g.values())
    ok_warn = False
    ok_free = False
    for p in ctx.paths(fi):
        if p.raised:
            continue
        cs = conds_of(p)
        warned = any(c.value == ('name', 'warn') for c in p.calls())
        if no_reason in cs:
            ok_warn |= warned and T.mk_not(tour) in cs
            if not warned:
                ok_tour = False
        elif T.mk_not(no_reason) in cs:
            ok_free |= not warned
    chk.ob('C03.S8', f'State.{name}', ok_actor and ok_bring and ok_tour and ok_warn and ok_free, fi.loc,
           'folding needs an actor and no pending bring-in; folding without facing a bet is refused in tournaments and warned about in cash games',
           got=f'no actor: {ok_actor}; bring-in pending: {ok_bring}; tournament refusal: {ok_tour}; cash-game warning: {ok_warn}; facing a bet is free: {ok_free}')


def _simple_verifiers(chk, ctx) -> None:
    want = {
        'verify_checking_or_calling': [sp('not self.actor_indices', True), sp('self.bring_in_status', True)],
        'verify_bring_in_posting': [sp('not self.actor_indices', True), sp('not self.bring_in_status', True)],
    }
    for name, ws in want.items():
        got = [last for exc, last, cs, p in raise_guards(ctx, name) if exc == 'ValueError']
        ok = {T.key(x) for x in got} == {T.key(w) for w in ws}
        chk.ob('C03.S8', f'State.{name}', ok, ctx.sfi(name).loc,
               'check/call needs an actor and no pending bring-in; the bring-in can be posted only while it is pending',
               got=[T.show(x) for x in got], want=[T.show(w) for w in ws])


def _raise_effects(chk, ctx) -> None:
    name = 'complete_bet_or_raise_to'
    fi = ctx.sfi(name)
    amt = canon_actor(T.spec('self.verify_completion_betting_or_raising_to(amount)'))
    inc = T.add(amt, sp('max(self.bets)'), -1)
    cbra = ('self', 'completion_betting_or_raising_amount')
    consec = ('self', 'consecutive_all_in_completion_betting_or_raising_amounts')
    facts = {k: False for k in ('increment', 'flags', 'opener', 'full_raise_reopens', 'running_max', 'count', 'all_in_bookkeeping',
                                'queue_from_next', 'queue_drops_out_or_broke')}
    bad = []
    n = 0
    for p in ctx.paths(fi):
        if not p.returned:
            continue
        n += 1
        ws = p.writes()
        cs = conds_of(p)

        def w(attr):
            return [e for e in ws if T.root_self_attr(e.term) == attr]
        sets = {a: [canon_actor(unversion(e.value)) for e in w(a) if e.op == 'set'] for a in
                ('bring_in_status', 'completion_status', 'opener_index', 'completion_betting_or_raising_amount', 'actor_indices')}
        facts['flags'] = sets['bring_in_status'] == [('const', False)] and sets['completion_status'] == [('const', False)]
        facts['opener'] = sets['opener_index'] == [A]
        facts['running_max'] = sets['completion_betting_or_raising_amount'] == [T.minmax('max', (cbra, inc))]
        facts['increment'] = facts['running_max']
        cnt = [e for e in w('completion_betting_or_raising_count')]
        facts['count'] = len(cnt) == 1 and cnt[0].op == '+=' and cnt[0].value == T.num(1)
        # full raise re-opens the action: acted = {A}
        acted = w('acted_player_indices')
        full = T.cmp('GtE', inc, cbra)
        if full in cs:
            ops = [(e.op, canon_actor(unversion(e.value))) for e in acted if e.lineno > 0]
            tail = ops[-2:]
            if tail == [('call:clear', ('tuple', ())), ('call:add', ('tuple', (A,)))]:
                facts['full_raise_reopens'] = True
            else:
                bad.append('a full raise does not reset the acted set to the raiser')
        elif T.mk_not(full) in cs:
            late = [e for e in acted if e.op in ('call:clear',)]
            if late:
                bad.append('a short raise clears the acted set')
        else:
            bad.append('no full-raise test (increment >= largest raise so far)')
        # all-in bookkeeping: reads the stack AFTER the wager
        cw = w('consecutive_all_in_completion_betting_or_raising_amounts')
        post_stack = [c for c in p.conds() if T.mentions(c, lambda s: isinstance(s, tuple) and s[:2] == ('selfv', 'stacks'))]
        has_chips = [canon_actor(unversion(c)) for c in post_stack]
        st = sp('self.stacks[A]', True)
        if st in has_chips:
            ok = [e.op for e in cw] == ['call:clear']
        elif T.mk_not(st) in has_chips:
            ok = [(e.op, canon_actor(unversion(e.value))) for e in cw] == [('call:append', ('tuple', (inc,)))]
        else:
            ok = False
        if ok:
            facts['all_in_bookkeeping'] = True
        else:
            bad.append('consecutive all-in raises are not tracked by the stack left after the wager')
        # the queue: everybody after the raiser ...
        q = sets['actor_indices']
        rot = [canon_actor(unversion(e.value)) for e in w('actor_indices') if e.op == 'call:rotate']
        popl = [e for e in w('actor_indices') if e.op == 'call:popleft']
        if q == [sp('deque(self.player_indices)')] and rot[:1] == [('tuple', (T.neg(A),))] and len(popl) >= 1:
            facts['queue_from_next'] = True
    # ... minus those who are out or have no chips
    i = ('elem', ('self', 'player_indices'))
    drop = sp('not self.statuses[i] or not self.stacks[i]', True, i=i)
    for p in ctx.paths(fi):
        for e in p.writes():
            if T.root_self_attr(e.term) == 'actor_indices' and e.op == 'call:remove':
                cs = [canon_actor(unversion(c)) for c in p.conds()]
                if drop in cs and e.value == ('tuple', (i,)):
                    facts['queue_drops_out_or_broke'] = True
    missing = [k for k, v in facts.items() if not v]
    chk.ob('C03.S9', f'State.{name}', not missing and not bad and n > 0, fi.loc,
           'after a bet/raise: increment = amount - current bet; bring-in/completion flags cleared; raiser becomes opener; a full raise '
           '(>= largest so far) re-opens the action for everybody, a short one does not; largest raise is a running maximum; count += 1; '
           'consecutive all-in raises are accumulated; everybody after the raiser who is in and has chips acts again',
           got=f'missing: {missing}; problems: {sorted(set(bad))}' if (missing or bad) else 'all nine effects')


def _setup_round(chk, ctx) -> None:
    name = '_begin_betting'
    fi = ctx.sfi(name)
    i = ('elem', ('self', 'player_indices'))
    drop = sp('not self.statuses[i] or not self.stacks[i] or not self.get_effective_stack(i)', True, i=i)
    ok_q = ok_rot = ok_drop = ok_reset = ok_end = ok_bring = False
    ok_bring = Every()
    ok_rot = Every()
    ok_drop = Every()
    ok_q = Every()
    ok_end = Every()
    for p in ctx.paths(fi):
        if p.raised:
            continue
        ws = p.writes()
        for e in ws:
            r = T.root_self_attr(e.term)
            v = unversion(e.value)
            if r == 'actor_indices' and e.op == 'set':
                ok_q.see(v == T.spec('deque(self.player_indices)'))
            if r == 'actor_indices' and e.op == 'call:rotate':
                ok_rot.see(v == ('tuple', (T.neg(('self', 'opener_index')),)))
            if r == 'actor_indices' and e.op == 'call:remove':
                cs = [unversion(c) for c in p.conds()]
                ok_drop.see(drop in cs and v == ('tuple', (i,)))
            if r == 'bring_in_status' and e.op == 'set':
                ok_bring.see(v == T.spec('self.street is self.streets[0] and self.bring_in > 0', boolean=True))
        resets = {T.root_self_attr(e.term): (e.op, unversion(e.value)) for e in ws}
        ok_reset = resets.get('completion_betting_or_raising_amount') == ('set', T.num(0)) \
            and resets.get('completion_betting_or_raising_count') == ('set', T.num(0)) \
            and resets.get('acted_player_indices', ('', ''))[0] == 'call:clear' \
            and resets.get('consecutive_all_in_completion_betting_or_raising_amounts', ('', ''))[0] == 'call:clear' \
            and resets.get('completion_status') == ('set', ('self', 'bring_in_status'))
        for c in p.calls():
            if c.value == ('self', '_update_betting'):
                kw = dict(unversion(c.term)[4])
                want_end = T.spec('len(self.actor_indices) == 1 and self.bets[self.actor_indices[0]] >= max(self.bets)', boolean=True)
                k = p.events.index(c)
                before = [unversion(x.term) for x in p.events[:k] if x.kind == 'assume']
                got_end = kw.get('status')
                ok_end.see(got_end == want_end or (got_end is not None and T.truthy(got_end) == T.under(want_end, before)))
    chk.ob('C03.S10', f'State.{name}', all((ok_q, ok_rot, ok_drop, ok_reset, ok_end, ok_bring)), fi.loc,
           'a round starts with everybody from the opener clockwise, minus players who are out, have no chips, or cannot be called by anybody; '
           'it ends at once iff the only actor has already matched; raise bookkeeping is reset; the bring-in is due on the first street only',
           got=f'queue={ok_q} rotated_by_opener={ok_rot} dropped={ok_drop} reset={ok_reset} immediate_end={ok_end} bring_in={ok_bring}')
    up = ctx.sfi('_update_betting')
    end = sp('not self.actor_indices or sum(self.statuses) <= 1 or status', True)
    ok = any(end in conds_of(p) and any(c.value == ('self', '_end_betting') for c in p.calls()) for p in ctx.paths(up)) and \
        all(not any(c.value == ('self', '_end_betting') for c in p.calls()) for p in ctx.paths(up) if T.mk_not(end) in conds_of(p))
    chk.ob('C03.S11', 'State._update_betting', ok, up.loc,
           'a betting round ends when nobody is left to act, at most one player is still in, or the set-up said so - and only then', want=T.show(end))
    eb = ctx.sfi('_end_betting')
    clears = any(e.op == 'call:clear' and T.root_self_attr(e.term) == 'actor_indices' for p in ctx.paths(eb) for e in p.writes())
    chk.ob('C03.S11', 'State._end_betting', clears, eb.loc, 'when the round ends nobody is left in the queue')


def _effective_stack(chk, ctx) -> None:
    name = 'get_effective_stack'
    fi = ctx.sfi(name)
    p_ = ('name', 'player_index')
    zero_when = T.spec('self.street_index is None or not self.statuses[player_index]', boolean=True)
    ok_zero = ok_val = ok_live = False
    ok_zero = Every()
    for p in ctx.paths(fi):
        if not p.returned:
            continue
        cs = [unversion(c) for c in p.conds()]
        r = unversion(p.outcome[1])
        if zero_when in cs:
            ok_zero.see(r == T.num(0))
        elif T.mk_not(zero_when) in cs or all(x in cs for x in T.mk_not(zero_when)[1] if T.mk_not(zero_when)[0] == 'and'):
            shape = r[0] == 'min' and ('sub', ('self', 'stacks'), p_) in r[1]
            rest = [x for x in r[1] if x != ('sub', ('self', 'stacks'), p_)] if shape else []
            if shape and len(rest) == 1 and rest[0][0] == 'max' and T.num(0) in rest[0][1]:
                inner = [x for x in rest[0][1] if x != T.num(0)]
                if len(inner) == 1 and inner[0][0] == 'lin':
                    d = dict(inner[0][1])
                    second = [a for a, v in d.items() if v == 1 and a[0] == 'sub' and a[2] == T.num(-2)]
                    ok_val |= bool(second) and d.get(('sub', ('self', 'bets'), p_)) == -1 and len(d) == 2
        for e in p.events:
            if e.kind == 'call' and e.term[0] == 'mcall' and e.term[2] == 'append':
                i = ('elem', ('self', 'player_indices'))
                ok_live |= e.term[3] == (T.spec('self.bets[i] + self.stacks[i]', {'i': i}),) and T.spec('self.statuses[i]', {'i': i}, boolean=True) in cs
    sort = any(isinstance(n, ast.Call) and isinstance(n.func, ast.Attribute) and n.func.attr == 'sort' and not n.keywords for n in ast.walk(fi.node)) or \
        any(isinstance(n, ast.Call) and isinstance(n.func, ast.Name) and n.func.id == 'sorted' and not n.keywords for n in ast.walk(fi.node))
    chk.ob('C03.S12', f'State.{name}', ok_zero and ok_val and ok_live and sort, fi.loc,
           'effective stack = min(own stack, max(0, second largest (bet + stack) among live players - own bet)); 0 when out of the hand',
           got=f'zero when out: {ok_zero}; min/max shape over the second largest: {ok_val}; over live players bet+stack: {ok_live}; ascending sort: {sort}')


def _simple_effects(chk, ctx) -> None:
    for name, prop in (('check_or_call', 'checking_or_calling_amount'), ('post_bring_in', 'effective_bring_in_amount')):
        fi = ctx.sfi(name)
        ok = True
        n = 0
        for p in ctx.paths(fi):
            if not p.returned:
                continue
            n += 1
            bw = [e for e in p.writes() if T.root_self_attr(e.term) == 'bets']
            ok &= len(bw) == 1 and bw[0].op == '+=' and canon_actor(unversion(bw[0].value)) == ('self', prop) \
                and canon_actor(unversion(bw[0].term)) == ('sub', ('self', 'bets'), A)
            # the amount is read before the actor is popped
            idx = [k for k, e in enumerate(p.events) if e.kind == 'call' and e.value == ('self', '_pop_actor_index')]
            ok &= len(idx) == 1
            if name == 'post_bring_in':
                fl = [e for e in p.writes() if T.root_self_attr(e.term) == 'bring_in_status']
                ok &= len(fl) == 1 and fl[0].value == ('const', False)
                ok &= not any(T.root_self_attr(e.term) == 'completion_status' for e in p.writes())
        chk.ob('C03.S13', f'State.{name}', ok and n > 0, fi.loc,
               'the actor at the head of the queue pays exactly the advertised amount into his bet'
               + ('; the bring-in is then no longer due but may still be completed' if name == 'post_bring_in' else ''))
    # a betting action never decides by itself that the round is over: only the round's own end test (S11) does - the update step
    # is handed the record and nothing else (the pre-decided end is for the set-up of a round nobody can act in)
    for name in ('fold', 'check_or_call', 'post_bring_in', 'complete_bet_or_raise_to'):
        fi = ctx.sfi(name)
        ups = [c for p in ctx.paths(fi) if p.returned for c in p.calls() if c.value == ('self', '_update_betting')]
        ok = bool(ups) and all(len(c.term[3]) == 1 and not c.term[4] for c in ups)
        chk.ob('C03.S11', f'State.{name}:no_early_end', ok, fi.loc,
               'the action hands the round on with its record only: whether the round is over is decided by the end test of the round, '
               'not by the action (a round ends only when everybody has responded)')
    pa = ctx.sfi('_pop_actor_index')
    ok = any(e.op == 'call:add' and T.root_self_attr(e.term) == 'acted_player_indices' and unversion(e.value) == ('tuple', (T.spec('self.actor_indices.popleft()'),))
             for p in ctx.paths(pa) for e in p.writes())
    chk.ob('C03.S13', 'State._pop_actor_index', ok, pa.loc, 'whoever acts is remembered as having acted (short all-in rule)')
    fo = ctx.sfi('fold')
    ok = all(any(c.value == ('self', '_pop_actor_index') for c in p.calls()) for p in ctx.paths(fo) if p.returned)
    chk.ob('C03.S13', 'State.fold', ok, fo.loc, 'a fold is made by the actor at the head of the queue')


def _turn(chk, ctx) -> None:
    fi = ctx.sfi('turn_index')
    order = ['stander_pat_or_discarder_index', 'actor_index', 'showdown_index']
    got = {}
    for p in ctx.paths(fi):
        if not p.returned:
            continue
        r = unversion(p.outcome[1])
        cs = [unversion(c) for c in p.conds()]
        got[T.show(r)] = cs
    ok = True
    for k, name in enumerate(order):
        cs = got.get(f'self.{name}')
        if cs is None:
            ok = False
            continue
        for earlier in order[:k]:
            ok &= T.cmp('Is', ('self', earlier), ('const', None)) in cs
        ok &= T.cmp('IsNot', ('self', name), ('const', None)) in cs
    none = got.get('None')
    ok &= none is not None and all(T.cmp('Is', ('self', n), ('const', None)) in none for n in order)
    chk.ob('C03.turn', 'State.turn_index', ok, fi.loc,
           'whose turn: the drawing player, else the betting actor, else the player to show', got=sorted(got))
    end = ctx.sfi('_end_betting')
    # all-in detection
    ok = False
    for p in ctx.paths(end):
        cs = [unversion(c) for c in p.conds()]
        for e in p.writes():
            if T.root_self_attr(e.term) == 'all_in_status' and e.value == ('const', True):
                if T.spec('count <= 1', boolean=True) is not None:
                    ok = True
    chk.ob('C03.turn', 'State._end_betting:all_in', ok, end.loc, 'the hand is marked all-in when at most one live player has chips left')
