"""Small helpers of pokerkit.utilities that several properties lean on; each rule is filed under the
property that depends on the helper."""
from __future__ import annotations

from .. import terms as T
from ..model import AnalysisError
from ..paths import unversion


def _rets(ctx, fi):
    out = []
    for p in ctx.paths(fi):
        if p.returned:
            out.append((p, unversion(p.outcome[1]) if p.outcome[1] is not None else None))
    return out


def extremum_helpers(chk, ctx, rule):
    """min_or_none / max_or_none: the extremum of the non-None values, None when there are none"""
    mi = ctx.prog.module('utilities')
    for name, f in (('min_or_none', 'min'), ('max_or_none', 'max')):
        fi = mi.functions.get(name)
        if fi is None:
            raise AnalysisError(f'utilities.{name} vanished')
        rs = _rets(ctx, fi)
        main = [r for p, r in rs if not any(e.kind == 'exc' for e in p.events)]
        exc = [r for p, r in rs if any(e.kind == 'exc' for e in p.events)]
        want = T.spec(f'{f}(filter_none(values), key=key)')
        ok = main == [want] and exc == [('const', None)]
        chk.ob(rule, f'utilities.{name}', ok, fi.loc, f'{name} is the {f}imum of the values that are not None (None when there are none)',
               got=[T.show(r) for r in main], want=T.show(want))
    fi = mi.functions.get('filter_none')
    rs = [r for _, r in _rets(ctx, fi)] if fi else []
    chk.ob(rule, 'utilities.filter_none', rs == [T.spec('filter(partial(is_not, None), values)')], fi.loc if fi else 'pokerkit/utilities.py',
           'filter_none drops exactly the None values (a weakest hand or a zero is kept)', got=[T.show(r) for r in rs])


def sign_helper(chk, ctx, rule):
    fi = ctx.prog.module('utilities').functions.get('sign')
    if fi is None:
        raise AnalysisError('utilities.sign vanished')
    got = {}
    for p, r in _rets(ctx, fi):
        cs = [unversion(c) for c in p.conds()]
        got[T.show(r)] = cs
    v = ('name', 'value')
    ok = T.cmp('Gt', v, T.num(0)) in got.get('1', []) and T.cmp('Lt', v, T.num(0)) in got.get('-1', []) \
        and T.mk_not(T.cmp('Gt', v, T.num(0))) in got.get('0', []) and T.mk_not(T.cmp('Lt', v, T.num(0))) in got.get('0', [])
    chk.ob(rule, 'utilities.sign', ok, fi.loc, 'sign(x) is 1 for x > 0, -1 for x < 0, 0 for 0 (a late post is a negative blind)', got=sorted(got))


def known_card_helpers(chk, ctx, rule):
    """filter(None, cards) keeps exactly the known cards: Card.__bool__ = not unknown, unknown = rank or suit unknown"""
    card = ctx.prog.cls('Card')
    b = card.methods.get('__bool__')
    u = card.methods.get('unknown_status')
    rb = [r for _, r in _rets(ctx, b)] if b else []
    ru = [r for _, r in _rets(ctx, u)] if u else []
    chk.ob(rule, 'Card.__bool__', rb == [T.spec('not self.unknown_status', boolean=True)], b.loc if b else card.loc,
           'a card is truthy exactly when it is known (so filter(None, cards) keeps the known cards)', got=[T.show(r) for r in rb])
    chk.ob(rule, 'Card.unknown_status', ru == [T.spec('self.rank == Rank.UNKNOWN or self.suit == Suit.UNKNOWN', boolean=True)], u.loc if u else card.loc,
           'a card is unknown when its rank or its suit is unknown', got=[T.show(r) for r in ru])


def shuffled_helper(chk, ctx, rule):
    fi = ctx.prog.module('utilities').functions.get('shuffled')
    if fi is None:
        raise AnalysisError('utilities.shuffled vanished')
    ok = False
    ok = Every()
    for p in ctx.paths(fi):
        if p.returned:
            r = unversion(p.outcome[1])
            calls = [unversion(c.term) for c in p.calls() if c.value == ('name', 'shuffle')]
            ok.see(r == T.spec('list(values)') and calls == [('call', 'shuffle', (r,), ())])
    chk.ob(rule, 'utilities.shuffled', ok, fi.loc, 'shuffled() returns a shuffled copy with exactly the given elements (a permutation: nothing added or dropped)')


def rotated_helper(chk, ctx, rule):
    fi = ctx.prog.module('utilities').functions.get('rotated')
    if fi is None:
        raise AnalysisError('utilities.rotated vanished')
    ok = False
    ok = Every()
    for p in ctx.paths(fi):
        if p.returned:
            r = unversion(p.outcome[1])
            rot = [unversion(c.term) for c in p.calls() if c.term[0] == 'mcall' and c.term[2] == 'rotate']
            ok.see(r == T.spec('deque(values)') and rot == [('mcall', r, 'rotate', (('name', 'count'),), ())])
    chk.ob(rule, 'utilities.rotated', ok, fi.loc, 'rotated(values, n) is the same elements rotated by n')


class Refile:
    """runs a rule family of one property under the rule names of another property that states the same clause
    (e.g. the amounts of C02 are the pot arithmetic of C01); floors of the original family are not re-registered"""

    def __init__(self, chk, mapping: dict, only=None):
        self.chk = chk
        self.mapping = mapping
        self.only = only

    def _name(self, rule):
        for src, dst in self.mapping.items():
            if rule == src or rule.startswith(src + ':'):
                return dst + rule[len(src):]
        return None

    def ob(self, rule, construct, *a, **k):
        new = self._name(rule)
        if new is None or (self.only is not None and not self.only(rule, construct)):
            return True
        return self.chk.ob(new, construct, *a, **k)

    def floor(self, rule, n):
        return None

    def __getattr__(self, name):
        return getattr(self.chk, name)


def sign_helper(chk, ctx, rule) -> None:
    """utilities.sign: 1 for positive, -1 for negative, 0 for zero (late posts are told from blinds by the sign)"""
    from .. import terms as T
    fi = ctx.prog.func('utilities.sign')
    got = {}
    for p in ctx.paths(fi):
        if p.returned:
            got.setdefault(p.outcome[1], []).append(frozenset(p.conds()))
    pos, neg = T.spec('value > 0', boolean=True), T.spec('value < 0', boolean=True)
    ok = set(got) == {('num', 1), ('num', -1), ('num', 0)} \
        and all(pos in c for c in got[('num', 1)]) and all(neg in c for c in got[('num', -1)]) \
        and all(T.mk_not(pos) in c and T.mk_not(neg) in c for c in got[('num', 0)])
    chk.ob(rule, 'utilities.sign', ok, fi.loc, 'sign(x) is 1 exactly for x > 0, -1 exactly for x < 0, else 0',
           got={T.show(k): [sorted(T.show(x) for x in c) for c in v] for k, v in got.items()})


def rotated_helper(chk, ctx, rule) -> None:
    """utilities.rotated: a deque of the values, rotated by count"""
    from .. import terms as T
    from ..paths import unversion
    fi = ctx.prog.func('utilities.rotated')
    ok = False
    ok = Every()
    for p in ctx.paths(fi):
        if not p.returned:
            continue
        r = unversion(p.outcome[1])
        rot = [e for e in p.events if e.kind == 'call' and e.term[0] == 'mcall' and e.term[2] == 'rotate']
        ok.see(r == T.spec('deque(values)') and len(rot) == 1 and unversion(rot[0].term[1]) == r and rot[0].term[3] == (('name', 'count'),))
    chk.ob(rule, 'utilities.rotated', ok, fi.loc, 'rotated(values, n) returns deque(values) rotated by exactly n (seat order starts after the button)')


def parse_value_helper(chk, ctx, rule) -> None:
    """utilities.parse_value: int when the text is one, otherwise an exact Decimal; thousands separators dropped - always, whatever the
    text looks like (a comma is never a decimal point: "$1,500" is fifteen hundred)"""
    from .. import terms as T
    from ..paths import unversion
    mi = ctx.prog.module('utilities')
    pv = mi.functions.get('parse_value')
    ok = False
    got = []
    if pv is not None:
        stripped = T.spec("raw_value.replace(',', '')")
        heads = set()
        ok = True
        for p in ctx.paths(pv):
            if not p.returned:
                continue
            r = unversion(p.outcome[1])
            if r[0] == 'call' and r[1] == 'cast' and len(r[2]) == 2:
                r = r[2][1]
            got.append(T.show(r))
            if r[0] == 'call' and r[1] in ('int', 'Decimal') and r[2] == (stripped,) and not p.conds():
                heads.add(r[1])
            else:
                ok = False
        ok = ok and heads == {'int', 'Decimal'}
        # int first, Decimal only when int() refuses the text
        import ast
        ok = ok and any(isinstance(n, ast.Try) and 'int(' in ast.unparse(n.body) and 'Decimal(' not in ast.unparse(n.body)
                        and any('Decimal(' in ast.unparse(h) for h in n.handlers) for n in ast.walk(pv.node))
    chk.ob(rule, 'utilities.parse_value', ok, pv.loc if pv else 'pokerkit/utilities.py',
           'chip text is an int when it can be, otherwise an exact Decimal (so `inf`, exponents and fractions written by the dumper '
           'read back); thousands separators are always ignored', got=sorted(set(got)))


def no_format_specs(chk, ctx, rule, fis) -> None:
    """the writers put numbers into text as they are: no f-string format specification / conversion, no '%' or .format() with a
    precision, no int()/round() around a written amount - any of them rounds, truncates or switches to exponent notation"""
    import ast
    for fi in fis:
        bad = []
        for n in ast.walk(fi.node):
            if isinstance(n, ast.FormattedValue) and n.format_spec is not None \
                    and not (isinstance(n.value, ast.Call) and isinstance(n.value.func, ast.Name) and n.value.func.id == 'ord'):
                bad.append(ast.unparse(n)[:60])       # (the hex code of a character in an escape is not a chip amount)
            if isinstance(n, ast.Call) and isinstance(n.func, ast.Attribute) and n.func.attr == 'format' and isinstance(n.func.value, ast.Constant):
                bad.append(ast.unparse(n)[:60])
            if isinstance(n, ast.BinOp) and isinstance(n.op, ast.Mod) and isinstance(n.left, ast.Constant) and isinstance(n.left.value, str):
                bad.append(ast.unparse(n)[:60])
            # a number re-shaped on its way into the text: Decimal('2.00').normalize() is written 2 and read back as an int
            if isinstance(n, ast.Call) and isinstance(n.func, ast.Attribute) and n.func.attr in (
                    'normalize', 'quantize', 'to_integral', 'to_integral_value', 'to_integral_exact', 'as_integer_ratio', 'limit_denominator', '__round__'):
                bad.append(ast.unparse(n)[:60])
            if isinstance(n, ast.Call) and isinstance(n.func, ast.Name) and n.func.id in ('round', 'float', 'trunc', 'floor', 'ceil'):
                bad.append(ast.unparse(n)[:60])
        chk.ob(rule, f'{fi.qualname}:plain_numbers', not bad, fi.loc,
               'numbers are written into the text with str()/repr() semantics only (no format specification that could round or re-format them)',
               got=bad[:3])


def default_helpers(chk, ctx, rule, modules) -> None:
    """wherever ``divmod`` / ``rake`` are used as defaults (field defaults, keyword defaults) the names are the package's own helpers
    imported from pokerkit.utilities - a module that lost the import would silently fall back to the builtin ``divmod`` (integer
    floor division: fractional chips are destroyed) or fail on ``rake``"""
    import ast
    for mod in modules:
        mi = ctx.prog.module(mod)
        uses = set()
        for n in ast.walk(mi.tree):
            for d in (list(n.args.defaults) + [x for x in n.args.kw_defaults if x is not None]) if isinstance(n, (ast.FunctionDef, ast.Lambda)) else []:
                if isinstance(d, ast.Name) and d.id in ('divmod', 'rake'):
                    uses.add(d.id)
            if isinstance(n, (ast.AnnAssign, ast.Assign)) and isinstance(getattr(n, 'value', None), ast.Name) and n.value.id in ('divmod', 'rake'):
                uses.add(n.value.id)
        for name in sorted(uses):
            got = mi.imports.get(name)
            chk.ob(rule, f'{mod}:{name}', got == f'pokerkit.utilities.{name}', f'pokerkit/{mod}.py',
                   f'the default `{name}` of this module is pokerkit.utilities.{name} (not the builtin, not another function)', got=got)


def chip_literals(chk, ctx, rule) -> None:
    """chips may be int, Fraction, Decimal or float: every number the engine and its default helpers combine with an amount is an
    integer literal (exact under all of them) - one float literal or float() conversion makes Decimal and Fraction chips fail or drift"""
    import ast
    n = 0
    bad = []
    for mod in ('state', 'utilities', 'games'):
        mi = ctx.prog.module(mod)
        for node in ast.walk(mi.tree):
            if isinstance(node, ast.Constant) and isinstance(node.value, (int, float)) and not isinstance(node.value, bool):
                n += 1
                if isinstance(node.value, float):
                    bad.append((mod, node))
            elif isinstance(node, ast.Call) and isinstance(node.func, ast.Name) and node.func.id == 'float' and mod == 'state':
                bad.append((mod, node))
    chk.analysed['numeric_literals_examined'] = n
    chk.ob(rule, 'pokerkit:float_literals', not bad and n > 50, f'pokerkit/{bad[0][0]}.py:{bad[0][1].lineno}' if bad else 'pokerkit/',
           'the engine, the default division / rake and the variant definitions use integer literals only (exact for every chip type)',
           got=[f'{m}.py:{x.lineno}: {ast.unparse(x)}' for m, x in bad[:3]] or f'{n} literals')


def hand_history_defaults(chk, ctx, rule) -> None:
    """what a hand history means when a field is not written: antes are not trimmed (the PHH default), every optional field is absent
    (None) - a history that omits a field must not silently get another game"""
    import ast
    hh = ctx.prog.cls('HandHistory')
    got = {}
    for st in hh.node.body:
        if isinstance(st, ast.AnnAssign) and isinstance(st.target, ast.Name) and 'ClassVar' not in ast.unparse(st.annotation) and st.value is not None:
            got[st.target.id] = st.value
    d = got.get('ante_trimming_status')
    chk.ob(rule, 'HandHistory.ante_trimming_status:default', isinstance(d, ast.Constant) and d.value is False, hh.loc,
           'a history that does not say so is played with untrimmed antes', got=ast.unparse(d) if d is not None else None, want='False')
    from ..evalstatic import SEval
    opt = SEval(ctx.prog).class_attr('HandHistory', 'optional_field_names')
    special = {'ante_trimming_status', 'user_defined_fields', 'automations', 'divmod', 'rake', 'parse_value'}
    bad = sorted(k for k, v in got.items() if k not in special and not (isinstance(v, ast.Constant) and v.value is None))
    chk.ob(rule, 'HandHistory:optional_defaults', not bad and len(got) > 30 and isinstance(opt, tuple), hh.loc,
           'every optional field defaults to None (absent)', got=bad or f'{len(got)} defaults')


def resolved_types(chk, ctx, rule, module, want: dict) -> None:
    """the abstract types an isinstance dispatch names are the ones it means: an import under another name (``Real as Number``) keeps the
    code reading the same and changes which values take which arm (Decimal is a Number but not a Real)"""
    mi = ctx.prog.module(module)
    got = {k: mi.imports.get(k) for k in want}
    chk.ob(rule, f'{module}:types', got == want, f'pokerkit/{module}.py', 'the type names of the dispatch resolve to the abstract types they are named after',
           got={k: v for k, v in got.items() if v != want[k]} or 'all', want=want)


class StreetColumn:
    """the variant table of C11 (evaluated constructor chains of the predefined games), read for one column of the streets"""

    def __init__(self, chk, rule, suffix, col, detail):
        self.chk, self.rule, self.suffix, self.col, self.detail = chk, rule, suffix, col, detail

    def ob(self, rule, construct, ok, loc, detail='', got=None, want=None, **k):
        if rule == 'C11.table' and construct.endswith(':streets') and isinstance(got, list) and isinstance(want, list):
            g = [s[self.col] if isinstance(s, tuple) and len(s) > self.col else s for s in got]
            w = [s[self.col] for s in want]
            return self.chk.ob(self.rule, construct[:-len(':streets')] + ':' + self.suffix, g == w, loc, self.detail, got=g, want=w)
        return True

    def floor(self, rule, n):
        return None

    def note(self, *a, **k):
        return None

    def __getattr__(self, name):
        return getattr(self.chk, name)


class Every:
    """a verdict over all the places a clause applies to: true when there was at least one and every one of them was as prescribed
    (a verdict that is simply assigned in a loop is the verdict of whichever place came last - an added path or a second write
    could then hide behind a good one)"""

    def __init__(self):
        self.n = 0
        self.bad = 0

    def see(self, v) -> None:
        self.n += 1
        self.bad += 0 if v else 1

    def __bool__(self) -> bool:
        return self.n > 0 and self.bad == 0

    def __repr__(self) -> str:
        return str(bool(self))


def foreign(chk, fn, *args) -> None:
    """run a clause family that another property owns and that is re-filed here: when its anchors have moved (the owner reports that as
    its own analysis error) this property is judged by its own clauses only"""
    from ..model import AnalysisError
    try:
        fn(*args)
    except AnalysisError as ex:
        chk.note(f're-filed clauses of another property could not be evaluated and were skipped: {ex}')
        base = chk
        for a in args:
            if isinstance(a, Refile):
                base = a.chk
                while isinstance(base, Refile):
                    base = base.chk
                if not hasattr(base, 'skipped_rules'):
                    base.skipped_rules = set()
                base.skipped_rules.update(a.mapping.values())
