"""C12 - automatic mucking and hand killing never cost a player chips.

Decided statically: the default show/muck decision (show iff all-in or the
hand can win now), the kill set (= not can_win_now, live players only), that
can_win_now ranges over all boards x hand types x pots and accepts ties, that
it selects the best hand with the same expression as push_chips (sibling
agreement), the tournament constraints, and the showdown order.
Not decided: equality of payoffs with the show-everything twin (a relation
between runs).
"""
from __future__ import annotations

import ast

from .helpers import Every  # noqa: E402

from .. import terms as T
from ..model import AnalysisError, self_attr, walk_no_nested
from ..paths import unversion
from ..phases import conjuncts
from .c03 import raise_guards


def run(chk, ctx) -> None:
    from .helpers import extremum_helpers
    extremum_helpers(chk, ctx, 'C12.helpers')
    _default(chk, ctx)
    _kill(chk, ctx)
    _coverage(chk, ctx)
    _tournament(chk, ctx)
    _order(chk, ctx)
    from .cover import showing_components
    showing_components(chk, ctx)
    # before the last street (the street object itself, not one that compares equal: turn and river of hold'em are equal records) the
    # cards that were not named stay in the hand, face down
    from .c06 import _show_fill
    from .helpers import Refile as _Rf
    from .helpers import foreign
    foreign(chk, _show_fill, _Rf(chk, {'C06.show_fill': 'C12.show_flags'}), ctx)
    # "all hole cards to be shown": a card counts as shown only when both its rank and its suit are known
    from .helpers import Refile, known_card_helpers
    known_card_helpers(chk, ctx, 'C12.tournament')
    # "cannot win": hands are compared (best shown <= own) by the one order all hand types share
    from .c04 import _operators
    foreign(chk, _operators, Refile(chk, {'C04.operators': 'C12.coverage'}, only=lambda r, c: c.startswith('Hand')), ctx)
    # the player who showed or mucked - the one named, when one is named - is the one who leaves the queue of players still to show
    from .c08 import _applies_to, discovered
    _applies_to(Refile(chk, {'C08.applies_to': 'C12.order'}, only=lambda r, c: c == 'State.show_or_muck_hole_cards'), ctx, discovered(ctx))


def _default(chk, ctx) -> None:
    fi = ctx.sfi('verify_hole_cards_showing_or_mucking')
    none = T.spec('status_or_hole_cards is None', boolean=True)
    isbool = T.spec('isinstance(status_or_hole_cards, bool)', boolean=True)
    want = T.spec('self.all_in_status or self.can_win_now(P)', boolean=True)
    ok_default = ok_bool = False
    ok_bool = Every()
    ok_default = Every()
    got = None
    for p in ctx.paths(fi):
        if not p.returned:
            continue
        cs = [unversion(c) for c in p.conds(flat=True)]
        r = unversion(p.outcome[1])
        if r[0] != 'tuple':
            continue
        status, pi = r[1][0], r[1][-1]
        if none in cs:
            got = status
            w = T.subst(want, {('name', 'P'): pi})
            pre = [c for c in cs if c not in (T.truthy(status), T.mk_not(T.truthy(status)))]       # (the decision itself is tested later on)
            ok_default.see(T.truthy(status) == w or status == w or T.truthy(status) == T.under(w, pre) or status == T.under(w, pre))
        if isbool in cs:
            ok_bool.see(status == ('name', 'status_or_hole_cards'))
    chk.ob('C12.default', 'State.verify_hole_cards_showing_or_mucking', ok_default and ok_bool, fi.loc,
           'left to the engine, a player shows iff the hand is all-in or his hand can still win something; an explicit True/False is obeyed',
           got=T.show(got) if got else None, want='self.all_in_status or self.can_win_now(player)')


def _kill(chk, ctx) -> None:
    fi = ctx.sfi('_begin_hand_killing')
    i = ('elem', ('self', 'player_indices'))
    ok = False
    n = 0
    for p in ctx.paths(fi):
        for e in p.writes():
            if T.root_self_attr(e.term) == 'hand_killing_statuses':
                n += 1
                k = p.events.index(e)
                before = [unversion(x.term) for x in p.events[:k] if x.kind == 'assume']
                live = T.spec('self.statuses[i]', {'i': i}, boolean=True)
                ok = unversion(e.term) == ('sub', ('self', 'hand_killing_statuses'), i) \
                    and unversion(e.value) == T.spec('not self.can_win_now(i)', {'i': i}, boolean=True) and live in before
    chk.ob('C12.kill', 'State._begin_hand_killing', ok and n > 0, fi.loc,
           'a hand is marked to be killed exactly when it is live and cannot win anything', want='hand_killing_statuses[i] = not can_win_now(i) for live i')
    # after killing, flags are reset
    fe = ctx.sfi('_end_hand_killing')
    ok = any(e.op == 'set' and e.value == ('const', False) and T.root_self_attr(e.term) == 'hand_killing_statuses' for p in ctx.paths(fe) for e in p.writes())
    chk.ob('C12.kill', 'State._end_hand_killing', ok, fe.loc, 'kill flags are cleared when the phase ends')


def _coverage(chk, ctx) -> None:
    fi = ctx.sfi('can_win_now')
    b = ('elem', ('self', 'board_indices'))
    h = ('elem', ('self', 'hand_type_indices'))
    pot = ('elem', ('self', 'pots'))
    hands = T.spec('tuple(self.get_up_hands(b, h))', {'b': b, 'h': h})
    own = T.spec('self.get_hand(player_index, b, h)', {'b': b, 'h': h})
    best = T.spec('max_or_none(map(partial(getitem, HANDS), POT.player_indices))', {'HANDS': hands, 'POT': pot})
    win = T.spec('OWN is not None and (BEST is None or BEST <= OWN)', {'OWN': own, 'BEST': best}, boolean=True)
    true_ok, false_ok = Every(), False
    loops_ok = False
    got = None
    for p in ctx.paths(fi):
        if not p.returned:
            continue
        cs = [unversion(c) for c in p.conds()]
        r = p.outcome[1]
        entered = [unversion(e.term) for e in p.events if e.kind == 'loop' and e.op == 'enter']
        if r == ('const', True):
            got = cs[-1] if cs else None
            flat = [unversion(c) for c in p.conds(flat=True)]
            # every way to answer "can win" assumes the whole test (in one condition or in nested ones)
            true_ok.see(bool(cs) and (cs[-1] == win or all(
                c in flat or (c[0] == 'or' and any(d in flat for d in c[1])) for c in conjuncts(win))))
            loops_ok = entered == [('self', 'board_indices'), ('self', 'hand_type_indices'), ('self', 'pots')]
        elif r == ('const', False):
            false_ok = True
    chk.ob('C12.coverage', 'State.can_win_now:loops', loops_ok, fi.loc,
           'the test ranges over every board, every hand type and every pot', got='boards x hand types x pots' if loops_ok else 'different nesting')
    chk.ob('C12.coverage', 'State.can_win_now:wins', true_ok and false_ok, fi.loc,
           'a hand can win when it exists and no eligible shown hand is strictly better (ties count); otherwise it cannot',
           got=T.show(got)[:300] if got else None, want=T.show(win)[:300])
    # nothing but a win leaves the scan early: a loss on one board / hand type / pot says nothing about the others
    early = []
    for n in walk_no_nested(fi.node):
        if isinstance(n, ast.For):
            for st in n.body:
                for x in ast.walk(st):
                    if isinstance(x, ast.Break):
                        early.append(x)
                    if isinstance(x, ast.Return) and not (isinstance(x.value, ast.Constant) and x.value.value is True):
                        early.append(x)
    chk.ob('C12.coverage', 'State.can_win_now:exhaustive', not early, ctx.loc(fi, early[0]) if early else fi.loc,
           'the scan is left early only with a win: the only way to answer "cannot win" is to have looked at every board, hand type and pot')
    # sibling: same best-hand expression as push_chips
    pc = ctx.sfi('push_chips')
    sib = None
    for p in ctx.paths(pc):
        for k, v in p.env.items():
            v = unversion(v)
            if isinstance(v, tuple) and v[:2] == ('call', 'max_or_none'):
                sib = v
    shape = lambda t: (t[0], t[1], t[2][0][:2] if t and t[2] and isinstance(t[2][0], tuple) else None)  # noqa
    # both are max_or_none(<hand of i> for i in <pot>.player_indices): map(partial(getitem, hands), ...) and the generator
    # expression are the same term
    def over_players(t):
        if t is None or t[:2] != ('call', 'max_or_none') or not t[2] or t[2][0][0] != 'comp':
            return None
        c = t[2][0]
        gens = c[3]
        if len(gens) != 1 or gens[0][2]:
            return None
        var, it, _ = gens[0]
        body = c[2][0]
        return (body[0] == 'sub' and body[2] == var, it[0] == 'attr' and it[2] == 'player_indices')
    ok = over_players(sib) == (True, True) and over_players(best) == (True, True)
    chk.ob('C12.sibling', 'State.can_win_now~push_chips', ok, fi.loc,
           "can_win_now and push_chips select the best hand the same way: maximum over the pot's eligible players of the shown hands",
           got=T.show(sib)[:200] if sib else None, want=T.show(best)[:200])
    chk.floor('C12.coverage', 3)


def _tournament(chk, ctx) -> None:
    name = 'verify_hole_cards_showing_or_mucking'
    fi = ctx.sfi(name)
    tour = T.spec('self.mode == Mode.TOURNAMENT', boolean=True)
    ok_allin = ok_final = False
    from ..phases import conjuncts
    for exc, last, cs, p in raise_guards(ctx, name):
        if exc != 'ValueError':
            continue
        flat = set()
        for c in cs:
            flat |= set(conjuncts(c))
        if tour in flat:
            if T.spec('self.all_in_status', boolean=True) in flat:
                ok_allin = True
            elif T.spec('self.street is self.streets[-1]', boolean=True) in flat:
                ok_final = True
    # what is counted is what the player tables (second value the verifier returns), not the completed hand
    rets = [n for n in walk_no_nested(fi.node) if isinstance(n, ast.Return) and isinstance(n.value, ast.Tuple) and len(n.value.elts) >= 2
            and isinstance(n.value.elts[1], ast.Name)]
    tabled = rets[0].value.elts[1].id if rets else None
    counted_ok = False
    n_counted = 0
    for exc, last, cs, p in raise_guards(ctx, name):
        flat = set()
        for c in cs:
            flat |= set(conjuncts(c))
        if tour not in flat or tabled is None:
            continue
        want_c = T.spec('sum(map(bool, X)) < len(self.hole_cards[P])', {'X': unversion(p.env.get(tabled, ('name', tabled))), 'P': unversion(p.env.get('player_index', ('name', 'player_index')))}, boolean=True)
        if any(c[0] == 'lt' and c[1][:2] == ('call', 'sum') for c in flat):
            n_counted += 1
            counted_ok = want_c in flat
            if not counted_ok:
                break
    chk.ob('C12.tournament', f'State.{name}:counted', counted_ok and n_counted > 0, fi.loc,
           'the show-all rule counts the known cards among the cards the player actually tables')
    chk.ob('C12.tournament', f'State.{name}', ok_allin and ok_final, fi.loc,
           'in tournament mode a player who shows must show all his hole cards when the hand is all-in and at the final showdown',
           got=f'all-in rule: {ok_allin}; final-showdown rule: {ok_final}')
    # an unknown card cannot be shown
    ok = any(exc == 'ValueError' and T.show(last).count('hole_card') >= 0 and 'elem' in T.show(last) or 'zipidx' in T.show(last)
             for exc, last, cs, p in raise_guards(ctx, name))
    chk.ob('C12.tournament', f'State.{name}:unknown', ok, fi.loc, 'an unknown card cannot be declared shown')


def _order(chk, ctx) -> None:
    fi = ctx.sfi('_begin_showdown')
    i = ('elem', ('self', 'player_indices'))
    ok_q = ok_rot = ok_drop = False
    ok_q = Every()
    ok_drop = Every()
    ok_rot = Every()
    for p in ctx.paths(fi):
        cs = [unversion(c) for c in p.conds()]
        for e in p.writes():
            r = T.root_self_attr(e.term)
            v = unversion(e.value)
            if r == 'showdown_indices' and e.op == 'set':
                ok_q.see(v == T.spec('deque(self.player_indices)'))
            if r == 'showdown_indices' and e.op == 'call:rotate':
                ok_rot.see(v == ('tuple', (T.neg(('self', 'opener_index')),)) and T.spec('self.opener_index is not None', boolean=True) in cs)
            if r == 'showdown_indices' and e.op == 'call:remove':
                ok_drop.see(v == ('tuple', (i,)) and T.spec('not self.statuses[i] or all(self.hole_card_statuses[i])', {'i': i}, boolean=True) in cs)
    chk.ob('C12.order', 'State._begin_showdown', ok_q and ok_rot and ok_drop, fi.loc,
           'players show in clockwise order starting with the last aggressor; players who are out or whose cards are all face up are skipped',
           got=f'queue={ok_q} rotated_by_last_aggressor={ok_rot} skipped={ok_drop}')
    si = ctx.sfi('showdown_index')
    # (a conditional expression in a return is read as two returns)
    queue = T.truthy(T.spec('self.showdown_indices'))
    rets = set()
    for p in ctx.paths(si):
        if p.returned and not any(e.kind == 'exc' for e in p.events):
            cs = [unversion(c) for c in p.conds()]
            rets.add((T.key(unversion(p.outcome[1])), 'nonempty' if queue in cs else 'empty' if T.mk_not(queue) in cs else '?'))
    want = {(T.key(T.spec('self.showdown_indices[0]')), 'nonempty'), (T.key(('const', None)), 'empty')}
    whole = {(T.key(T.spec('self.showdown_indices[0] if self.showdown_indices else None')), '?')}
    chk.ob('C12.order', 'State.showdown_index', rets in (want, whole), si.loc, 'the next player to show is the head of the showdown queue', got=sorted(rets))
