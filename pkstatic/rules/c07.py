"""C07 - every hand runs to completion through the documented phases.

Decided statically (typestate + re-entrancy): the phase graph extracted from
the ``_begin/_update/_end`` hand-overs equals the documented one; each hand-over
happens exactly once per path under the documented condition; operations log
and update their own phase last; each operation makes progress on its phase's
pending structure; no raise after the first write / in the cascade; every
operation called from inside the cascade is called under a *fresh* statement of
its phase precondition (the stale-guard rule); head asserts of ``_end_X`` are
implied by the guard it is called under.
Not decided: the numeric bound of a betting round; deck-size preconditions.
"""
from __future__ import annotations

import ast

from .helpers import Every  # noqa: E402

from .. import terms as T
from ..model import AnalysisError, self_attr, stmt_text, walk_no_nested
from ..paths import unversion
from ..phases import (AUTOMATION_OPS, OPERATIONS, automation_sites, conjuncts, fresh_facts,
                      implied, only_state, phase_pre, wrapper_properties)
from .c08 import discovered, exhaustive_default_raises

PHASES = ['ante_posting', 'bet_collection', 'blind_or_straddle_posting', 'dealing', 'betting',
          'showdown', 'hand_killing', 'chips_pushing', 'chips_pulling']

GRAPH = {
    '_begin': {'_begin_ante_posting'},
    '_end_ante_posting': {'_begin_bet_collection'},
    '_end_bet_collection': {'_begin_chips_pushing', '_begin_blind_or_straddle_posting', '_begin_showdown', '_begin_dealing'},
    '_end_blind_or_straddle_posting': {'_begin_dealing'},
    '_end_dealing': {'_begin_betting'},
    '_end_betting': {'_begin_bet_collection'},
    '_end_showdown': {'_begin_dealing', '_begin_hand_killing'},
    '_end_hand_killing': {'_begin_chips_pushing'},
    '_end_chips_pushing': {'_begin_chips_pulling'},
    '_end_chips_pulling': {'_end'},
}

LAST = 'self.street is self.streets[-1]'
# hand-over conditions: (function, target) -> conditions that must hold on every path taking it
TRANSITIONS = {
    ('_end_bet_collection', '_begin_chips_pushing'): ['sum(self.statuses) == 1'],
    ('_end_bet_collection', '_begin_blind_or_straddle_posting'): ['sum(self.statuses) != 1', 'self.street is None'],
    ('_end_bet_collection', '_begin_showdown'): ['sum(self.statuses) != 1', 'self.street is not None', f'{LAST} or self.all_in_status'],
    ('_end_bet_collection', '_begin_dealing'): ['sum(self.statuses) != 1', 'self.street is not None', f'not ({LAST} or self.all_in_status)'],
    ('_end_showdown', '_begin_dealing'): [f'self.all_in_status and not {LAST}'],
    ('_end_showdown', '_begin_hand_killing'): [f'not (self.all_in_status and not {LAST})'],
}

CASCADE_PREFIXES = ('_begin', '_update', '_end', '_setup')
CASCADE_HELPERS = ('_muck_hole_cards', '_produce_cards', '_consume_cards', '_pop_actor_index')


def phase_calls(path):
    return [e for e in path.events if e.kind == 'call' and e.value[0] == 'self'
            and (e.value[1].startswith(('_begin', '_end')))]


def run(chk, ctx) -> None:
    ms = ctx.state.methods
    eff = ctx.eff
    disc = discovered(ctx)
    # a legal operation never fails part-way: the chips an operation (or the constructor's automated forced bets) takes from a
    # stack are bounded by that stack - the `assert stack >= amount` beliefs hold (same inference as C01.bounds)
    from .c01 import _bounds
    from .helpers import Refile
    _bounds(Refile(chk, {'C01.bounds': 'C07.no_overdraw'}), ctx)
    chk.floor('C07.no_overdraw', 5)
    # while a phase is pending one of its operations is available: a per-player step is refused only for players whose flag
    # is not set (the phase ends exactly when no flag is left), and with an actor either the bring-in or a check/call is
    # possible (fold / check-call refuse exactly on "no actor" and "bring-in pending", the bring-in exactly on the converse)
    from .cover import flag_verifiers
    flag_verifiers(Refile(chk, {'C08.flag_verifiers': 'C07.available'}), ctx, availability_only=True)
    from . import c03 as _c03
    re3 = Refile(chk, {'C03.S8': 'C07.available'})
    _c03._simple_verifiers(re3, ctx)
    _c03._fold(re3, ctx)
    chk.floor('C07.available', 8)
    from .c08 import _phase_check_first
    _phase_check_first(chk, ctx, 'C07.phase_check')
    # the betting/dealing part of the hand is closed when the pots are pushed: the street is set to None exactly there
    closers = sorted(n for n, f in ms.items() for p in ctx.paths(f) for e in p.writes()
                     if unversion(e.term) == ('self', 'street_index') and e.op == 'set' and unversion(e.value) == ('const', None))
    chk.ob('C07.terminal', 'State.street_index:closed', sorted(set(closers)) == ['_begin_chips_pushing'], ms['_begin_chips_pushing'].loc,
           'the last street is closed (street_index = None) when chips pushing begins and nowhere else: "the hand is past its streets" is what '
           'showing, folding and dealing verifiers test', got=sorted(set(closers)))
    # ------------------------------------------------------------------ graph
    for fn, targets in GRAPH.items():
        if fn not in ms:
            raise AnalysisError(f'anchor State.{fn} vanished')
        fi = ms[fn]
        got = set()
        bad_paths = []
        for p in ctx.paths(fi):
            if p.raised:
                continue
            calls = phase_calls(p)
            names = [c.value[1] for c in calls]
            got |= set(names)
            if len(names) != 1:
                bad_paths.append(names)
        chk.ob('C07.graph', f'State.{fn}', got == targets, fi.loc,
               'hand-over targets of the phase equal the documented phase graph', got=sorted(got), want=sorted(targets))
        chk.ob('C07.handover_once', f'State.{fn}', not bad_paths, fi.loc,
               'every path through the phase end hands over to exactly one next phase',
               got=bad_paths[:3] if bad_paths else 'one hand-over per path')
    chk.floor('C07.graph', 10)
    from .cover import handover_last
    handover_last(chk, ctx, 'C07.handover_once')
    # "with all-in run-outs dealing the remaining streets": when a betting round ends the hand is all-in exactly under the stated conditions
    from .cover import all_in_rule
    from .helpers import Refile as _Rf
    all_in_rule(_Rf(chk, {'C03.all_in': 'C07.transitions', 'C03.actor': 'C07.transitions'}, only=lambda r, c: c == 'State._end_betting'), ctx)
    # a voluntary show is legal after the last street is closed (pots being pushed or pulled, a fold-out): the showdown step then only
    # logs it - ending the showdown a second time, or running its automation, is for the showdown phase proper
    us = ms['_update_showdown']
    live = T.spec('self.street is not None', boolean=True)
    stray = []
    n_act = 0
    for p in ctx.paths(us):
        acts = [e for e in p.events if e.kind == 'call' and e.value[0] == 'self' and e.value[1] != '_update']
        if not acts:
            continue
        n_act += 1
        k = p.events.index(acts[0])
        before = {c2 for x in p.events[:k] if x.kind == 'assume' for c2 in conjuncts(unversion(x.term))}
        if live not in before:
            stray.append(acts[0])
    chk.ob('C07.graph', 'State._update_showdown:past_the_streets', n_act > 0 and not stray, ctx.loc(us, stray[0].node) if stray else us.loc,
           'once the last street is closed the showdown step only records the operation: it ends the showdown, or runs its automation, '
           'only while a street is open', got=[stmt_text(e.node, 60) for e in stray[:2]] or f'{n_act} acting path(s)')
    for name in ms:
        if name.startswith('_end_') and name not in GRAPH:
            chk.ob('C07.graph', f'State.{name}', False, ms[name].loc, 'phase end that is not in the documented phase graph')
    # who may call _begin_X / _end / write status
    for ph in PHASES:
        b, u, e = f'_begin_{ph}', f'_update_{ph}', f'_end_{ph}'
        for n in (b, u, e):
            if n not in ms:
                raise AnalysisError(f'anchor State.{n} vanished')
        callers_b = eff.callers(b)
        want_b = {k for k, v in GRAPH.items() if b in v}
        chk.ob('C07.callers', f'State.{b}', callers_b == want_b, ms[b].loc,
               'a phase is begun only by the end of its documented predecessor(s)', got=sorted(callers_b), want=sorted(want_b))
        callers_e = eff.callers(e)
        chk.ob('C07.callers', f'State.{e}', callers_e == {u}, ms[e].loc,
               'a phase is ended only by its own update step', got=sorted(callers_e), want=[u])
        # _begin_X: exactly one _update_X() per path, no other phase call
        bad = []
        for p in ctx.paths(ms[b]):
            if p.raised:
                continue
            ups = [c for c in p.calls() if c.value[0] == 'self' and c.value[1].startswith(('_update', '_begin', '_end'))]
            if [c.value[1] for c in ups] != [u]:
                bad.append([c.value[1] for c in ups])
            elif p.events and any(x.kind == 'write' for x in p.events[p.events.index(ups[0]):]):
                bad.append('write after the update step')
        chk.ob('C07.begin_shape', f'State.{b}', not bad, ms[b].loc,
               'a phase begin fills its pending structures and then runs its own update step exactly once, last', got=bad[:2])
        # _update_X starts with self._update(operation)
        first = ms[u].body[0] if ms[u].body else None
        ok = isinstance(first, ast.Expr) and isinstance(first.value, ast.Call) and self_attr(first.value.func) == '_update' \
            and len(first.value.args) == 1 and isinstance(first.value.args[0], ast.Name) and first.value.args[0].id == 'operation'
        # (that the update step logs the operation first is C15.log's clause; it says nothing about the phases and is not judged here)
        del ok, first
        # _update_X calls only its own end
        ends = {self_attr(n.func) for n in walk_no_nested(ms[u].node) if isinstance(n, ast.Call) and self_attr(n.func) and self_attr(n.func).startswith(('_end', '_begin'))}
        chk.ob('C07.callers', f'State.{u}:ends', ends <= {e}, ms[u].loc, 'an update step ends only its own phase', got=sorted(ends), want=[e])
    status_writers = {n for n, sites in eff.write_sites.items() if any(r == 'status' for r, _ in sites)}
    chk.ob('C07.terminal', 'State.status', status_writers == {'_end'}, ms['_end'].loc,
           'the hand-over flag `status` is written only by _end', got=sorted(status_writers), want=['_end'])
    chk.ob('C07.terminal', 'State._end', eff.callers('_end') == {'_end_chips_pulling'}, ms['_end'].loc,
           'the hand ends only from the end of chips pulling', got=sorted(eff.callers('_end')), want=['_end_chips_pulling'])
    # ------------------------------------------------------------ transitions
    for (fn, target), reqs in TRANSITIONS.items():
        fi = ms[fn]
        want = [T.spec(r, boolean=True) for r in reqs]
        n_paths = 0
        bad = None
        for p in ctx.paths(fi):
            names = [c.value[1] for c in phase_calls(p)]
            if target not in names:
                continue
            n_paths += 1
            have = set()
            for c in p.conds():
                for x in conjuncts(unversion(c)):
                    have.add(x)
            for w in want:
                if not all(x in have for x in conjuncts(w)):
                    bad = (w, have)
        chk.ob('C07.transitions', f'State.{fn}->{target}', n_paths > 0 and bad is None, fi.loc,
               'the hand-over is taken exactly under the documented condition',
               got='missing: ' + T.show(bad[0]) + ' among ' + '; '.join(sorted(T.show(x) for x in bad[1])) if bad else f'{n_paths} path(s)',
               want=' and '.join(reqs))
    chk.floor('C07.transitions', 6)

    # ---------------------------------------------------- operations: shape
    for op, (v, q) in disc.items():
        if op not in OPERATIONS:
            chk.note(f'operation {op} is not in the phase table (shape rules only)')
            continue
        upd, pending = OPERATIONS[op]
        of = ms[op]
        bad = []
        n_ret = 0
        for p in ctx.paths(of):
            if not p.returned:
                if p.outcome == ('fall',):
                    bad.append('path falls off the end without returning the record')
                continue
            n_ret += 1
            calls = [c for c in p.calls() if c.value[0] == 'self']
            if not calls or calls[-1].value[1] != upd:
                bad.append(f'last self-call is {calls[-1].value[1] if calls else None}, not {upd}')
                continue
            last = calls[-1]
            args = last.term[3]
            ret = p.outcome[1]
            if not args or unversion(args[0]) != unversion(ret):
                bad.append('the record passed to the update step is not the one returned')
            k = p.events.index(last)
            if any(e.kind == 'write' for e in p.events[k + 1:]):
                bad.append('state written after the update step')
            if [c.value[1] for c in calls].count(upd) != 1:
                bad.append('update step called more than once')
        chk.ob('C07.update_last', f'State.{op}', not bad and n_ret > 0, of.loc,
               f'every successful path ends with self.{upd}(<the returned record>) and nothing after it', got=bad[:2])
        # progress
        if pending is not None:
            stuck = []
            over = T.spec('self.street is None', boolean=True)
            loop_iters = set()
            for p in ctx.paths(of):
                if not p.returned:
                    continue
                if over in [unversion(c) for c in p.conds()]:
                    continue   # voluntary show after the hand is over: termination is not at stake
                if not _progress(ctx, p, pending, upd):
                    skipped = [e for e in p.events if e.kind == 'loop' and e.op == 'skip' and isinstance(e.node, ast.For)
                               and _loop_shrinks(ctx, e.node, pending)]
                    if skipped:
                        loop_iters |= {unversion(e.term) for e in skipped}
                        continue
                    stuck.append([T.show(c) for c in p.conds()][-3:])
            for it in loop_iters:
                ok = _nonempty_guard(ctx, v, it)
                chk.ob('C07.progress', f'State.{op}:nonempty', ok, ms[v].loc,
                       f'progress happens once per element of `{T.show(it)}`: the verifier must refuse an empty one',
                       got='no raise guard of the verifier is true for length 0' if not ok else 'guarded')
            detail = f'every successful path removes / clears an element of the pending structure `{pending}`'
            chk.ob('C07.progress', f'State.{op}', not stuck, of.loc, detail,
                   got=f'path without progress under {stuck[0]}' if stuck else 'all paths')
    chk.floor('C07.update_last', 17)
    chk.floor('C07.progress', 16)

    # ------------------------------------------------------------------ atomic
    n_at = 0
    for name, fi in ms.items():
        cascade = name.startswith(CASCADE_PREFIXES) or name in CASCADE_HELPERS
        is_op = name in disc
        if not (cascade or is_op):
            continue
        ex = exhaustive_default_raises(ctx.prog, fi)
        if cascade:
            rs = [n for n in walk_no_nested(fi.node) if isinstance(n, ast.Raise) and id(n) not in ex]
            n_at += 1
            chk.ob('C07.atomic', f'State.{name}', not rs, ctx.loc(fi, rs[0]) if rs else fi.loc,
                   'no raise inside the begin/update/end cascade (it runs in the middle of an accepted operation)')
        else:
            bad = None
            for p in ctx.paths(fi):
                wrote = False
                for e in p.events:
                    if e.kind == 'write':
                        wrote = True
                if p.raised and wrote and id(p.outcome[2]) not in ex:
                    bad = p.outcome[2]
            n_at += 1
            chk.ob('C07.atomic', f'State.{name}', bad is None, ctx.loc(fi, bad) if bad is not None else fi.loc,
                   'no raise is reachable in an operation after its first state write')
    # ... nor can the arithmetic of the cascade fail on one of the admitted chip types
    from .helpers import chip_literals
    chip_literals(chk, ctx, 'C07.atomic')
    from .cover import records_inert
    records_inert(chk, ctx, 'C07.atomic')
    chk.floor('C07.atomic', 60)

    _reentrancy(chk, ctx, disc)
    _beliefs(chk, ctx)
    _constructor(chk, ctx)
    from .cover import begin_flags, end_guards, setup_flags
    begin_flags(chk, ctx)
    end_guards(chk, ctx)
    setup_flags(chk, ctx)


def _progress(ctx, path, pending, upd) -> bool:
    ms = ctx.state.methods
    eff = ctx.eff

    def shrink(e) -> bool:
        if T.root_self_attr(e.term) != pending:
            return False
        if e.op == 'set':
            return e.value in (('const', False), ('num', 0))
        if e.op == '-=':
            return True
        return e.op in ('call:pop', 'call:popleft', 'call:remove', 'call:clear')
    for e in path.events:
        if e.kind == 'write' and shrink(e):
            return True
        if e.kind == 'call' and e.value[0] == 'self' and e.value[1] != upd and not e.value[1].startswith(('verify_', '_update')):
            callee = ms.get(e.value[1])
            if callee is not None and pending in eff.direct_mod.get(callee.name, ()):
                for q in ctx.paths(callee):
                    if any(x.kind == 'write' and shrink(x) for x in q.events):
                        return True
    return False


def _loop_shrinks(ctx, loop, pending) -> bool:
    from ..effects import storage_roots
    from ..phases import aliases_at
    al = aliases_at(ctx, loop)
    for n in ast.walk(loop):
        if isinstance(n, ast.Call) and isinstance(n.func, ast.Attribute) and n.func.attr in ('pop', 'popleft', 'remove') \
                and pending in storage_roots(n.func.value, al):
            return True
        if isinstance(n, ast.AugAssign) and isinstance(n.op, ast.Sub) and pending in storage_roots(n.target, al):
            return True
    return False


def _zero_eval(t, lent):
    """truth of term t when ``lent`` (a len(...) term) is 0; None if unknown"""
    h = t[0]
    if t == lent:
        return 0
    if h == 'num':
        return t[1]
    if h == 'const':
        return t[1]
    if h in ('and', 'or'):
        vals = [_zero_eval(x, lent) for x in t[1]]
        if h == 'and':
            if any(v is False for v in vals):
                return False
            return True if all(v is True for v in vals) else None
        if any(v is True for v in vals):
            return True
        return False if all(v is False for v in vals) else None
    if h in ('lt', 'le'):
        a, b = _zero_eval(t[1], lent), _zero_eval(t[2], lent)
        if isinstance(a, int) and isinstance(b, int) and not isinstance(a, bool) and not isinstance(b, bool):
            return a < b if h == 'lt' else a <= b
        return None
    if h in ('eq', 'ne'):
        a, b = (_zero_eval(x, lent) for x in t[1])
        if isinstance(a, int) and isinstance(b, int):
            return (a == b) if h == 'eq' else (a != b)
        return None
    if h in ('in', 'notin'):
        a = _zero_eval(t[1], lent)
        r = t[2]
        if isinstance(a, int) and r[0] == 'call' and r[1] == 'range' and r[2]:
            lo = _zero_eval(r[2][0], lent) if len(r[2]) >= 2 else 0
            if isinstance(lo, int) and a < lo:
                return h == 'notin'
        return None
    if h == 'not':
        v = _zero_eval(t[1], lent)
        return None if v is None else not v
    return None


def _nonempty_guard(ctx, verifier, it) -> bool:
    """some raise guard of the verifier is true when the iterated collection is empty"""
    ms = ctx.state.methods
    vf = ms[verifier]
    for p in ctx.paths(vf):
        if not p.raised:
            continue
        # the returned name of the verifier corresponds to the iterated value: compare by len(<anything>)
        for c in p.conds():
            c = unversion(c)
            lens = [s for s in T.subterms(c) if isinstance(s, tuple) and s[:2] == ('call', 'len') and not T.self_attrs(s)]
            for lt in lens:
                if _zero_eval(c, lt) is True:
                    return True
    return False


def _reentrancy(chk, ctx, disc) -> None:
    """every operation call inside a cascade function happens under a fresh
    statement of the operation's phase precondition"""
    ms = ctx.state.methods
    wrappers = wrapper_properties(ctx)
    chk.analysed['verified_or_none_wrappers'] = wrappers
    n_sites = 0
    for name, fi in ms.items():
        if not name.startswith(CASCADE_PREFIXES):
            continue
        site_fail = {}
        site_seen = {}
        for p in ctx.paths(fi):
            for k, e in enumerate(p.events):
                if e.kind != 'call' or e.value[0] != 'self' or e.value[1] not in disc:
                    continue
                op = e.value[1]
                v, q = disc[op]
                key = (op, e.lineno)
                site_seen[key] = e
                facts = fresh_facts(ctx, p, k)
                for need, origin in phase_pre(ctx, v):
                    ok, how = implied(ctx, need, origin, facts, v, wrappers)
                    if not ok:
                        site_fail.setdefault(key, (e, need, facts))
        for key, e in site_seen.items():
            n_sites += 1
            op = key[0]
            if key in site_fail:
                _, need, facts = site_fail[key]
                chk.ob('C07.reentrancy', f'State.{name}:{op}', False, ctx.loc(fi, e.node),
                       f'{op}() is called from inside the cascade although its phase precondition `{T.show(need)}` was last '
                       'established before a call that can change it (stale guard): the call can raise mid-cascade',
                       got='fresh facts: ' + '; '.join(T.show(f) for f in facts), want=T.show(need))
            else:
                chk.ob('C07.reentrancy', f'State.{name}:{op}', True, ctx.loc(fi, e.node),
                       f'{op}() is called under a fresh statement of its phase precondition')
    chk.floor('C07.reentrancy', 11)


def _beliefs(chk, ctx) -> None:
    """head asserts of _end_X over state-only terms are implied by the guard
    under which _update_X calls it"""
    ms = ctx.state.methods
    n = 0
    for ph in PHASES:
        e, u = ms[f'_end_{ph}'], ms[f'_update_{ph}']
        asserts = []
        for st in e.body:
            if isinstance(st, ast.Assert):
                t = T.cond(st.test)
                if only_state(t):
                    asserts.append((t, st))
            else:
                break
        if not asserts:
            continue
        for p in ctx.paths(u):
            for k, ev in enumerate(p.events):
                if ev.kind == 'call' and ev.value == ('self', e.name):
                    facts = fresh_facts(ctx, p, k)
                    guard_attrs = set()
                    for f in facts:
                        guard_attrs |= T.self_attrs(f)
                    for t, st in asserts:
                        if not (T.self_attrs(t) <= guard_attrs):
                            chk.note(f'belief not checked: {e.name}: assert {T.show(t)} (not over the attributes of the guard)')
                            continue
                        n += 1
                        ok = all(c in facts for c in conjuncts(t))
                        chk.ob('C07.beliefs', f'State.{e.name}:{T.show(t)}', ok, ctx.loc(e, st),
                               f'the assert at the head of {e.name} is implied by the guard under which {u.name} calls it',
                               got='; '.join(T.show(f) for f in facts), want=T.show(t))
    chk.floor('C07.beliefs', 8)


def _constructor(chk, ctx) -> None:
    """State.__post_init__: validation raises come before _setup()/_begin();
    nothing raises after the set-up started (creation never fails part-way)"""
    fi = ctx.sfi('__post_init__')
    bad = []
    ok_order = False
    ok_order = Every()
    for p in ctx.paths(fi):
        names = [c.value[1] for c in p.calls() if c.value[0] == 'self']
        if p.raised and ('_setup' in names or '_begin' in names):
            bad.append(p.outcome[2])
        if not p.raised:
            ok_order.see(names[-2:] == ['_setup', '_begin'])
    chk.ob('C07.constructor', 'State.__post_init__', not bad and ok_order, fi.loc,
           'all validation happens before _setup(); construction ends with _setup() then _begin()')
