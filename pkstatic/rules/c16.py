"""C16 - hand histories survive a save/load round trip and replay to the same result.

Decided statically (writer/reader tables): the verb written for each operation
class is parsed back into the operation that produces that class; player
numbering is inverted; every field `create_game` consumes and that can be
serialised is populated by `from_game_state` and dumped; the repair branches of
the replay loop call the operation their guard names; leftover actions raise;
`bool` is dispatched before `int`; the TOML writer's string/key arms are total
over `str` (finite abstract interpretation over the predicates the TOML
grammar distinguishes).
Not decided: textual identity of dump(load(dump(x))) on concrete values.
"""
from __future__ import annotations

import ast

from .. import terms as T
from ..evalstatic import SEval
from ..model import AnalysisError, self_attr, stmt_text, walk_no_nested
from .c08 import TABLE as TRIPLES

# PHH action grammar (docs/notation.rst): record class -> verb tokens
VERBS = {
    'HoleDealing': ('d', 'dh'),
    'BoardDealing': ('d', 'db'),
    'StandingPatOrDiscarding': ('sd',),
    'BringInPosting': ('pb',),
    'Folding': ('f',),
    'CheckingOrCalling': ('cc',),
    'CompletionBettingOrRaisingTo': ('cbr',),
    'HoleCardsShowingOrMucking': ('sm',),
}


def _str_consts(e):
    out = []
    for n in ast.walk(e):
        if isinstance(n, ast.Constant) and isinstance(n.value, str):
            out.append(n.value)
    return out


def writer_table(fi):
    """operation class -> tuple of literal tokens written (player placeholder dropped); the arms are found by
    their isinstance test on the loop variable over the operations (either branch polarity), not by names"""
    from .c17 import arms_of, op_var
    op = op_var(fi.node)
    table = {}
    for classes, node, body, test in arms_of(fi.node, op):
        if len(classes) != 1:
            continue
        for st in body:
            if isinstance(st, ast.Assign) and isinstance(st.targets[0], ast.Name) \
                    and not (isinstance(st.value, ast.Constant) and st.value.value is None):
                consts = _str_consts(st.value)
                if consts:
                    toks = ' '.join(consts).split()
                    table[classes[0]] = (tuple(x for x in toks if x != 'p'), st)
    # dealing actions are written by a nested helper
    for n in ast.walk(fi.node):
        if isinstance(n, ast.FunctionDef) and n is not fi.node:
            for st in ast.walk(n):
                if isinstance(st, ast.Assign) and isinstance(st.targets[0], ast.Name):
                    toks = tuple(x for x in ' '.join(_str_consts(st.value)).split() if x != 'p')
                    if toks[:2] == ('d', 'dh'):
                        table['HoleDealing'] = (toks[:2], st)
                    elif toks[:2] == ('d', 'db'):
                        table['BoardDealing'] = (toks[:2], st)
    return table


def _text_shape(e):
    """a string-building expression as a term in which f-strings keep their parts (literal text and formatted terms)"""
    if isinstance(e, ast.JoinedStr):
        parts = []
        for v in e.values:
            if isinstance(v, ast.Constant):
                parts.append(('const', v.value))
            else:
                parts.append(('fmt', T.norm(v.value), v.conversion, _text_shape(v.format_spec) if v.format_spec is not None else ('const', None)))
        return ('fstring', tuple(parts))
    if isinstance(e, ast.BinOp) and isinstance(e.op, ast.Add):
        return ('concat', (_text_shape(e.left), _text_shape(e.right)))
    return T.norm(e)


def reader_table(fi):
    """tuple of literal tokens -> set of State methods called (from the match over the words)"""
    table = {}
    for n in ast.walk(fi.node):
        if isinstance(n, ast.Match):
            for case in n.cases:
                pat = case.pattern
                if not isinstance(pat, ast.MatchSequence):
                    continue
                lits = []
                for sp in pat.patterns:
                    if isinstance(sp, ast.MatchValue) and isinstance(sp.value, ast.Constant):
                        lits.append(sp.value.value)
                calls = set()
                for st in case.body:
                    for c in ast.walk(st):
                        if isinstance(c, ast.Call) and isinstance(c.func, ast.Attribute) and isinstance(c.func.value, ast.Name) \
                                and c.func.value.id == 'state':
                            calls.add(c.func.attr)
                key = tuple(x for x in lits if x != '-')
                table.setdefault(key, set()).update(calls)
    return table


def record_table(ctx):
    """State operation -> record class it builds"""
    out = {}
    ops = {c.name for c in ctx.prog.subclasses('Operation')}
    for op in TRIPLES:
        fi = ctx.sfi(op)
        made = {n.func.id for n in walk_no_nested(fi.node) if isinstance(n, ast.Call) and isinstance(n.func, ast.Name) and n.func.id in ops}
        if len(made) == 1:
            out[op] = next(iter(made))
    return out


def run(chk, ctx) -> None:
    prog = ctx.prog
    hh = prog.cls('HandHistory')
    fgs = hh.methods.get('from_game_state')
    pa = prog.func('notation.parse_action')
    if fgs is None:
        raise AnalysisError('HandHistory.from_game_state vanished')
    wt = writer_table(fgs)
    rt = reader_table(pa)
    rec = record_table(ctx)
    chk.analysed['writer_table'] = {k: list(v[0]) for k, v in wt.items()}
    chk.analysed['reader_table'] = {' '.join(k): sorted(v) for k, v in rt.items()}
    for cls, verb in VERBS.items():
        got = wt.get(cls)
        chk.ob('C16.verbs', f'write:{cls}', got is not None and got[0] == verb, ctx.loc(fgs, got[1]) if got else fgs.loc,
               'the verb written for the operation is the one of the PHH grammar', got=got[0] if got else None, want=verb)
        methods = rt.get(verb, set())
        back = {rec.get(m) for m in methods}
        chk.ob('C16.verbs', f'read:{" ".join(verb)}', back == {cls}, pa.loc,
               'the verb is parsed back into the operation that produces the same record class (write o read = identity)',
               got=f'{sorted(methods)} -> {sorted(map(str, back))}', want=cls)
    for cls in wt:
        if cls not in VERBS:
            chk.ob('C16.verbs', f'write:{cls}', False, fgs.loc, 'an operation class is written with a verb the PHH grammar does not have', got=wt[cls][0])
    chk.floor('C16.verbs', 16)
    # what is written after the verb is the whole content of the record (nothing filtered, nothing re-ordered): the shape of
    # every written action text, f-strings compared part by part
    want_text = {
        'StandingPatOrDiscarding': "f'p{operation.player_index + 1} sd ' + ''.join(map(repr, operation.cards))",
        'BringInPosting': "f'p{operation.player_index + 1} pb'",
        'Folding': "f'p{operation.player_index + 1} f'",
        'CheckingOrCalling': "f'p{operation.player_index + 1} cc'",
        'CompletionBettingOrRaisingTo': "f'p{operation.player_index + 1} cbr {operation.amount}'",
        'HoleCardsShowingOrMucking': "f'p{operation.player_index + 1} sm ' + ''.join(map(repr, operation.hole_cards))",
        'HoleDealing': "f'd dh p{player_index + 1} ' + ''.join(map(repr, hole_cards[player_index]))",
        'BoardDealing': "'d db ' + ''.join(map(repr, board_cards))",
    }
    for cls, src in want_text.items():
        got = wt.get(cls)
        if got is None:
            continue
        ok = T.alpha_eq(_text_shape(got[1].value), _text_shape(ast.parse(src, mode='eval').body), ctx.m.var_test(fgs.node))
        chk.ob('C16.verbs', f'text:{cls}', ok, ctx.loc(fgs, got[1]),
               'the action text is the player, the verb and the complete content of the record (every card, the amount) - nothing filtered',
               got=ast.unparse(got[1].value)[:160], want=src)
    # the dealing actions accumulate exactly the cards of the dealing records
    acc = {'BoardDealing': 'board_cards.extend(operation.cards)', 'HoleDealing': 'hole_cards[operation.player_index].extend(operation.cards)'}
    for cls, src in acc.items():
        ok = bool(ctx.m.calls(fgs.node, src))
        chk.ob('C16.verbs', f'accumulate:{cls}', ok, fgs.loc, 'dealt cards are collected from the dealing record, per player / for the board, all of them', want=src)
    # player numbering: written 1-based from player_index + 1, read back with - 1
    # every number written right after the literal `p` is a 0-based index plus one
    plus = []
    for n in ast.walk(fgs.node):
        if isinstance(n, ast.JoinedStr):
            for a, b in zip(n.values, n.values[1:]):
                if isinstance(a, ast.Constant) and isinstance(a.value, str) and a.value.endswith('p') and isinstance(b, ast.FormattedValue):
                    plus.append(T.norm(b.value))
    ok_w = bool(plus) and all(t[0] == 'lin' and t[2] == 1 and len(t[1]) == 1 and t[1][0][1] == 1 for t in plus)
    gp = [n for n in ast.walk(pa.node) if isinstance(n, ast.FunctionDef) and n is not pa.node]
    ok_r = any(ctx.m.eq(T.norm(x), 'int(player[1:]) - 1') for n in gp for x in ast.walk(n) if isinstance(x, ast.expr))
    chk.ob('C16.verbs', 'player_numbering', ok_w and ok_r, pa.loc, 'players are written 1-based (index + 1) and read back as number - 1',
           got=f'writer: {ok_w}; reader: {ok_r}')
    # arguments of the parsed operations
    want_calls = {
        ('cbr',): 'state.complete_bet_or_raise_to(parse_value(amount), commentary=commentary)',
        ('d', 'db'): 'state.deal_board(cards)',
        ('d', 'dh'): 'state.deal_hole(cards, get_player_index(), commentary=commentary)',
    }
    for n in ast.walk(pa.node):
        if isinstance(n, ast.Match):
            for case in n.cases:
                lits = tuple(sp.value.value for sp in getattr(case.pattern, 'patterns', []) if isinstance(sp, ast.MatchValue) and isinstance(sp.value, ast.Constant))
                if lits in want_calls:
                    calls = [T.norm(c) for st in case.body for c in ast.walk(st) if isinstance(c, ast.Call) and isinstance(c.func, ast.Attribute)
                             and isinstance(c.func.value, ast.Name) and c.func.value.id == 'state']
                    chk.ob('C16.verbs', f'args:{" ".join(lits)}', len(calls) == 1 and ctx.m.eq(calls[0], want_calls[lits]), ctx.loc(pa, case.pattern),
                           'the parsed operation receives the written value (amount through parse_value, cards and player in order)',
                           got=[T.show(c) for c in calls], want=want_calls[lits])
    # the writer's flow: one action text (or none) per operation, buffered dealings flushed before every other operation and at
    # the end, the collected actions and the layout handed to the history
    from .c17 import arms_of, op_var
    m = ctx.m
    opv = op_var(fgs.node)
    loops = [n for n in walk_no_nested(fgs.node) if isinstance(n, ast.For) and isinstance(n.target, ast.Name) and n.target.id == opv]
    flow = {}
    if len(loops) == 1:
        lp = loops[0]
        last = lp.body[-1]
        flow['every non-empty action is appended (stripped), last thing in the loop'] = isinstance(last, ast.If) and not last.orelse \
            and m.eq(T.cond(last.test), 'action is not None', boolean=True, fn=fgs.node) \
            and len(last.body) == 1 and bool(m.calls(last, 'actions.append(action.strip())'))
        first = lp.body[0]
        flow['buffered dealings are flushed before anything that is not a dealing'] = isinstance(first, ast.If) and not first.orelse \
            and m.eq(T.cond(first.test), f'not compression_status or not isinstance({opv}, HoleDealing | BoardDealing)', boolean=True, fn=fgs.node) \
            and len(first.body) == 1 and bool(m.calls(first, 'append_dealing_actions()'))
        chain = [st for st in lp.body if isinstance(st, ast.If) and 'isinstance' in ast.unparse(st.test) and st is not first]
        unassigned = []
        if chain:
            cur = chain[0]
            arms = []
            while True:
                arms.append(cur.body)
                if len(cur.orelse) == 1 and isinstance(cur.orelse[0], ast.If):
                    cur = cur.orelse[0]
                    continue
                arms.append(cur.orelse)
                break
            for body in arms:
                if not any(isinstance(x, ast.Assign) and isinstance(x.targets[0], ast.Name) and x.targets[0].id == 'action' for st in body for x in ast.walk(st)):
                    unassigned.append(ast.unparse(body[0])[:40] if body else '<missing else>')
            pre = any(isinstance(st, ast.Assign) and isinstance(st.targets[0], ast.Name) and st.targets[0].id == 'action' for st in lp.body[:lp.body.index(chain[0])])
            flow['every kind of operation sets the action text (or None) afresh: no text is carried over from the previous operation'] = pre or not unassigned
        else:
            flow['one if/elif chain over the operation kinds'] = False
        after = fgs.node.body[fgs.node.body.index(lp) + 1:] if lp in fgs.node.body else []
        flow['buffered dealings are flushed after the last operation'] = bool(after) and isinstance(after[0], ast.Expr) and m.eq(T.norm(after[0].value), 'append_dealing_actions()', fn=fgs.node)
    else:
        flow['one loop over state.operations'] = False
    for key, val in (('variant', 'variant'), ('actions', 'actions'), ('starting_stacks', 'list(state.starting_stacks)'),
                     ('ante_trimming_status', 'game.ante_trimming_status')):
        flow[f'{key} handed to the history'] = bool(m.calls(fgs.node, f"kwargs.setdefault('{key}', {val})"))
    missing = [k for k, v in flow.items() if not v]
    chk.ob('C16.verbs', 'writer_flow', not missing, fgs.loc,
           'the writer emits one action text per operation (dealings buffered and flushed in order), appends every text, and hands the '
           'actions, the variant, the starting stacks and the ante mode to the history', got=f'not found: {missing}' if missing else 'ok')
    # the whole reader table: per shape of the words, the player check and the state call (label checked against the player the
    # engine expects, commentary passed on); nothing but these shapes is accepted
    arms_want = {
        ('d', 'db', '*'): ['state.deal_board(cards)'],
        ('d', 'dh', '*', '*'): ['state.deal_hole(cards, get_player_index(), commentary=commentary)'],
        ('*', 'sd'): ['verify_player(state.stander_pat_or_discarder_index)', 'state.stand_pat_or_discard(commentary=commentary)'],
        ('*', 'sd', '*'): ['verify_player(state.stander_pat_or_discarder_index)', 'state.stand_pat_or_discard(cards, commentary=commentary)'],
        ('*', 'pb'): ['verify_player(state.actor_index)', 'state.post_bring_in(commentary=commentary)'],
        ('*', 'f'): ['verify_player(state.actor_index)', 'state.fold(commentary=commentary)'],
        ('*', 'cc'): ['verify_player(state.actor_index)', 'state.check_or_call(commentary=commentary)'],
        ('*', 'cbr', '*'): ['verify_player(state.actor_index)', 'state.complete_bet_or_raise_to(parse_value(amount), commentary=commentary)'],
        ('*', 'sm'): ['state.show_or_muck_hole_cards(False, get_player_index(), commentary=commentary)'],
        ('*', 'sm', '-'): ['state.show_or_muck_hole_cards(True, get_player_index(), commentary=commentary)'],
        ('*', 'sm', '*'): ['state.show_or_muck_hole_cards(cards, get_player_index(), commentary=commentary)'],
        (): ['state.no_operate(commentary=commentary)'],
    }
    matches = [n for n in walk_no_nested(pa.node) if isinstance(n, ast.Match)]
    got_arms = {}
    default_raises = False
    for mt in matches[:1]:
        for case in mt.cases:
            pat = case.pattern
            if isinstance(pat, ast.MatchSequence):
                shape = tuple(sp.value.value if isinstance(sp, ast.MatchValue) and isinstance(sp.value, ast.Constant) else '*' for sp in pat.patterns)
                got_arms[shape] = [T.norm(st.value) if isinstance(st, ast.Expr) else ('stmt', type(st).__name__) for st in case.body]
            elif isinstance(pat, ast.MatchAs) and pat.pattern is None:
                default_raises = len(case.body) == 1 and isinstance(case.body[0], ast.Raise) and 'ValueError' in ast.unparse(case.body[0])
    bad_arms = []
    for shape, want_body in arms_want.items():
        got_body = got_arms.get(shape)
        if got_body is None or len(got_body) != len(want_body) or not all(ctx.m.eq(g, w, fn=pa.node) for g, w in zip(got_body, want_body)):
            bad_arms.append(' '.join(shape) or '(no words)')
    extra_arms = [' '.join(k) for k in got_arms if k not in arms_want]
    chk.ob('C16.verbs', 'reader_table', len(matches) == 1 and not bad_arms and not extra_arms and default_raises, pa.loc,
           'every action shape is read as: check the written player against the player the engine expects (drawer / actor), then the one '
           'operation with the written values and the commentary; a comment alone is a no-operation; anything else is an error',
           got=f'differs: {bad_arms}; unknown shapes: {extra_arms}; default raises ValueError: {default_raises}')
    helpers_ok = bool(ctx.m.ifs(pa.node, "'#' in words")) and bool(ctx.m.assigns(pa.node, "words[:words.index('#')]")) \
        and bool(ctx.m.assigns(pa.node, 'action.split()'))
    vp = [n for n in ast.walk(pa.node) if isinstance(n, ast.FunctionDef) and n.name == 'verify_player']
    vp_ok = len(vp) == 1 and any(isinstance(x, ast.If) and ctx.m.eq(T.cond(x.test), 'get_player_index() != index', boolean=True)
                                  and any(isinstance(r, ast.Raise) for r in x.body) for x in ast.walk(vp[0]))
    # a player label is the letter p and the seat number, whatever its size: p10 is the tenth seat
    gp = [n for n in ast.walk(pa.node) if isinstance(n, ast.FunctionDef) and n.name == 'get_player_index']
    gp_ok = False
    if len(gp) == 1:
        rets = [n for n in ast.walk(gp[0]) if isinstance(n, ast.Return) and n.value is not None]
        raises = [x for x in ast.walk(gp[0]) if isinstance(x, ast.If) and any(isinstance(r, ast.Raise) for r in x.body)]
        env = {}
        for n in ast.walk(gp[0]):
            if isinstance(n, ast.Assign) and len(n.targets) == 1 and isinstance(n.targets[0], ast.Tuple) and isinstance(n.value, ast.Tuple):
                for t, v in zip(n.targets[0].elts, n.value.elts):
                    if isinstance(t, ast.Name):
                        env[t.id] = T.norm(v)
            elif isinstance(n, ast.Assign) and len(n.targets) == 1 and isinstance(n.targets[0], ast.Name):
                env[n.targets[0].id] = T.norm(n.value)
        gp_ok = len(rets) == 1 and T.norm(rets[0].value, env) == T.spec('int(player[1:]) - 1') and len(raises) == 1 \
            and T.cond(raises[0].test, env) in (T.spec("player[:1] != 'p'", boolean=True), T.spec("not player.startswith('p')", boolean=True),
                                                 T.spec("player[0] != 'p'", boolean=True))
    vp_ok = vp_ok and gp_ok
    chk.ob('C16.verbs', 'reader_words', helpers_ok and vp_ok, pa.loc,
           'the words of an action end at `#`; a player label that is not the expected player is an error (never silently another player)',
           got=f'words cut at #: {helpers_ok}; label check raises: {vp_ok}; label = p + seat number of any size: {gp_ok}')
    sm = {}
    for n in ast.walk(pa.node):
        if not isinstance(n, ast.Match):
            continue
        for case in n.cases:
            pat = case.pattern
            if not isinstance(pat, ast.MatchSequence):
                continue
            shape = tuple(sp.value.value if isinstance(sp, ast.MatchValue) and isinstance(sp.value, ast.Constant) else '*' for sp in pat.patterns)
            if 'sm' not in shape:
                continue
            sm[shape] = [T.norm(c.args[0]) for st in case.body for c in ast.walk(st) if isinstance(c, ast.Call)
                         and isinstance(c.func, ast.Attribute) and c.func.attr == 'show_or_muck_hole_cards' and c.args]
    want_sm = {('*', 'sm'): [('const', False)], ('*', 'sm', '-'): [('const', True)], ('*', 'sm', '*'): [('name', 'cards')]}
    chk.ob('C16.verbs', 'args:sm', sm == want_sm, pa.loc, '`sm` alone is a muck, `sm -` shows everything, `sm <cards>` shows those cards',
           got={' '.join(k): [T.show(x) for x in v] for k, v in sm.items()})

    # commentary: written as `<action> # <text>` (or `# <text>` alone) and read back as the raw text after `# `
    rd = []
    for n in ctx.m.ifs(pa.node, "'#' in action"):      # (a conditional expression is read as this statement form)
        if len(n.body) == 1 and len(n.orelse) == 1 and ctx.m.assigns(n, "action[action.index('#') + 2:]") \
                and isinstance(n.orelse[0], ast.Assign) and isinstance(n.orelse[0].value, ast.Constant) and n.orelse[0].value.value is None \
                and ast.dump(n.body[0].targets[0]) == ast.dump(n.orelse[0].targets[0]):
            rd.append(n)
    wr = [n for n in ast.walk(fgs.node) if isinstance(n, ast.JoinedStr) and [v.value for v in n.values if isinstance(v, ast.Constant)] in ([' # '], ['# '])
          and any(isinstance(v, ast.FormattedValue) and 'commentary' in ast.unparse(v.value) for v in n.values)]
    # ... attached to the action text when there is one, a line of its own otherwise
    pol = False
    for n in ctx.m.ifs(fgs.node, 'operation.commentary is not None'):
        inner = [x for x in n.body if isinstance(x, ast.If)]
        if len(inner) == 1 and inner[0].orelse:
            alone, attached = (inner[0].body, inner[0].orelse) if ctx.m.eq(T.cond(inner[0].test), 'action is None', boolean=True, fn=fgs.node) \
                else (inner[0].orelse, inner[0].body) if ctx.m.eq(T.cond(inner[0].test), 'action is not None', boolean=True, fn=fgs.node) else (None, None)
            if alone is not None:
                pol = any(isinstance(x, ast.JoinedStr) and [v.value for v in x.values if isinstance(v, ast.Constant)] == ['# '] for st in alone for x in ast.walk(st)) \
                    and any(isinstance(x, ast.BinOp) and isinstance(x.op, ast.Add) and 'action.strip()' in ast.unparse(x.left) for st in attached for x in ast.walk(st))
    chk.ob('C16.commentary', 'from_game_state:placement', pol, fgs.loc,
           'a commentary is appended to the stripped action text with ` # `, or forms a line `# text` of its own when the operation has no text')
    chk.ob('C16.commentary', 'parse_action~from_game_state', len(rd) == 1 and len(wr) == 2, pa.loc,
           'a commentary is written verbatim after `# ` and read back as the raw remainder of the line (no re-tokenising: inner spacing is text)',
           got=f'reader takes the raw slice: {len(rd) == 1}; writer forms found: {len(wr)}')
    from .helpers import no_format_specs, parse_value_helper
    from .helpers import default_helpers
    default_helpers(chk, ctx, 'C16.fields', ['notation'])
    no_format_specs(chk, ctx, 'C16.dump', [fgs] + [f for f in (hh.methods.get('dumps'), hh.methods.get('dump')) if f is not None])
    parse_value_helper(chk, ctx, 'C16.values')
    from .helpers import hand_history_defaults
    hand_history_defaults(chk, ctx, 'C16.fields')
    _fields(chk, ctx, hh, fgs)
    _replay(chk, ctx, hh)
    _dump(chk, ctx, hh)


def _hh_fields(hh):
    out = []
    for name, node in hh.attr_nodes.items():
        if isinstance(node, ast.AnnAssign) and 'ClassVar' not in ast.unparse(node.annotation) and name != '_':
            out.append(name)
    return out


def _fields(chk, ctx, hh, fgs) -> None:
    prog = ctx.prog
    sev = SEval(prog)
    cg = hh.methods.get('create_game')
    if cg is None:
        raise AnalysisError('HandHistory.create_game vanished')
    fields = _hh_fields(hh)
    req = sev.class_attr('HandHistory', 'required_field_names')
    opt = sev.class_attr('HandHistory', 'optional_field_names')
    if not isinstance(req, dict) or not isinstance(opt, tuple):
        raise AnalysisError('required/optional field tables are not literal any more')
    req_all = set().union(*[set(v) for v in req.values()])
    dumped = req_all | set(opt)
    # what create_game reads from self (besides the required-name loop)
    consumed = {self_attr(n) for n in ast.walk(cg.node) if self_attr(n) in fields}
    consumed |= req_all
    populated = set()
    for st in fgs.node.body:          # (statements of the function itself: a field that is filled in only under a condition is not filled in)
        n = st.value if isinstance(st, ast.Expr) else None
        if isinstance(n, ast.Call) and isinstance(n.func, ast.Attribute) and n.func.attr == 'setdefault' \
                and isinstance(n.func.value, ast.Name) and n.func.value.id == 'kwargs' and n.args and isinstance(n.args[0], ast.Constant):
            populated.add(n.args[0].value)
    loops_req = any(isinstance(n, ast.For) and 'required_field_names' in ast.unparse(n.iter) for n in ast.walk(fgs.node))
    if loops_req:
        populated |= req_all
    for f in sorted(consumed & dumped):
        chk.ob('C16.fields', f'HandHistory.{f}', f in populated, fgs.loc,
               'a field that decides how the game is re-created and that is written to the file is filled in from the game / state that was played',
               got='populated' if f in populated else 'never set by from_game_state: a loaded history silently uses the default')
    chk.floor('C16.fields', 10)
    # required names resolve on the game or on the state
    poker = prog.cls('Poker')
    game_attrs = set(poker.methods) | {self_attr(t) for n in ast.walk(poker.methods['__init__'].node) if isinstance(n, (ast.Assign, ast.AnnAssign))
                                       for t in ([n.target] if isinstance(n, ast.AnnAssign) else n.targets) if self_attr(t)}
    state_attrs = set(ctx.state.ann) | set(ctx.state.methods)
    for f in sorted(req_all - {'variant', 'actions', 'starting_stacks'}):
        where = 'game' if f in game_attrs else 'state' if f in state_attrs else None
        chk.ob('C16.fields', f'source:{f}', where is not None, fgs.loc,
               'every required field has a same-named attribute on the game or on the state to be filled from', got=where)
    # dump: every serialisable field of the dataclass is written
    non_serial = {'user_defined_fields', 'automations', 'divmod', 'rake', 'parse_value'}
    for f in fields:
        if f in non_serial:
            continue
        chk.ob('C16.dump', f'HandHistory.{f}', f in dumped, hh.loc,
               'every data field of a hand history is in the required or optional name list and is therefore written by dumps')
    chk.floor('C16.dump', 30)
    # names handed to the game constructor
    ok = False
    for n in ast.walk(cg.node):
        if isinstance(n, ast.If):
            t = T.cond(n.test)
            pos = ctx.m.eq(t, "name == 'antes' or name == 'blinds_or_straddles'", boolean=True)
            neg = ctx.m.eq(T.mk_not(t), "name == 'antes' or name == 'blinds_or_straddles'", boolean=True)
            if pos or neg:
                body = n.body if pos else n.orelse
                ok = any(isinstance(s2, ast.Assign) and isinstance(s2.value, ast.JoinedStr) and ''.join(_str_consts(s2.value)) == 'raw_' for s2 in body)
    chk.ob('C16.names', 'HandHistory.create_game', ok, cg.loc, 'antes / blinds_or_straddles are handed to the game as raw_antes / raw_blinds_or_straddles')
    pops = sorted(n.args[0].value for n in ast.walk(cg.node) if isinstance(n, ast.Call) and isinstance(n.func, ast.Attribute) and n.func.attr == 'pop'
                  and n.args and isinstance(n.args[0], ast.Constant))
    # every field reaches the game as it stands in the history: the keyword table is filled by the display and by `kwargs[key] = getattr(self,
    # name)` in the loop over the required names - nothing re-computes an entry afterwards
    kw_names = {k.value.id for c in ast.walk(cg.node) if isinstance(c, ast.Call) for k in c.keywords if k.arg is None and isinstance(k.value, ast.Name)}
    loop_vars = {lp.target.id for lp in ast.walk(cg.node) if isinstance(lp, ast.For) and isinstance(lp.target, ast.Name)
                 and 'required_field_names' in ast.unparse(lp.iter)}
    stores = [n for n in ast.walk(cg.node) if isinstance(n, (ast.Assign, ast.AugAssign)) for t in (n.targets if isinstance(n, ast.Assign) else [n.target])
              if isinstance(t, ast.Subscript) and isinstance(t.value, ast.Name) and t.value.id in kw_names]
    updates = [n for n in ast.walk(cg.node) if isinstance(n, ast.Call) and isinstance(n.func, ast.Attribute) and isinstance(n.func.value, ast.Name)
               and n.func.value.id in kw_names and n.func.attr in ('update', 'setdefault', '__setitem__')]
    plain = [n for n in stores if isinstance(n, ast.Assign) and any(T.norm(n.value) == T.spec(f'getattr(self, {v})') for v in loop_vars)]
    chk.ob('C16.names', 'HandHistory.create_game:values_as_recorded', len(stores) == 1 and len(plain) == 1 and not updates, ctx.loc(cg, (stores + updates)[-1]) if (stores or updates) else cg.loc,
           'a game parameter is the value recorded in the history (getattr(self, name)), set once and not adjusted afterwards',
           got=[stmt_text(n, 70) for n in stores + updates])
    chk.ob('C16.names', 'HandHistory.create_game:non_game_fields', pops == ['actions', 'starting_stacks', 'variant'], cg.loc,
           'exactly the fields that are not game parameters are removed before the game is built', got=pops)
    # every remaining kwarg is a constructor parameter of every variant class
    gt = sev.class_attr('HandHistory', 'game_types')
    base_kw = {'automations', 'divmod', 'rake', 'ante_trimming_status', 'mode'}
    for code, names in req.items():
        cref = gt.get(code) if isinstance(gt, dict) else None
        if cref is None:
            continue
        init = prog.resolve_method(prog.cls(cref.name), '__init__')
        kw = base_kw | {('raw_' + x if x in ('antes', 'blinds_or_straddles') else x) for x in names} - {'variant', 'starting_stacks', 'actions'}
        missing = sorted(kw - set(init.params))
        unfilled = sorted(p for p in init.pos_params if p != 'self' and p not in kw)
        chk.ob('C16.names', f'create_game:{code}', not missing and not unfilled, cg.loc,
               'the keyword arguments built for the variant are exactly the parameters of its constructor', got=f'unknown: {missing}; unfilled: {unfilled}')


def _replay(chk, ctx, hh) -> None:
    sa = hh.methods.get('state_actions')
    if sa is None:
        raise AnalysisError('HandHistory.state_actions vanished')
    q2op = {q: op for op, (v, q) in TRIPLES.items()}
    svs = [n.targets[0].id for n in ctx.m.assigns(sa.node, 'self.create_state()') if isinstance(n.targets[0], ast.Name)]
    if len(svs) != 1:
        raise AnalysisError('state_actions: the replayed state is not created by exactly one self.create_state()')
    sv = svs[0]
    n = 0
    for node in ast.walk(sa.node):
        if not isinstance(node, ast.If):
            continue
        cans = [c for c in ast.walk(node.test) if isinstance(c, ast.Call) and isinstance(c.func, ast.Attribute)
                and isinstance(c.func.value, ast.Name) and c.func.value.id == sv and c.func.attr.startswith('can_')]
        if len(cans) != 1:
            continue
        q = cans[0]
        negated = any(isinstance(x, ast.UnaryOp) and isinstance(x.op, ast.Not) and any(y is q for y in ast.walk(x.operand)) for x in ast.walk(node.test))
        branch = node.orelse if negated else node.body
        # the first statements of the branch up to (not into) the next availability test
        calls = []
        for st in branch:
            if isinstance(st, ast.If) and any(isinstance(c, ast.Call) and isinstance(c.func, ast.Attribute) and c.func.attr.startswith('can_') for c in ast.walk(st.test)):
                break
            for c in ast.walk(st):
                if isinstance(c, ast.Call) and isinstance(c.func, ast.Attribute) and isinstance(c.func.value, ast.Name) \
                        and c.func.value.id == sv and not c.func.attr.startswith('can_'):
                    calls.append(c)
        want = q2op.get(q.func.attr)
        n += 1
        ok = len(calls) == 1 and calls[0].func.attr == want
        same_args = ok and [ast.dump(a) for a in calls[0].args] == [ast.dump(a) for a in q.args] or (ok and not q.args and all(
            isinstance(a, ast.Constant) and a.value == '??' for a in calls[0].args))
        chk.ob('C16.pairs', f'state_actions:{q.func.attr}', ok and same_args, ctx.loc(sa, node),
               'a repair step performs exactly the operation its availability test names, with the arguments that were tested (or unknown cards)',
               got=[stmt_text(c) for c in calls], want=want)
    # every line taken from the history is parsed, at once: nothing stands between taking it and handing it to parse_action, and a
    # line is yielded from one place (what is yielded is what was applied - commentary lines are operations too)
    takes = [(n, b) for n in ast.walk(sa.node) for fld in ('body', 'orelse') for b in [getattr(n, fld, None)] if isinstance(b, list)]
    ok_take = False
    for _, block in takes:
        for k, st in enumerate(block):
            if isinstance(st, ast.Assign) and isinstance(st.value, ast.Call) and isinstance(st.value.func, ast.Attribute) \
                    and st.value.func.attr == 'popleft' and isinstance(st.targets[0], ast.Name):
                nxt = block[k + 1] if k + 1 < len(block) else None
                ok_take = isinstance(nxt, ast.Try) and any(
                    isinstance(c, ast.Call) and isinstance(c.func, ast.Name) and c.func.id == 'parse_action' and len(c.args) >= 2
                    and isinstance(c.args[0], ast.Name) and c.args[0].id == sv and isinstance(c.args[1], ast.Name) and c.args[1].id == st.targets[0].id
                    for b in nxt.body for c in ast.walk(b))
    # a repair step is made exactly when no line was applied (`action is None`): an applied line that happens to be falsy - the
    # empty text - is not a missing one
    act_names = {st.targets[0].id for _, block in takes for st in block if isinstance(st, ast.Assign) and isinstance(st.value, ast.Call)
                 and isinstance(st.value.func, ast.Attribute) and st.value.func.attr == 'popleft' and isinstance(st.targets[0], ast.Name)}
    def heads_chain(block):
        return bool(block) and isinstance(block[0], ast.If) and 'can_post_ante' in ast.unparse(block[0].test)
    gates = [n for n in ast.walk(sa.node) if isinstance(n, ast.If) and 'can_post_ante' not in ast.unparse(n.test)
             and (heads_chain(n.body) or heads_chain(n.orelse))]
    ok_gate = len(gates) == 1 and len(act_names) == 1 and \
        (T.cond(gates[0].test) if heads_chain(gates[0].body) else T.mk_not(T.cond(gates[0].test))) == T.spec(f'{next(iter(act_names))} is None', boolean=True)
    chk.ob('C16.pairs', 'state_actions:repair_gate', ok_gate, ctx.loc(sa, gates[0]) if gates else sa.loc,
           'the documented completion runs exactly when no line of the history was applied in this step (the line variable is None)',
           got=stmt_text(gates[0].test) if gates else None)
    n_yield = sum(isinstance(x, (ast.Yield, ast.YieldFrom)) for x in ast.walk(sa.node))
    chk.ob('C16.pairs', 'state_actions:every_line_parsed', ok_take and n_yield == 2, sa.loc,
           'a line taken from the history is handed to parse_action at once, and state-action pairs are yielded from one place (after the line '
           'was applied or a repair step was made)', got=f'parsed right after being taken: {ok_take}; yields: {n_yield}')
    # the documented repair: which omitted step is filled in first, and under which extra conditions (a free check only while
    # actions remain, a fold only while actions remain, a show only while the hand is running)
    want_chain = [
        f'{sv}.can_post_ante()', f'{sv}.can_collect_bets()', f'{sv}.can_post_blind_or_straddle()', f'{sv}.can_burn_card()', f'{sv}.can_deal_hole()',
        f'ACTIONS and not {sv}.checking_or_calling_amount and {sv}.can_check_or_call()', f'ACTIONS and {sv}.can_fold()',
        f'{sv}.status and {sv}.can_show_or_muck_hole_cards(())', f'{sv}.can_select_runout_count()', f'{sv}.can_kill_hand()',
        f'{sv}.can_push_chips()', f'{sv}.can_pull_chips()',
    ]
    qs0 = [n.targets[0].id for n in ctx.m.assigns(sa.node, 'deque(self.actions)') if isinstance(n.targets[0], ast.Name)]
    chain_ok = False
    got_chain = []
    for node in ast.walk(sa.node):
        if isinstance(node, ast.If) and (ctx.m.eq(T.cond(node.test), f'{sv}.can_post_ante()', boolean=True)
                                         or ctx.m.eq(T.cond(node.test), f'not {sv}.can_post_ante()', boolean=True)):
            cur = node
            tests = []
            tail = None
            while True:
                # (either polarity of every link: `if c: A else: <rest>` or `if not c: <rest> else: A`)
                if len(cur.orelse) == 1 and isinstance(cur.orelse[0], ast.If):
                    tests.append(T.cond(cur.test))
                    cur = cur.orelse[0]
                    continue
                if len(cur.body) == 1 and isinstance(cur.body[0], ast.If) and cur.orelse:
                    tests.append(T.mk_not(T.cond(cur.test)))
                    cur = cur.body[0]
                    continue
                if len(cur.body) == 1 and isinstance(cur.body[0], ast.Break) and cur.orelse:
                    tests.append(T.mk_not(T.cond(cur.test)))
                    tail = cur.body
                else:
                    tests.append(T.cond(cur.test))
                    tail = cur.orelse
                break
            got_chain = [T.show(t) for t in tests]
            want_terms = [T.spec(w.replace('ACTIONS', qs0[0] if qs0 else 'actions'), boolean=True) for w in want_chain]
            chain_ok = tests == want_terms and len(tail) == 1 and isinstance(tail[0], ast.Break)
    chk.ob('C16.pairs', 'state_actions:repair_order', chain_ok, sa.loc,
           'omitted steps are filled in this order and under these conditions: ante, collection, blind, burn, hole deal, a free check or a fold '
           '(only while written actions remain), a muck (only while the hand runs), run-out choice, kill, push, pull; otherwise the replay stops',
           got=got_chain)
    chk.floor('C16.pairs', 13)
    # no silent truncation: leftover actions are an error
    qs = [n.targets[0].id for n in ctx.m.assigns(sa.node, 'deque(self.actions)') if isinstance(n.targets[0], ast.Name)]
    qn = qs[0] if qs else 'actions'
    last = sa.body[-1] if sa.body else None
    ok = isinstance(last, ast.If) and ((T.cond(last.test) == T.truthy(('name', qn)) and any(isinstance(x, ast.Raise) for x in last.body))
                                       or (T.cond(last.test) == T.mk_not(T.truthy(('name', qn))) and any(isinstance(x, ast.Raise) for x in last.orelse)))
    chk.ob('C16.no_truncation', 'HandHistory.state_actions', bool(qs) and ok, sa.loc,
           'a history whose actions cannot all be applied ends in ValueError, never in a silently shorter replay')
    # a failed action is put back (not dropped) before the repair
    ok = any(isinstance(h, ast.ExceptHandler) and any(isinstance(c, ast.Call) and isinstance(c.func, ast.Attribute) and c.func.attr == 'appendleft'
                                                        for s in h.body for c in ast.walk(s)) for h in ast.walk(sa.node))
    chk.ob('C16.no_truncation', 'HandHistory.state_actions:requeue', ok, sa.loc,
           'an action that cannot be applied yet is put back at the head of the queue while omitted steps are filled in')


# --------------------------------------------------------------------- dumps
def _dump(chk, ctx, hh) -> None:
    dm = hh.methods.get('dumps')
    if dm is None:
        raise AnalysisError('HandHistory.dumps vanished')
    nested = {n.name: n for n in dm.node.body if isinstance(n, ast.FunctionDef)}
    cv, ck = nested.get('clean_value'), nested.get('clean_key')
    if cv is None or ck is None:
        raise AnalysisError('dumps: nested writers clean_value / clean_key vanished')
    # bool before int
    order = []
    for n in ast.walk(cv):
        if isinstance(n, ast.If) and isinstance(n.test, ast.Call) and isinstance(n.test.func, ast.Name) and n.test.func.id == 'isinstance':
            order.append((n.lineno, ast.unparse(n.test.args[1])))
    order = [t for _, t in sorted(order)]
    ok = 'bool' in order and all(order.index('bool') < order.index(t) for t in order if t in ('int', 'Number', 'float'))
    chk.ob('C16.bool_first', 'HandHistory.dumps.clean_value', ok and order[:1] == ['bool'], ctx.loc(dm, cv),
           'bool is dispatched before anything an int would fall into (True must be written `true`, not `True` or 1)', got=order)
    from ..tomlabs import check_writer
    check_writer(chk, ctx, dm, nested)
    # None is never written; user fields are written after the known ones
    loops = [n for n in dm.body if isinstance(n, ast.For)]
    ok = len(loops) == 2 and all('is not None' in ast.unparse(l) for l in loops) and 'user_defined_fields' in ast.unparse(loops[1].iter)
    chk.ob('C16.dump', 'HandHistory.dumps:loops', ok, dm.loc, 'known fields then user-defined fields are written, None values skipped (TOML has no null)')
    # the container forms: a list is `[a, b]`, a table is `{k = v, ...}` of cleaned keys and values, a string goes through the string writer
    m = ctx.m
    shapes = {
        'list': bool(m.assigns(cv, "'[' + ', '.join(map(clean_value, value)) + ']'")),
        'inline table': bool(m.exprs(cv, "'{' + ', '.join(map(' = '.join, zip(map(clean_key, value.keys()), map(clean_value, value.values())))) + '}'"))
        or (bool(m.exprs(cv, "'{' + ', '.join(pairs) + '}'")) and bool(m.exprs(cv, "map(' = '.join, zip(keys, values))"))
            and bool(m.exprs(cv, 'map(clean_key, value.keys())')) and bool(m.exprs(cv, 'map(clean_value, value.values())'))),
        'string (multi-line allowed)': bool(m.exprs(cv, 'clean_string(value, True)')),
        'key (single line)': bool(m.exprs(ck, 'clean_string(key, False)')),
        'bool in lower case': bool(m.exprs(cv, 'repr(value).lower()')),
        # TOML spells infinity `inf`: a Decimal writes itself `Infinity`, which no TOML reader takes back
        'an unbounded Decimal amount is written inf': 'Decimal' in order and any(
            isinstance(n, ast.If) and ast.unparse(n.test) == 'isinstance(value, Decimal)' and any(
                isinstance(x, ast.IfExp) and isinstance(x.body, ast.Constant) and x.body.value == 'inf' and T.cond(x.test) == T.spec('value == inf', boolean=True)
                and T.norm(x.orelse) == T.spec('str(value)') for st in n.body for x in ast.walk(st))
            or (ast.unparse(n.test) == 'isinstance(value, Decimal)' and any(
                isinstance(y, ast.If) and T.cond(y.test) == T.spec('value == inf', boolean=True) for st in n.body for y in ast.walk(st)))
            for n in ast.walk(cv) if isinstance(n, ast.If)),
        'a time of day is written as text of its own arm': 'datetime.time' in order,
    }
    missing = [k for k, v in shapes.items() if not v]
    chk.ob('C16.dump', 'HandHistory.dumps:containers', not missing, ctx.loc(dm, cv),
           'lists, inline tables, strings, keys and booleans are written in their TOML forms from cleaned parts', got=f'not found: {missing}' if missing else 'ok')
    # the file forms are the string forms: dump writes dumps() encoded, load reads loads() of the decoded content
    dp, lf = hh.methods.get('dump'), hh.methods.get('load')
    ok_d = dp is not None and bool(m.calls(dp.node, 'fp.write(self.dumps().encode())'))
    ok_l = lf is not None and any(isinstance(n, ast.Return) and n.value is not None and 'cls.loads(' in ast.unparse(n.value) and '.read()' in ast.unparse(n.value)
                                   and '.decode()' in ast.unparse(n.value) for n in ast.walk(lf.node))
    chk.ob('C16.dump', 'HandHistory.dump/load', ok_d and ok_l, dp.loc if dp else hh.loc,
           'dump writes exactly dumps() (encoded) and load reads exactly loads() of the decoded file', got=f'dump: {ok_d}; load: {ok_l}')
    # several hands in one file: numbered tables [1], [2], ... of the single-hand text, read back table by table
    da, la, dfa, lfa = (hh.methods.get(k) for k in ('dumps_all', 'loads_all', 'dump_all', 'load_all'))
    multi = {
        'each hand under its own header [i + 1]': da is not None and any(
            isinstance(n, ast.JoinedStr) and T.alpha_eq(_text_shape(n), _text_shape(ast.parse("f'[{i + 1}]\\n{phh.dumps()}'", mode='eval').body), m.var_test(da.node))
            for n in ast.walk(da.node))
        if da is not None else False,
        'hands numbered in the order given': da is not None and bool(m.collects(da.node, 'enumerate(phhs)', nested=True)),
        'every hand is kept, joined by blank lines': da is not None and bool(m.collects(da.node, 'enumerate(phhs)', nested=True)) and any(
            isinstance(c, ast.Call) and isinstance(c.func, ast.Attribute) and c.func.attr == 'join' and isinstance(c.func.value, ast.Constant)
            and c.func.value.value == '\n\n' and len(c.args) == 1 and isinstance(c.args[0], (ast.Name, ast.ListComp)) for c in ast.walk(da.node)),
        'every table is read back as a hand': la is not None and bool(m.fors(la.node, 'loads_toml(s, parse_float=parse_value).values()'))
        and any(isinstance(n, ast.Yield) for n in ast.walk(la.node)),
        'file forms are the string forms': dfa is not None and bool(m.calls(dfa.node, 'fp.write(cls.dumps_all(phhs).encode())'))
        and lfa is not None and 'cls.loads_all(fp.read().decode()' in ast.unparse(lfa.node),
    }
    missing = [k for k, v in multi.items() if not v]
    chk.ob('C16.dump', 'HandHistory.dumps_all/loads_all', not missing, da.loc if da else hh.loc,
           'a file of several hands is the hands, in order, under numbered headers; loading yields every one of them', got=f'not found: {missing}' if missing else 'ok')
    # loads: unknown keys become user fields; parse_float goes through parse_value
    ld = hh.methods.get('loads')
    ok = ld is not None and any(isinstance(n, ast.Call) and getattr(n.func, 'id', '') == 'loads_toml'
                                and any(k.arg == 'parse_float' and getattr(k.value, 'id', '') == 'parse_value' for k in n.keywords) for n in ast.walk(ld.node))
    chk.ob('C16.dump', 'HandHistory.loads', ok, ld.loc if ld else hh.loc, 'decimal chip values are read back through parse_value (not as binary floats)')
    ff = hh.methods.get('_filter_non_fields')
    ok = False
    if ff is not None:
        for n in ast.walk(ff.node):
            if isinstance(n, ast.For) and 'items' in ast.unparse(n.iter) and isinstance(n.target, ast.Tuple) and len(n.target.elts) == 2:
                k_, v_ = (e.id for e in n.target.elts)
                ok = any(isinstance(x, ast.Assign) and isinstance(x.targets[0], ast.Subscript) and isinstance(x.targets[0].value, ast.Subscript)
                         and T.norm(x.targets[0].value.slice) == ('const', 'user_defined_fields') and T.norm(x.targets[0].slice) == ('name', k_)
                         and T.norm(x.value) == ('name', v_) for x in ast.walk(n))
    chk.ob('C16.dump', 'HandHistory._filter_non_fields', ok, ff.loc if ff else hh.loc, 'keys that are not fields are kept as user-defined fields, not dropped')
