"""C16 - hand histories survive a save/load round trip and replay to the same result.

Decided statically (writer/reader tables): the verb written for each operation
class is parsed back into the operation that produces that class; player
numbering is inverted; every field `create_game` consumes and that can be
serialised is populated by `from_game_state` and dumped; the repair branches of
the replay loop call the operation their guard names; leftover actions raise;
`bool` is dispatched before `int`; the TOML writer's string/key arms are total
over `str` (finite abstract interpretation over the predicates the TOML
grammar distinguishes).
Not decided: textual identity of dump(load(dump(x))) on concrete values.
"""
from __future__ import annotations

import ast

from .. import terms as T
from ..evalstatic import SEval
from ..model import AnalysisError, self_attr, stmt_text, walk_no_nested
from .c08 import TABLE as TRIPLES

# PHH action grammar (docs/notation.rst): record class -> verb tokens
VERBS = {
    'HoleDealing': ('d', 'dh'),
    'BoardDealing': ('d', 'db'),
    'StandingPatOrDiscarding': ('sd',),
    'BringInPosting': ('pb',),
    'Folding': ('f',),
    'CheckingOrCalling': ('cc',),
    'CompletionBettingOrRaisingTo': ('cbr',),
    'HoleCardsShowingOrMucking': ('sm',),
}


def _str_consts(e):
    out = []
    for n in ast.walk(e):
        if isinstance(n, ast.Constant) and isinstance(n.value, str):
            out.append(n.value)
    return out


def writer_table(fi):
    """operation class -> tuple of literal tokens written (player placeholder dropped); the arms are found by
    their isinstance test on the loop variable over the operations (either branch polarity), not by names"""
    from .c17 import arms_of, op_var
    op = op_var(fi.node)
    table = {}
    for classes, node, body, test in arms_of(fi.node, op):
        if len(classes) != 1:
            continue
        for st in body:
            if isinstance(st, ast.Assign) and isinstance(st.targets[0], ast.Name) \
                    and not (isinstance(st.value, ast.Constant) and st.value.value is None):
                consts = _str_consts(st.value)
                if consts:
                    toks = ' '.join(consts).split()
                    table[classes[0]] = (tuple(x for x in toks if x != 'p'), st)
    # dealing actions are written by a nested helper
    for n in ast.walk(fi.node):
        if isinstance(n, ast.FunctionDef) and n is not fi.node:
            for st in ast.walk(n):
                if isinstance(st, ast.Assign) and isinstance(st.targets[0], ast.Name):
                    toks = tuple(x for x in ' '.join(_str_consts(st.value)).split() if x != 'p')
                    if toks[:2] == ('d', 'dh'):
                        table['HoleDealing'] = (toks[:2], st)
                    elif toks[:2] == ('d', 'db'):
                        table['BoardDealing'] = (toks[:2], st)
    return table


def _text_shape(e):
    """a string-building expression as a term in which f-strings keep their parts (literal text and formatted terms)"""
    if isinstance(e, ast.JoinedStr):
        parts = []
        for v in e.values:
            if isinstance(v, ast.Constant):
                parts.append(('const', v.value))
            else:
                parts.append(('fmt', T.norm(v.value), v.conversion, _text_shape(v.format_spec) if v.format_spec is not None else ('const', None)))
        return ('fstring', tuple(parts))
    if isinstance(e, ast.BinOp) and isinstance(e.op, ast.Add):
        return ('concat', (_text_shape(e.left), _text_shape(e.right)))
    return T.norm(e)


def reader_table(fi):
    """tuple of literal tokens -> set of State methods called (from the match over the words)"""
    table = {}
    for n in ast.walk(fi.node):
        if isinstance(n, ast.Match):
            for case in n.cases:
                pat = case.pattern
                if not isinstance(pat, ast.MatchSequence):
                    continue
                lits = []
                for sp in pat.patterns:
                    if isinstance(sp, ast.MatchValue) and isinstance(sp.value, ast.Constant):
                        lits.append(sp.value.value)
                calls = set()
                for st in case.body:
                    for c in ast.walk(st):
                        if isinstance(c, ast.Call) and isinstance(c.func, ast.Attribute) and isinstance(c.func.value, ast.Name) \
                                and c.func.value.id == 'state':
                            calls.add(c.func.attr)
                key = tuple(x for x in lits if x != '-')
                table.setdefault(key, set()).update(calls)
    return table


def record_table(ctx):
    """State operation -> record class it builds"""
    out = {}
    ops = {c.name for c in ctx.prog.subclasses('Operation')}
    for op in TRIPLES:
        fi = ctx.sfi(op)
        made = {n.func.id for n in walk_no_nested(fi.node) if isinstance(n, ast.Call) and isinstance(n.func, ast.Name) and n.func.id in ops}
        if len(made) == 1:
            out[op] = next(iter(made))
    return out


def run(chk, ctx) -> None:
    prog = ctx.prog
    hh = prog.cls('HandHistory')
    fgs = hh.methods.get('from_game_state')
    pa = prog.func('notation.parse_action')
    if fgs is None:
        raise AnalysisError('HandHistory.from_game_state vanished')
    wt = writer_table(fgs)
    rt = reader_table(pa)
    rec = record_table(ctx)
    chk.analysed['writer_table'] = {k: list(v[0]) for k, v in wt.items()}
    chk.analysed['reader_table'] = {' '.join(k): sorted(v) for k, v in rt.items()}
    for cls, verb in VERBS.items():
        got = wt.get(cls)
        chk.ob('C16.verbs', f'write:{cls}', got is not None and got[0] == verb, ctx.loc(fgs, got[1]) if got else fgs.loc,
               'the verb written for the operation is the one of the PHH grammar', got=got[0] if got else None, want=verb)
        methods = rt.get(verb, set())
        back = {rec.get(m) for m in methods}
        chk.ob('C16.verbs', f'read:{" ".join(verb)}', back == {cls}, pa.loc,
               'the verb is parsed back into the operation that produces the same record class (write o read = identity)',
               got=f'{sorted(methods)} -> {sorted(map(str, back))}', want=cls)
    for cls in wt:
        if cls not in VERBS:
            chk.ob('C16.verbs', f'write:{cls}', False, fgs.loc, 'an operation class is written with a verb the PHH grammar does not have', got=wt[cls][0])
    chk.floor('C16.verbs', 16)
    # what is written after the verb is the whole content of the record (nothing filtered, nothing re-ordered): the shape of
    # every written action text, f-strings compared part by part
    want_text = {
        'StandingPatOrDiscarding': "f'p{operation.player_index + 1} sd ' + ''.join(map(repr, operation.cards))",
        'BringInPosting': "f'p{operation.player_index + 1} pb'",
        'Folding': "f'p{operation.player_index + 1} f'",
        'CheckingOrCalling': "f'p{operation.player_index + 1} cc'",
        'CompletionBettingOrRaisingTo': "f'p{operation.player_index + 1} cbr {operation.amount}'",
        'HoleCardsShowingOrMucking': "f'p{operation.player_index + 1} sm ' + ''.join(map(repr, operation.hole_cards))",
        'HoleDealing': "f'd dh p{player_index + 1} ' + ''.join(map(repr, hole_cards[player_index]))",
        'BoardDealing': "'d db ' + ''.join(map(repr, board_cards))",
    }
    for cls, src in want_text.items():
        got = wt.get(cls)
        if got is None:
            continue
        ok = T.alpha_eq(_text_shape(got[1].value), _text_shape(ast.parse(src, mode='eval').body), ctx.m.var_test(fgs.node))
        chk.ob('C16.verbs', f'text:{cls}', ok, ctx.loc(fgs, got[1]),
               'the action text is the player, the verb and the complete content of the record (every card, the amount) - nothing filtered',
               got=ast.unparse(got[1].value)[:160], want=src)
    # the dealing actions accumulate exactly the cards of the dealing records
    acc = {'BoardDealing': 'board_cards.extend(operation.cards)', 'HoleDealing': 'hole_cards[operation.player_index].extend(operation.cards)'}
    for cls, src in acc.items():
        ok = bool(ctx.m.calls(fgs.node, src))
        chk.ob('C16.verbs', f'accumulate:{cls}', ok, fgs.loc, 'dealt cards are collected from the dealing record, per player / for the board, all of them', want=src)
    # player numbering: written 1-based from player_index + 1, read back with - 1
    # every number written right after the literal `p` is a 0-based index plus one
    plus = []
    for n in ast.walk(fgs.node):
        if isinstance(n, ast.JoinedStr):
            for a, b in zip(n.values, n.values[1:]):
                if isinstance(a, ast.Constant) and isinstance(a.value, str) and a.value.endswith('p') and isinstance(b, ast.FormattedValue):
                    plus.append(T.norm(b.value))
    ok_w = bool(plus) and all(t[0] == 'lin' and t[2] == 1 and len(t[1]) == 1 and t[1][0][1] == 1 for t in plus)
    gp = [n for n in ast.walk(pa.node) if isinstance(n, ast.FunctionDef) and n is not pa.node]
    ok_r = any(ctx.m.eq(T.norm(x), 'int(player[1:]) - 1') for n in gp for x in ast.walk(n) if isinstance(x, ast.expr))
    chk.ob('C16.verbs', 'player_numbering', ok_w and ok_r, pa.loc, 'players are written 1-based (index + 1) and read back as number - 1',
           got=f'writer: {ok_w}; reader: {ok_r}')
    # arguments of the parsed operations
    want_calls = {
        ('cbr',): 'state.complete_bet_or_raise_to(parse_value(amount), commentary=commentary)',
        ('d', 'db'): 'state.deal_board(cards)',
        ('d', 'dh'): 'state.deal_hole(cards, get_player_index(), commentary=commentary)',
    }
    for n in ast.walk(pa.node):
        if isinstance(n, ast.Match):
            for case in n.cases:
                lits = tuple(sp.value.value for sp in getattr(case.pattern, 'patterns', []) if isinstance(sp, ast.MatchValue) and isinstance(sp.value, ast.Constant))
                if lits in want_calls:
                    calls = [T.norm(c) for st in case.body for c in ast.walk(st) if isinstance(c, ast.Call) and isinstance(c.func, ast.Attribute)
                             and isinstance(c.func.value, ast.Name) and c.func.value.id == 'state']
                    chk.ob('C16.verbs', f'args:{" ".join(lits)}', len(calls) == 1 and ctx.m.eq(calls[0], want_calls[lits]), ctx.loc(pa, case.pattern),
                           'the parsed operation receives the written value (amount through parse_value, cards and player in order)',
                           got=[T.show(c) for c in calls], want=want_calls[lits])
    sm = {}
    for n in ast.walk(pa.node):
        if not isinstance(n, ast.Match):
            continue
        for case in n.cases:
            pat = case.pattern
            if not isinstance(pat, ast.MatchSequence):
                continue
            shape = tuple(sp.value.value if isinstance(sp, ast.MatchValue) and isinstance(sp.value, ast.Constant) else '*' for sp in pat.patterns)
            if 'sm' not in shape:
                continue
            sm[shape] = [T.norm(c.args[0]) for st in case.body for c in ast.walk(st) if isinstance(c, ast.Call)
                         and isinstance(c.func, ast.Attribute) and c.func.attr == 'show_or_muck_hole_cards' and c.args]
    want_sm = {('*', 'sm'): [('const', False)], ('*', 'sm', '-'): [('const', True)], ('*', 'sm', '*'): [('name', 'cards')]}
    chk.ob('C16.verbs', 'args:sm', sm == want_sm, pa.loc, '`sm` alone is a muck, `sm -` shows everything, `sm <cards>` shows those cards',
           got={' '.join(k): [T.show(x) for x in v] for k, v in sm.items()})

    # commentary: written as `<action> # <text>` (or `# <text>` alone) and read back as the raw text after `# `
    rd = []
    for n in ctx.m.ifs(pa.node, "'#' in action"):      # (a conditional expression is read as this statement form)
        if len(n.body) == 1 and len(n.orelse) == 1 and ctx.m.assigns(n, "action[action.index('#') + 2:]") \
                and isinstance(n.orelse[0], ast.Assign) and isinstance(n.orelse[0].value, ast.Constant) and n.orelse[0].value.value is None \
                and ast.dump(n.body[0].targets[0]) == ast.dump(n.orelse[0].targets[0]):
            rd.append(n)
    wr = [n for n in ast.walk(fgs.node) if isinstance(n, ast.JoinedStr) and [v.value for v in n.values if isinstance(v, ast.Constant)] in ([' # '], ['# '])
          and any(isinstance(v, ast.FormattedValue) and 'commentary' in ast.unparse(v.value) for v in n.values)]
    chk.ob('C16.commentary', 'parse_action~from_game_state', len(rd) == 1 and len(wr) == 2, pa.loc,
           'a commentary is written verbatim after `# ` and read back as the raw remainder of the line (no re-tokenising: inner spacing is text)',
           got=f'reader takes the raw slice: {len(rd) == 1}; writer forms found: {len(wr)}')
    from .helpers import no_format_specs, parse_value_helper
    from .helpers import default_helpers
    default_helpers(chk, ctx, 'C16.fields', ['notation'])
    no_format_specs(chk, ctx, 'C16.dump', [fgs] + [f for f in (hh.methods.get('dumps'), hh.methods.get('dump')) if f is not None])
    parse_value_helper(chk, ctx, 'C16.values')
    _fields(chk, ctx, hh, fgs)
    _replay(chk, ctx, hh)
    _dump(chk, ctx, hh)


def _hh_fields(hh):
    out = []
    for name, node in hh.attr_nodes.items():
        if isinstance(node, ast.AnnAssign) and 'ClassVar' not in ast.unparse(node.annotation) and name != '_':
            out.append(name)
    return out


def _fields(chk, ctx, hh, fgs) -> None:
    prog = ctx.prog
    sev = SEval(prog)
    cg = hh.methods.get('create_game')
    if cg is None:
        raise AnalysisError('HandHistory.create_game vanished')
    fields = _hh_fields(hh)
    req = sev.class_attr('HandHistory', 'required_field_names')
    opt = sev.class_attr('HandHistory', 'optional_field_names')
    if not isinstance(req, dict) or not isinstance(opt, tuple):
        raise AnalysisError('required/optional field tables are not literal any more')
    req_all = set().union(*[set(v) for v in req.values()])
    dumped = req_all | set(opt)
    # what create_game reads from self (besides the required-name loop)
    consumed = {self_attr(n) for n in ast.walk(cg.node) if self_attr(n) in fields}
    consumed |= req_all
    populated = set()
    for n in ast.walk(fgs.node):
        if isinstance(n, ast.Call) and isinstance(n.func, ast.Attribute) and n.func.attr == 'setdefault' \
                and isinstance(n.func.value, ast.Name) and n.func.value.id == 'kwargs' and n.args and isinstance(n.args[0], ast.Constant):
            populated.add(n.args[0].value)
    loops_req = any(isinstance(n, ast.For) and 'required_field_names' in ast.unparse(n.iter) for n in ast.walk(fgs.node))
    if loops_req:
        populated |= req_all
    for f in sorted(consumed & dumped):
        chk.ob('C16.fields', f'HandHistory.{f}', f in populated, fgs.loc,
               'a field that decides how the game is re-created and that is written to the file is filled in from the game / state that was played',
               got='populated' if f in populated else 'never set by from_game_state: a loaded history silently uses the default')
    chk.floor('C16.fields', 10)
    # required names resolve on the game or on the state
    poker = prog.cls('Poker')
    game_attrs = set(poker.methods) | {self_attr(t) for n in ast.walk(poker.methods['__init__'].node) if isinstance(n, (ast.Assign, ast.AnnAssign))
                                       for t in ([n.target] if isinstance(n, ast.AnnAssign) else n.targets) if self_attr(t)}
    state_attrs = set(ctx.state.ann) | set(ctx.state.methods)
    for f in sorted(req_all - {'variant', 'actions', 'starting_stacks'}):
        where = 'game' if f in game_attrs else 'state' if f in state_attrs else None
        chk.ob('C16.fields', f'source:{f}', where is not None, fgs.loc,
               'every required field has a same-named attribute on the game or on the state to be filled from', got=where)
    # dump: every serialisable field of the dataclass is written
    non_serial = {'user_defined_fields', 'automations', 'divmod', 'rake', 'parse_value'}
    for f in fields:
        if f in non_serial:
            continue
        chk.ob('C16.dump', f'HandHistory.{f}', f in dumped, hh.loc,
               'every data field of a hand history is in the required or optional name list and is therefore written by dumps')
    chk.floor('C16.dump', 30)
    # names handed to the game constructor
    ok = False
    for n in ast.walk(cg.node):
        if isinstance(n, ast.If):
            t = T.cond(n.test)
            pos = ctx.m.eq(t, "name == 'antes' or name == 'blinds_or_straddles'", boolean=True)
            neg = ctx.m.eq(T.mk_not(t), "name == 'antes' or name == 'blinds_or_straddles'", boolean=True)
            if pos or neg:
                body = n.body if pos else n.orelse
                ok = any(isinstance(s2, ast.Assign) and isinstance(s2.value, ast.JoinedStr) and ''.join(_str_consts(s2.value)) == 'raw_' for s2 in body)
    chk.ob('C16.names', 'HandHistory.create_game', ok, cg.loc, 'antes / blinds_or_straddles are handed to the game as raw_antes / raw_blinds_or_straddles')
    pops = sorted(n.args[0].value for n in ast.walk(cg.node) if isinstance(n, ast.Call) and isinstance(n.func, ast.Attribute) and n.func.attr == 'pop'
                  and n.args and isinstance(n.args[0], ast.Constant))
    chk.ob('C16.names', 'HandHistory.create_game:non_game_fields', pops == ['actions', 'starting_stacks', 'variant'], cg.loc,
           'exactly the fields that are not game parameters are removed before the game is built', got=pops)
    # every remaining kwarg is a constructor parameter of every variant class
    gt = sev.class_attr('HandHistory', 'game_types')
    base_kw = {'automations', 'divmod', 'rake', 'ante_trimming_status', 'mode'}
    for code, names in req.items():
        cref = gt.get(code) if isinstance(gt, dict) else None
        if cref is None:
            continue
        init = prog.resolve_method(prog.cls(cref.name), '__init__')
        kw = base_kw | {('raw_' + x if x in ('antes', 'blinds_or_straddles') else x) for x in names} - {'variant', 'starting_stacks', 'actions'}
        missing = sorted(kw - set(init.params))
        unfilled = sorted(p for p in init.pos_params if p != 'self' and p not in kw)
        chk.ob('C16.names', f'create_game:{code}', not missing and not unfilled, cg.loc,
               'the keyword arguments built for the variant are exactly the parameters of its constructor', got=f'unknown: {missing}; unfilled: {unfilled}')


def _replay(chk, ctx, hh) -> None:
    sa = hh.methods.get('state_actions')
    if sa is None:
        raise AnalysisError('HandHistory.state_actions vanished')
    q2op = {q: op for op, (v, q) in TRIPLES.items()}
    svs = [n.targets[0].id for n in ctx.m.assigns(sa.node, 'self.create_state()') if isinstance(n.targets[0], ast.Name)]
    if len(svs) != 1:
        raise AnalysisError('state_actions: the replayed state is not created by exactly one self.create_state()')
    sv = svs[0]
    n = 0
    for node in ast.walk(sa.node):
        if not isinstance(node, ast.If):
            continue
        cans = [c for c in ast.walk(node.test) if isinstance(c, ast.Call) and isinstance(c.func, ast.Attribute)
                and isinstance(c.func.value, ast.Name) and c.func.value.id == sv and c.func.attr.startswith('can_')]
        if len(cans) != 1:
            continue
        q = cans[0]
        negated = any(isinstance(x, ast.UnaryOp) and isinstance(x.op, ast.Not) and any(y is q for y in ast.walk(x.operand)) for x in ast.walk(node.test))
        branch = node.orelse if negated else node.body
        # the first statements of the branch up to (not into) the next availability test
        calls = []
        for st in branch:
            if isinstance(st, ast.If) and any(isinstance(c, ast.Call) and isinstance(c.func, ast.Attribute) and c.func.attr.startswith('can_') for c in ast.walk(st.test)):
                break
            for c in ast.walk(st):
                if isinstance(c, ast.Call) and isinstance(c.func, ast.Attribute) and isinstance(c.func.value, ast.Name) \
                        and c.func.value.id == sv and not c.func.attr.startswith('can_'):
                    calls.append(c)
        want = q2op.get(q.func.attr)
        n += 1
        ok = len(calls) == 1 and calls[0].func.attr == want
        same_args = ok and [ast.dump(a) for a in calls[0].args] == [ast.dump(a) for a in q.args] or (ok and not q.args and all(
            isinstance(a, ast.Constant) and a.value == '??' for a in calls[0].args))
        chk.ob('C16.pairs', f'state_actions:{q.func.attr}', ok and same_args, ctx.loc(sa, node),
               'a repair step performs exactly the operation its availability test names, with the arguments that were tested (or unknown cards)',
               got=[stmt_text(c) for c in calls], want=want)
    chk.floor('C16.pairs', 12)
    # no silent truncation: leftover actions are an error
    qs = [n.targets[0].id for n in ctx.m.assigns(sa.node, 'deque(self.actions)') if isinstance(n.targets[0], ast.Name)]
    qn = qs[0] if qs else 'actions'
    last = sa.body[-1] if sa.body else None
    ok = isinstance(last, ast.If) and ((T.cond(last.test) == T.truthy(('name', qn)) and any(isinstance(x, ast.Raise) for x in last.body))
                                       or (T.cond(last.test) == T.mk_not(T.truthy(('name', qn))) and any(isinstance(x, ast.Raise) for x in last.orelse)))
    chk.ob('C16.no_truncation', 'HandHistory.state_actions', bool(qs) and ok, sa.loc,
           'a history whose actions cannot all be applied ends in ValueError, never in a silently shorter replay')
    # a failed action is put back (not dropped) before the repair
    ok = any(isinstance(h, ast.ExceptHandler) and any(isinstance(c, ast.Call) and isinstance(c.func, ast.Attribute) and c.func.attr == 'appendleft'
                                                        for s in h.body for c in ast.walk(s)) for h in ast.walk(sa.node))
    chk.ob('C16.no_truncation', 'HandHistory.state_actions:requeue', ok, sa.loc,
           'an action that cannot be applied yet is put back at the head of the queue while omitted steps are filled in')


# --------------------------------------------------------------------- dumps
def _dump(chk, ctx, hh) -> None:
    dm = hh.methods.get('dumps')
    if dm is None:
        raise AnalysisError('HandHistory.dumps vanished')
    nested = {n.name: n for n in dm.node.body if isinstance(n, ast.FunctionDef)}
    cv, ck = nested.get('clean_value'), nested.get('clean_key')
    if cv is None or ck is None:
        raise AnalysisError('dumps: nested writers clean_value / clean_key vanished')
    # bool before int
    order = []
    for n in ast.walk(cv):
        if isinstance(n, ast.If) and isinstance(n.test, ast.Call) and isinstance(n.test.func, ast.Name) and n.test.func.id == 'isinstance':
            order.append((n.lineno, ast.unparse(n.test.args[1])))
    order = [t for _, t in sorted(order)]
    ok = 'bool' in order and all(order.index('bool') < order.index(t) for t in order if t in ('int', 'Number', 'float'))
    chk.ob('C16.bool_first', 'HandHistory.dumps.clean_value', ok and order[:1] == ['bool'], ctx.loc(dm, cv),
           'bool is dispatched before anything an int would fall into (True must be written `true`, not `True` or 1)', got=order)
    from ..tomlabs import check_writer
    check_writer(chk, ctx, dm, nested)
    # None is never written; user fields are written after the known ones
    loops = [n for n in dm.body if isinstance(n, ast.For)]
    ok = len(loops) == 2 and all('is not None' in ast.unparse(l) for l in loops) and 'user_defined_fields' in ast.unparse(loops[1].iter)
    chk.ob('C16.dump', 'HandHistory.dumps:loops', ok, dm.loc, 'known fields then user-defined fields are written, None values skipped (TOML has no null)')
    # loads: unknown keys become user fields; parse_float goes through parse_value
    ld = hh.methods.get('loads')
    ok = ld is not None and any(isinstance(n, ast.Call) and getattr(n.func, 'id', '') == 'loads_toml'
                                and any(k.arg == 'parse_float' and getattr(k.value, 'id', '') == 'parse_value' for k in n.keywords) for n in ast.walk(ld.node))
    chk.ob('C16.dump', 'HandHistory.loads', ok, ld.loc if ld else hh.loc, 'decimal chip values are read back through parse_value (not as binary floats)')
    ff = hh.methods.get('_filter_non_fields')
    ok = False
    if ff is not None:
        for n in ast.walk(ff.node):
            if isinstance(n, ast.For) and 'items' in ast.unparse(n.iter) and isinstance(n.target, ast.Tuple) and len(n.target.elts) == 2:
                k_, v_ = (e.id for e in n.target.elts)
                ok = any(isinstance(x, ast.Assign) and isinstance(x.targets[0], ast.Subscript) and isinstance(x.targets[0].value, ast.Subscript)
                         and T.norm(x.targets[0].value.slice) == ('const', 'user_defined_fields') and T.norm(x.targets[0].slice) == ('name', k_)
                         and T.norm(x.value) == ('name', v_) for x in ast.walk(n))
    chk.ob('C16.dump', 'HandHistory._filter_non_fields', ok, ff.loc if ff else hh.loc, 'keys that are not fields are kept as user-defined fields, not dropped')
