"""C01 - chips are conserved.

Decided statically (ledger / effect analysis).  The invariant is split into
clauses each of which is visible in the shape of the code on every path:
  mirror    stacks[k] and payoffs[k] always change by the same symbolic amount
            (=> stack - payoff = starting stack at every point),
  transfer  a wager/pull moves the same amount between stack and bet,
  pots      the pots are recomputed from -payoffs - bets (so stack+bet+pot is
            the starting stack by `mirror`), rake parts both reach the Pot,
  divmod    every split adds the quotient once per element and the remainder
            exactly once,
  bounds    every stack decrement is bounded by the stack,
  helpers   default divmod / rake return parts that add up,
  owner     nobody else writes the ledger,
  terminal  pulling is offered for exactly the positive bets and zeroes them,
  exhaustive_split  the arms that queue chips for pushing cover every case.
Not decided: arithmetic of the contribution-layer loop in `pots` on concrete
values; float/Decimal rounding; user-supplied divmod/rake callbacks.
"""
from __future__ import annotations

import ast

from .. import terms as T
from ..model import AnalysisError, self_attr, stmt_text, walk_no_nested
from ..paths import Walker, unversion

CHIP = ('stacks', 'payoffs', 'bets')
LEDGER = CHIP + ('_pots', '_sub_pots')
INIT = ('_setup',)


def has_version(t, attrs=CHIP) -> bool:
    return T.mentions(t, lambda s: isinstance(s, tuple) and len(s) == 3 and s[0] == 'selfv' and s[1] in attrs)


def cell_deltas(path):
    """{(attr, idx term): delta term} of the chip cells written on the path.
    A read of a chip attribute after a write on the same path stays versioned
    (it does not cancel against the entry value)."""
    cur = {}
    order = []
    for e in path.events:
        if e.kind != 'write':
            continue
        t = e.term
        if t[0] != 'sub' or t[1][0] != 'self' or t[1][1] not in CHIP:
            if T.root_self_attr(t) in CHIP:
                cur[('?', t)] = ('opaque', 'whole-container write')
                order.append(('?', t))
            continue
        cell = (t[1][1], t[2])
        old = ('sub', ('self', cell[0]), cell[1])
        val = e.value
        if cell not in cur:
            cur[cell] = old
            order.append(cell)
        if e.op == 'set':
            cur[cell] = val
        elif e.op == '+=':
            cur[cell] = T.add(cur[cell], val)
        elif e.op == '-=':
            cur[cell] = T.add(cur[cell], val, -1)
        else:
            cur[cell] = ('opaque', e.op)
    out = {}
    for cell in order:
        if cell[0] == '?':
            out[cell] = cur[cell]
            continue
        old = ('sub', ('self', cell[0]), cell[1])
        v = cur[cell]
        out[cell] = T.add(v, old, -1) if v[0] != 'opaque' else v
    return out


def chip_writers(ctx):
    eff = ctx.eff
    out = {}
    for name in eff.methods:
        attrs = {r for r, _ in eff.write_sites.get(name, ()) if r in CHIP}
        if attrs and name not in INIT:
            out[name] = attrs
    return out


def returns_of(ctx, name, none_too=False):
    """(conds, value term) of the non-exceptional return paths of a State method"""
    fi = ctx.sfi(name)
    out = []
    for p in ctx.paths(fi):
        if not p.returned or p.outcome[1] is None:
            continue
        if any(e.kind == 'exc' for e in p.events):
            continue
        if p.outcome[1] == ('const', None) and not none_too:
            continue
        out.append(([unversion(c) for c in p.conds()], unversion(p.outcome[1])))
    return out


def run(chk, ctx) -> None:
    ms = ctx.state.methods
    writers = chip_writers(ctx)
    chk.analysed['chip_writers'] = {k: sorted(v) for k, v in sorted(writers.items())}
    _mirror_transfer(chk, ctx, writers)
    _divmod(chk, ctx)
    _pots(chk, ctx)
    _bounds(chk, ctx)
    _helpers(chk, ctx)
    from .helpers import default_helpers
    default_helpers(chk, ctx, 'C01.helpers', ['state', 'games', 'notation'])
    _owner(chk, ctx)
    _terminal(chk, ctx)
    _exhaustive_split(chk, ctx)
    from .cover import collect_conditions, initial_ledger, pots_resets
    initial_ledger(chk, ctx)
    pots_resets(chk, ctx)
    collect_conditions(chk, ctx)


# ------------------------------------------------------------ mirror/transfer
def _mirror_transfer(chk, ctx, writers) -> None:
    ms = ctx.state.methods
    for name, attrs in sorted(writers.items()):
        fi = ms[name]
        n_paths = 0
        mirror_bad = transfer_bad = None
        assumed = set()
        for p in ctx.paths(fi):
            if p.raised:
                continue
            d = cell_deltas(p)
            if not d:
                continue
            n_paths += 1
            idxs = {c[1] for c in d if c[0] != '?'}
            if any(c[0] == '?' for c in d):
                mirror_bad = ('whole container of the ledger is rebound', '', p)
            asserts = [unversion(e.term) for e in p.events if e.kind == 'assert']
            for idx in idxs:
                zero = T.num(0)
                ds = d.get(('stacks', idx), zero)
                dp = d.get(('payoffs', idx), zero)
                db = d.get(('bets', idx), zero)
                if ('stacks', idx) in d or ('payoffs', idx) in d:
                    if ds != dp:
                        mirror_bad = (f'd stacks[{T.show(idx)}] = {T.show(ds)}', f'd payoffs[{T.show(idx)}] = {T.show(dp)}', p)
                if name == 'collect_bets':
                    continue
                if name == 'push_chips':
                    continue
                if ('stacks', idx) in d or (('bets', idx) in d and 'stacks' in attrs):
                    res = T.add(ds, db)
                    if res != zero:
                        old_b = ('sub', ('self', 'bets'), idx)
                        if res == T.neg(old_b) and T.mk_not(T.truthy(old_b)) in asserts:
                            assumed.add(f'{name}: the bet of the player is 0 on entry (asserted; antes/blinds/bring-in are posted on a cleared table)')
                        else:
                            transfer_bad = (f'd stacks + d bets at [{T.show(idx)}] = {T.show(res)}', '0', p)
        if 'stacks' in attrs or 'payoffs' in attrs:
            chk.ob('C01.mirror', f'State.{name}', mirror_bad is None and n_paths > 0, fi.loc,
                   'on every path stacks[k] and payoffs[k] change by the same amount (payoff = stack - starting stack)',
                   got=' vs '.join(mirror_bad[:2]) if mirror_bad else f'{n_paths} writing path(s)', want='equal deltas')
        if name not in ('collect_bets', 'push_chips') and 'stacks' in attrs:
            chk.ob('C01.transfer', f'State.{name}', transfer_bad is None and n_paths > 0, fi.loc,
                   'the amount leaving the stack is the amount arriving in the bet (and vice versa)',
                   got=transfer_bad[0] if transfer_bad else 'd stacks + d bets = 0', want='0')
        for a in assumed:
            chk.assume(a)
    chk.floor('C01.mirror', 7)
    chk.floor('C01.transfer', 6)
    # ---- collect_bets: refund = bet - cutoff under bet > cutoff; every collected bet is zeroed
    fi = ctx.sfi('collect_bets')
    ok_refund = ok_zero = True
    seen_refund = seen_zero = False
    why = ''
    for p in ctx.paths(fi):
        if p.raised:
            continue
        d = cell_deltas(p)
        conds = [unversion(c) for c in p.conds()]
        for (attr, idx), dv in d.items():
            old_b = ('sub', ('self', 'bets'), idx)
            if attr == 'stacks':
                seen_refund = True
                # dv = bets0[idx] - cutoff, guarded by cutoff < bets0[idx]
                cutoff = T.add(old_b, dv, -1)
                if T.mentions(cutoff, lambda s: s == old_b):
                    ok_refund = False
                    why = f'refund {T.show(dv)} is not (bet - cutoff)'
                elif T.cmp('Gt', old_b, cutoff) not in conds:
                    ok_refund = False
                    why = f'refund of {T.show(dv)} is not guarded by bet > cutoff'
            if attr == 'bets':
                seen_zero = True
                if dv != T.neg(old_b):
                    ok_zero = False
    chk.ob('C01.collect', 'State.collect_bets:refund', ok_refund and seen_refund, fi.loc,
           'the uncalled part returned is (bet - cutoff) and is returned only when bet > cutoff', got=why or 'bet - cutoff under bet > cutoff')
    chk.ob('C01.collect', 'State.collect_bets:zeroed', ok_zero and seen_zero, fi.loc,
           'every collected bet is set to exactly 0 (its chips are then counted in the pots, see C01.pots)')
    cut = [p for p in ctx.paths(fi) if not p.raised]
    want_cut = T.spec('sorted(self.bets)[-2]')
    has_cut = any(want_cut in [unversion(v) for v in p.env.values() if isinstance(v, tuple)] for p in cut)
    chk.ob('C01.collect', 'State.collect_bets:cutoff', has_cut, fi.loc,
           'the cutoff is the second largest bet (only the part nobody called is returned)', want=T.show(want_cut))
    # ---- push_chips: pot -> bets
    fi = ctx.sfi('push_chips')
    ok = True
    n = 0
    why = ''
    for p in ctx.paths(fi):
        if p.raised:
            continue
        ws = p.writes()
        pot_w = [e for e in ws if T.root_self_attr(e.term) == '_pots' and e.op in ('-=', '+=', 'set')]
        bet_w = [e for e in ws if T.root_self_attr(e.term) == 'bets']
        if not pot_w and not bet_w:
            continue
        n += 1
        if len(pot_w) != 1 or pot_w[0].op != '-=' or pot_w[0].term[0] != 'attr' or pot_w[0].term[2] != 'unraked_amount':
            ok, why = False, 'the pushed amount is not subtracted once from pot.unraked_amount'
            continue
        amount = pot_w[0].value
        if any(e.op != '+=' for e in bet_w):
            ok, why = False, 'a bet is overwritten instead of increased'
        lone = [e for e in bet_w if e.value == amount]
        if bet_w and not lone:
            # the split branch: every increment comes from the divmod of `amount` (checked by C01.divmod)
            div = [e for e in p.calls() if e.value == ('self', 'divmod') or (e.term[0] == 'mcall' and e.term[2] == 'divmod')]
            if not div or unversion(div[-1].term[3][0]) != unversion(amount):
                ok, why = False, 'what is added to the bets is not derived from the amount taken out of the pot'
    chk.ob('C01.push', 'State.push_chips', ok and n > 0, fi.loc,
           'what leaves pot.unraked_amount is what is added to the winners\' bets (whole, or via divmod of the same amount)', got=why)
    # the sub-pot queue carries amounts derived from pot.unraked_amount only
    fi = ctx.sfi('_begin_chips_pushing')
    srcs = set()
    for p in ctx.paths(fi):
        for e in p.writes():
            if T.root_self_attr(e.term) == '_sub_pots' and e.op == 'call:append':
                srcs.add(T.key(unversion(e.value)))
    chk.ob('C01.push', 'State._begin_chips_pushing:queue', bool(srcs), fi.loc,
           'sub-pots are queued from pot.unraked_amount (whole, or its divmod parts: C01.divmod)')


# --------------------------------------------------------------------- divmod
def _divmod(chk, ctx) -> None:
    ms = ctx.state.methods
    sites = []
    for name, fi in ms.items():
        for n in walk_no_nested(fi.node):
            if isinstance(n, ast.Call) and self_attr(n.func) == 'divmod':
                sites.append((fi, n))
    for fi, call in sites:
        cname = f'State.{fi.name}:divmod(/{stmt_text(call.args[1], 30) if len(call.args) > 1 else ""})'
        # the assignment taking both results
        asg = None
        for n in walk_no_nested(fi.node):
            if isinstance(n, ast.Assign) and n.value is call:
                asg = n
        if asg is None or not isinstance(asg.targets[0], ast.Tuple) or len(asg.targets[0].elts) != 2 \
                or not all(isinstance(e, ast.Name) for e in asg.targets[0].elts):
            chk.ob('C01.divmod', cname, False, ctx.loc(fi, call), 'both results of divmod (quotient, remainder) must be taken')
            continue
        qn, rn = (e.id for e in asg.targets[0].elts)
        # the loop that distributes: the next For after the assignment in the same block
        block = _block_of(fi.node, asg)
        loop = None
        if block is not None:
            for st in block[block.index(asg) + 1:]:
                if isinstance(st, ast.For):
                    loop = st
                    break
        if loop is None:
            chk.ob('C01.divmod', cname, False, ctx.loc(fi, call), 'no distributing loop follows the division')
            continue
        # the two results keep their value while they are handed out: the loop does not bind the names again (an inner division
        # that re-uses them would leave the next element with a part of a part)
        rebound = [n for st in loop.body for n in ast.walk(st) if isinstance(n, ast.Name) and isinstance(n.ctx, ast.Store) and n.id in (qn, rn)]
        chk.ob('C01.divmod', cname + ':stable', not rebound, ctx.loc(fi, rebound[0]) if rebound else ctx.loc(fi, loop),
               'quotient and remainder are not re-bound inside the loop that hands them out', got=[stmt_text(n) for n in rebound[:2]])
        # environment at the division (locals resolved) from any path reaching it
        env = None
        for p in ctx.paths(fi):
            for e in p.events:
                if e.kind == 'call' and e.node is call:
                    env = dict(p.env)
                    divterm = unversion(e.term)
                    break
            if env is not None:
                break
        if env is None:
            raise AnalysisError(f'{fi.qualname}: divmod site unreachable')
        # note: p.env is the environment at the END of that path; re-derive the divisor from the call term instead
        divisor = divterm[3][1]
        Q, R = ('name', '#Q'), ('name', '#R')
        w = Walker(fi.node, modstar=ctx.eff.mod, body=[loop], env={**_env_at(ctx, fi, asg), qn: Q, rn: R})
        paths = w.run()
        it = None
        for p in paths:
            for e in p.events:
                if e.kind == 'loop' and e.node is loop:
                    it = unversion(e.term)
        ok_len, how = _length_is(ctx, it, divisor)
        chk.ob('C01.divmod', cname + ':arity', ok_len, ctx.loc(fi, loop),
               'the loop that hands out the parts ranges over exactly `divisor` elements',
               got=f'loop over {T.show(it)} ({how})', want=f'{T.show(divisor)} elements')
        # per-iteration sinks
        elem = None
        first_ok = rem_once = quo_each = True
        saw_rem = saw_plain = False
        detail = ''
        for p in paths:
            entered = [e for e in p.events if e.kind == 'loop' and e.node is loop and e.op == 'enter']
            if not entered:
                continue
            k = p.events.index(entered[0])
            body = []
            for e in p.events[k + 1:]:
                if e.kind == 'loop' and e.node is loop:
                    break
                body.append(e)
            sinks = []
            for e in body:
                if e.kind in ('write', 'call'):
                    for side in (e.term, e.value):
                        s = _amount_in(unversion(side), Q, R) if isinstance(side, tuple) else None
                        if s is not None:
                            sinks.append((e, s))
                            break
            conds = [unversion(e.term) for e in body if e.kind == 'assume']
            amounts = {T.key(s): s for _, s in sinks}
            if not sinks:
                # allowed only when the path skips a part that is zero: the test must be on the part itself
                lv = _loop_var_term(p, loop)
                # the skipped element is known not to be the first only if the path says so; otherwise its part includes the remainder
                not_first = any(_is_first_guard(T.mk_not(c), lv, it) for c in conds)
                part = Q if not_first else T.add(Q, R)
                if T.mk_not(T.truthy(part)) not in conds:
                    quo_each = False
                    detail = f'a part is not handed out although it need not be zero (the skip is not a test of the part {T.show(part)})'
                continue
            if len(amounts) != 1:
                quo_each = False
                detail = 'the part is added more than once in one iteration'
                continue
            s = next(iter(amounts.values()))
            if s == Q:
                saw_plain = True
            elif s == T.add(Q, R):
                saw_rem = True
                lv = _loop_var_term(p, loop)
                if not any(_is_first_guard(c, lv, it) for c in conds):
                    first_ok = False
                    detail = 'remainder added without a first-element guard: ' + '; '.join(T.show(c) for c in conds)
            else:
                quo_each = False
                detail = f'part handed out is {T.show(s)}, neither quotient nor quotient + remainder'
        chk.ob('C01.divmod', cname + ':parts', quo_each and first_ok and saw_rem and saw_plain, ctx.loc(fi, loop),
               'each element receives the quotient once; the remainder is added exactly once, for the first element',
               got=detail or 'quotient (+ remainder for the first element)')
    chk.floor('C01.divmod', 6)


def _block_of(fn, stmt):
    for n in ast.walk(fn):
        for fld in ('body', 'orelse', 'finalbody'):
            b = getattr(n, fld, None)
            if isinstance(b, list) and stmt in b:
                return b
    return None


def _env_at(ctx, fi, stmt):
    """locals (as terms) on some path just after statement ``stmt`` executed"""
    w = Walker(fi.node, modstar=ctx.eff.mod)
    orig = w.stmt
    snap = {}

    def spy(st, p):
        for q, flow in orig(st, p):
            if st is stmt and not snap:
                snap.update({k: unversion(v) for k, v in q.env.items()})
            yield q, flow
    w.stmt = spy
    try:
        w.run()
    except AnalysisError:
        pass
    return snap


def _amount_in(t, Q, R):
    """largest sub-term of t that is Q, or a linear combination mentioning Q/R"""
    best = None
    for s in T.subterms(t):
        if s == Q or s == R or (isinstance(s, tuple) and s and s[0] == 'lin' and (Q in T.lin_atoms(s) or R in T.lin_atoms(s))):
            if best is None or len(T.key(s)) > len(T.key(best)):
                best = s
    return best


def _loop_var_term(path, loop):
    if isinstance(loop.target, ast.Name):
        return unversion(path.env.get(loop.target.id, ('name', loop.target.id)))
    return None


def _is_first_guard(c, lv, it) -> bool:
    if lv is None:
        return False
    if c == T.mk_not(T.truthy(lv)) or c == ('eq', T._pair(lv, T.num(0))):
        # index 0 is the first element only of an iteration that counts from 0 (range(n) or one of the index ranges of the state): for
        # a list of winners or of hand types in play `not i` tests for seat 0 / type 0, which need not be in the list at all
        return it is not None and ((it[0] == 'call' and it[1] == 'range' and len(it[2]) == 1) or
                                   (it[0] == 'self' and it[1] in ('board_indices', 'player_indices', 'hand_type_indices', 'street_indices')))
    if c[0] == 'eq':
        a, b = c[1]
        other = b if a == lv else a if b == lv else None
        if other is not None and other[0] == 'sub' and other[2] == T.num(0) and other[1] == it:
            return True
    return False


def _length_is(ctx, it, divisor):
    """is len(it) == divisor?  derive range lengths from the getters"""
    if it is None:
        return False, 'no loop'
    if divisor == ('call', 'len', (it,), ()):
        return True, 'len of the iterated sequence'
    if it[0] == 'self' and it[1] in ctx.state.methods:
        for conds, r in returns_of(ctx, it[1]):
            if r[0] == 'call' and r[1] == 'range' and len(r[2]) == 1:
                n = r[2][0]
                if n == divisor:
                    return True, f'{it[1]} = range({T.show(n)})'
                # one more level: n may itself be a property returning the divisor expression
                return False, f'{it[1]} = range({T.show(n)})'
    return False, 'length not derivable'


# ----------------------------------------------------------------------- pots
def pots_roles(ctx):
    """names of the locals of State.pots by ROLE (found by the shape of what is appended / passed on,
    never by spelling): contributions list, pending list, running amount, list of pots, loop player"""
    fi = ctx.sfi('pots')
    m = ctx.m
    roles = {}
    for n in walk_no_nested(fi.node):
        if isinstance(n, ast.Call) and isinstance(n.func, ast.Attribute) and n.func.attr == 'append' \
                and isinstance(n.func.value, ast.Name) and len(n.args) == 1:
            t = T.norm(n.args[0])
            if m.eq(t, '-self.payoffs[i] - self.bets[i]'):
                roles['contrib'] = n.func.value.id
                roles['contrib_append'] = n
            elif m.eq(t, '-self.payoffs[i]'):
                roles['pending'] = n.func.value.id
            elif isinstance(n.args[0], ast.Name) and t[0] == 'name':
                # pots.append(pot)
                roles.setdefault('pots_list', n.func.value.id)
        # the same lists built by a comprehension
        if isinstance(n, ast.Assign) and len(n.targets) == 1 and isinstance(n.targets[0], ast.Name) and isinstance(n.value, ast.ListComp) \
                and len(n.value.generators) == 1 and not n.value.generators[0].ifs:
            g = n.value.generators[0]
            over_players = m.eq(T.norm(g.iter), 'self.player_indices') or m.eq(T.norm(g.iter), 'range(self.player_count)')
            if over_players and isinstance(g.target, ast.Name):
                elt = T.norm(n.value.elt, {g.target.id: ('name', 'i')})
                if elt == T.spec('-self.payoffs[i] - self.bets[i]'):
                    roles['contrib'] = n.targets[0].id
                    roles['contrib_append'] = n
                elif elt == T.spec('-self.payoffs[i]'):
                    roles['pending'] = n.targets[0].id
            elif m.eq(T.norm(g.iter), 'self.payoffs') and isinstance(g.target, ast.Name) \
                    and T.norm(n.value.elt) == T.neg(('name', g.target.id)):
                roles['pending'] = n.targets[0].id
        if isinstance(n, ast.Call) and self_attr(n.func) == 'rake' and len(n.args) + len(n.keywords) == 2 and n.args and isinstance(n.args[0], ast.Name):
            roles['amount'] = n.args[0].id
            roles['rake_call'] = n
    return fi, roles


def _pots(chk, ctx) -> None:
    fi, roles = pots_roles(ctx)
    m = ctx.m
    C, P, A = roles.get('contrib'), roles.get('pending'), roles.get('amount')
    chk.ob('C01.pots', 'State.pots:contribution', C is not None, fi.loc,
           'chips of a player that are in the pots = what he paid in total minus what is still in front of him',
           got=f'list `{C}`' if C else 'no list is filled with -payoffs[i] - bets[i]', want='-self.payoffs[i] - self.bets[i]')
    chk.ob('C01.pots', 'State.pots:pending', P is not None, fi.loc,
           'eligibility level of a player = everything he paid (incl. the bet in front of him)',
           got=f'list `{P}`' if P else 'no list is filled with -payoffs[i]', want='-self.payoffs[i]')
    if C is not None and P is None and A is not None:
        # no eligibility list at all: is a player's level read straight from what he paid although his contribution is adjusted?
        adj_c = [n for n in walk_no_nested(fi.node) if isinstance(n, ast.AugAssign) and isinstance(n.target, ast.Subscript)
                 and isinstance(n.target.value, ast.Name) and n.target.value.id == C]
        raw_levels = [n for n in walk_no_nested(fi.node) if isinstance(n, ast.Compare) and len(n.ops) == 1
                      and any(m.eq(T.norm(x), '-self.payoffs[i]') for x in (n.left, n.comparators[0]))]
        if adj_c and raw_levels:
            chk.ob('C01.pots', 'State.pots:parallel_adjustments', False, ctx.loc(fi, raw_levels[0]),
                   'what is taken out of a player\'s pot contribution (the dead ante when antes are not trimmed) is taken out of his eligibility level too',
                   got=f'`{C}` is adjusted ({stmt_text(adj_c[0])}) but eligibility compares the unadjusted -self.payoffs[i]')
            return
    if C is None or P is None or A is None:
        raise AnalysisError('State.pots: contribution / eligibility lists or the raked amount not recognisable')
    # the two per-player lists differ by the bet in front of the player and are adjusted alike afterwards
    adj = {C: [], P: []}
    for n in walk_no_nested(fi.node):
        if isinstance(n, ast.AugAssign) and isinstance(n.target, ast.Subscript) and isinstance(n.target.value, ast.Name) \
                and n.target.value.id in adj:
            adj[n.target.value.id].append((type(n.op).__name__, T.key(T.norm(n.target.slice)), T.key(T.norm(n.value)), _guards_of(fi.node, n)))
    chk.ob('C01.pots', 'State.pots:parallel_adjustments', sorted(adj[C]) == sorted(adj[P]) and bool(adj[C]), fi.loc,
           'what is taken out of a player\'s pot contribution (the dead ante when antes are not trimmed) is taken out of his eligibility level too: '
           'the two lists always differ by exactly the bet in front of him',
           got={k: [(o, v) for o, _, v, _ in x] for k, x in adj.items()})
    antes = m.assigns(fi.node, 'self.get_effective_ante(i)')
    ok = under = False
    if len(antes) == 1 and isinstance(antes[0].targets[0], ast.Name):
        an = antes[0].targets[0].id
        ok = any(isinstance(n, ast.AugAssign) and isinstance(n.op, ast.Add) and isinstance(n.target, ast.Name) and n.target.id == A
                 and isinstance(n.value, ast.Name) and n.value.id == an for n in walk_no_nested(fi.node))
        ok = ok and any(isinstance(n, ast.AugAssign) and isinstance(n.op, ast.Sub) and isinstance(n.target, ast.Subscript)
                        and isinstance(n.target.value, ast.Name) and n.target.value.id == C and isinstance(n.value, ast.Name) and n.value.id == an
                        for n in walk_no_nested(fi.node))
        under = T.spec('not self.ante_trimming_status', boolean=True) in [T.cond(t) for t in _tests_of(fi.node, antes[0])]
    chk.ob('C01.pots', 'State.pots:dead_antes', ok and bool(under), fi.loc,
           'untrimmed antes are dead money: each effective ante goes into the first pot and is removed from the player\'s own contribution')
    # rake: both results reach Pot(...)
    rake_call = roles['rake_call']
    pot_calls = [n for n in walk_no_nested(fi.node) if isinstance(n, ast.Call) and isinstance(n.func, ast.Name) and n.func.id == 'Pot']
    ok = False
    rake_detail = ''
    if len(pot_calls) == 1:
        asg = [n for n in walk_no_nested(fi.node) if isinstance(n, ast.Assign) and n.value is rake_call]
        if asg and isinstance(asg[0].targets[0], ast.Tuple) and len(asg[0].targets[0].elts) == 2:
            a, b = (e.id for e in asg[0].targets[0].elts)
            pa = [x.id if isinstance(x, ast.Name) else None for x in pot_calls[0].args[:2]]
            ok = pa == [a, b]
            rake_detail = f'rake -> ({a}, {b}); Pot({pa[0]}, {pa[1]}, ...)'
            ra = rake_call.args
            ok = ok and len(ra) == 2 and isinstance(ra[1], ast.Name) and ra[1].id == 'self'
    chk.ob('C01.pots', 'State.pots:rake', ok, fi.loc,
           'the pot amount is split by rake(amount, state) - a caller-supplied function, called positionally - and both parts (raked, unraked) are stored in the Pot in that order', got=rake_detail)
    # merge of pots with equal eligibility re-adds the whole amount (raked + unraked)
    merges = [n for n in walk_no_nested(fi.node) if isinstance(n, ast.AugAssign) and isinstance(n.op, ast.Add)
              and any(isinstance(c, ast.Call) and isinstance(c.func, ast.Attribute) and c.func.attr == 'pop' for c in ast.walk(n.value))]
    ok = len(merges) == 1 and isinstance(merges[0].target, ast.Name) and merges[0].target.id == A and m.eq(T.norm(merges[0].value), 'pots.pop().amount')
    chk.ob('C01.pots', 'State.pots:merge', ok, ctx.loc(fi, merges[0]) if merges else fi.loc,
           'a pot merged into the next one re-adds its whole amount (raked + unraked), which is then raked again as one pot',
           got=stmt_text(merges[0]) if merges else None, want='amount += pots.pop().amount')
    # layer increment: under contributions[i] >= level:  amount += level - previous level
    ok = False
    for n in walk_no_nested(fi.node):
        if isinstance(n, ast.If):
            for st in n.body:
                if isinstance(st, ast.AugAssign) and isinstance(st.op, ast.Add) and isinstance(st.target, ast.Name) and st.target.id == A:
                    shape = ('layer', T.cond(n.test), T.norm(st.value))
                    want = ('layer', T.spec(f'{C}[i] >= level', boolean=True), T.spec('level - previous'))
                    ok |= T.alpha_eq(shape, want, lambda x: ctx.m.is_var(x) and x != C)
    chk.ob('C01.pots', 'State.pots:layer', ok, fi.loc,
           'each contribution level adds (level - previous level) once per player who contributed at least that level')
    # Pot.amount and total_pot_amount
    pot = ctx.prog.cls('Pot')
    am = pot.methods.get('amount')
    rets = [p.outcome[1] for p in ctx.paths(am) if p.returned] if am else []
    chk.ob('C01.pots', 'Pot.amount', rets == [T.spec('self.raked_amount + self.unraked_amount')], am.loc if am else pot.loc,
           'amount of a pot = raked + unraked part', got=[T.show(r) for r in rets])
    total_pot(chk, ctx)
    # negative amounts are rejected by Pot
    pi = pot.methods.get('__post_init__')
    guards = set()
    if pi is not None:
        for p in ctx.paths(pi):
            if p.raised and p.outcome[1] == 'ValueError':
                guards |= set(p.conds())
    need = {T.spec('self.raked_amount < 0', boolean=True), T.spec('self.unraked_amount < 0', boolean=True)}
    chk.ob('C01.pots', 'Pot.__post_init__', need <= guards, pi.loc if pi else pot.loc, 'a pot with a negative part is rejected')
    chk.floor('C01.pots', 10)
    # pots are frozen once pushing starts and only push_chips draws from them
    w_pots = sorted(n for n, s in ctx.eff.write_sites.items() if any(r == '_pots' for r, _ in s))
    chk.ob('C01.owner', 'State._pots:writers', w_pots == ['_begin_chips_pushing', 'push_chips'], ctx.state.loc,
           'the frozen pots are written only when pushing begins and by push_chips', got=w_pots)
    w_sub = sorted(n for n, s in ctx.eff.write_sites.items() if any(r == '_sub_pots' for r, _ in s))
    chk.ob('C01.owner', 'State._sub_pots:writers', w_sub == ['_begin_chips_pushing', 'push_chips'], ctx.state.loc,
           'the queue of sub-pots is filled when pushing begins and drained by push_chips', got=w_sub)


def total_pot(chk, ctx, rule='C01.pots') -> None:
    tp = ctx.sfi('total_pot_amount')
    want = T.spec('sum(self.bets) + p.amount', {'p': ('elem', ('self', 'pots'))})
    rets = {T.key(unversion(p.outcome[1])): unversion(p.outcome[1]) for p in ctx.paths(tp) if p.returned}
    ok = T.key(want) in rets and all(r in (want, T.spec('sum(self.bets)')) for r in rets.values())
    chk.ob(rule, 'State.total_pot_amount', ok, tp.loc, 'total pot = all bets in front of the players + the amount of every pot',
           got=[T.show(r) for r in rets.values()], want=T.show(want))


def _tests_of(fn, node):
    from .c02 import _enclosing_tests
    return _enclosing_tests(fn, node)


def _guards_of(fn, node):
    return tuple(sorted(T.key(T.cond(t)) for t in _tests_of(fn, node)))


# --------------------------------------------------------------------- bounds
def _bounded(ctx, t, k, depth, seen=()) -> tuple[bool, str]:
    """is term t statically <= stacks[k] ?"""
    stack = ('sub', ('self', 'stacks'), k)
    start = ('sub', ('self', 'starting_stacks'), k)
    t = canon_actor(t)
    if canon_actor(t) == canon_actor(stack):
        return True, 'the stack itself'
    if t[0] == 'num' and t[1] <= 0:
        return True, 'non-positive constant'
    if t[0] == 'min':
        for x in t[1]:
            ok, how = _bounded(ctx, x, k, depth, seen)
            if ok:
                return True, f'min(..., {how})'
        return False, 'min without a stack-bounded operand'
    if t[0] == 'lin':
        # stack - nonneg  (e.g. starting stack minus effective ante before blinds)
        d = dict(t[1])
        if d.get(stack) == 1 and t[2] <= 0 and all(v < 0 for a, v in d.items() if a != stack):
            return True, 'stack minus non-negative terms'
    if depth > 0:
        name = args = None
        if t[0] == 'self' and t[1] in ctx.state.methods:
            name, args = t[1], ()
        if t[0] == 'mcall' and t[1] == ('name', 'self') and t[2] in ctx.state.methods:
            name, args = t[2], t[3]
        if name and name not in seen:
            fi = ctx.sfi(name)
            rets = returns_of(ctx, name)
            params = [p for p in fi.pos_params if p != 'self']
            sub = {('name', p): a for p, a in zip(params, args)}
            # the callee's own notion of "the player": its parameter, or the actor
            ok_all = bool(rets)
            how = ''
            for conds, r in rets:
                r = canon_actor(T.subst(r, sub))
                ok, how = _bounded(ctx, r, k, depth - 1, seen + (name,))
                ok_all &= ok
            if ok_all:
                return True, f'{name}() -> {how}'
    return False, T.show(t)


ACTOR = ('actor',)
_ACTOR_FORMS = {
    ('mcall', ('name', 'self'), '_pop_actor_index', (), ()): ACTOR,
    ('self', 'actor_index'): ACTOR,
    ('sub', ('self', 'actor_indices'), ('num', 0)): ACTOR,
}


def canon_actor(t):
    """the popped actor, the actor_index property and actor_indices[0] read before the pop
    denote the same player (derived from the two getters, see C01.bounds:actor_identity)"""
    return T.subst(t, _ACTOR_FORMS)


def actor_identity(chk, ctx, rule) -> None:
    pop = returns_of(ctx, '_pop_actor_index')
    ok1 = len(pop) == 1 and pop[0][1] == T.spec('self.actor_indices.popleft()')
    ai = returns_of(ctx, 'actor_index')
    ok2 = len(ai) == 1 and ai[0][1] == T.spec('self.actor_indices[0]')
    chk.ob(rule, 'State:actor_identity', ok1 and ok2, ctx.sfi('_pop_actor_index').loc,
           'the popped actor is the head of the queue, i.e. the player the amount properties were computed for',
           got=[T.show(r) for _, r in pop + ai])


def _bounds(chk, ctx) -> None:
    actor_identity(chk, ctx, 'C01.bounds')
    ms = ctx.state.methods
    n = 0
    for name in sorted(chip_writers(ctx)):
        fi = ms[name]
        for p in ctx.paths(fi):
            if p.raised:
                continue
            for e in p.writes():
                if e.op != '-=' or e.term[0] != 'sub' or e.term[1] != ('self', 'stacks'):
                    continue
                k = e.term[2]
                v = unversion(e.value)
                cname = f'State.{name}:stacks[{T.show(k)}] -= {T.show(v)[:40]}'
                if any(o.construct == cname for o in chk.obs):
                    continue
                n += 1
                ok, how = _stack_bound(ctx, name, p, canon_actor(v), canon_actor(k))
                chk.ob('C01.bounds', cname, ok, ctx.loc(fi, e.node),
                       'the amount taken from a stack is statically bounded by that stack (no negative stack)', got=how)
    chk.floor('C01.bounds', 5)


def _stack_bound(ctx, name, path, v, k):
    stack = ('sub', ('self', 'stacks'), k)
    start = ('sub', ('self', 'starting_stacks'), k)
    # forced bets are posted before anything else moved: stack == starting stack (minus the ante already posted)
    if name in ('post_ante', 'post_blind_or_straddle'):
        ok, how = _bounded_start(ctx, v, k, 2)
        return ok, how
    ok, how = _bounded(ctx, v, k, ctx.depth)
    if ok:
        return ok, how
    # raise-to: delta = amount - bets[k] with amount verified <= max raise-to <= stacks[k] + bets[k]
    bet = ('sub', ('self', 'bets'), k)
    amt = T.add(v, bet)
    if amt[0] in ('mcall',) and amt[2].startswith('verify_'):
        vname = amt[2]
        vf = ctx.sfi(vname)
        # the verifier refuses amount > max...
        caps = []
        for p in ctx.paths(vf):
            if p.raised:
                for c in p.conds():
                    c = unversion(c)
                    if c[0] == 'lt' and c[2] == ('name', 'amount'):
                        caps.append(c[1])
        for cap in caps:
            if cap[0] == 'self':
                ok2 = True
                hows = []
                for conds, r in returns_of(ctx, cap[1]):
                    o, h = _bounded_sum(ctx, canon_actor(r), ctx.depth)
                    ok2 &= o
                    hows.append(h)
                if ok2 and hows:
                    return True, f'amount <= {cap[1]} and every arm of it is <= stack + bet: ' + ' | '.join(sorted(set(hows)))
        return False, f'no upper bound of the verified amount found ({[T.show(c) for c in caps]})'
    return False, how


def _bounded_start(ctx, t, k, depth):
    """t <= stacks[k] while stacks[k] == starting_stacks[k] - (ante already posted)"""
    start = ('sub', ('self', 'starting_stacks'), k)
    if t[0] == 'min':
        for x in t[1]:
            if x == start:
                return True, 'min(..., starting stack)'
            if x[0] == 'lin':
                d = dict(x[1])
                if d.get(start) == 1 and all(v < 0 for a, v in d.items() if a != start) and x[2] <= 0:
                    return True, 'min(..., starting stack - ante)'
        return False, T.show(t)
    if t[0] == 'mcall' and t[1] == ('name', 'self') and depth > 0:
        fi = ctx.sfi(t[2])
        params = [p for p in fi.pos_params if p != 'self']
        sub = {('name', p): a for p, a in zip(params, t[3])}
        oks = []
        for conds, r in returns_of(ctx, t[2]):
            oks.append(_bounded_start(ctx, canon_actor(T.subst(r, sub)), k, depth - 1))
        if oks and all(o for o, _ in oks):
            return True, f'{t[2]}() -> {oks[0][1]}'
        return False, f'{t[2]}() -> ' + ' | '.join(h for _, h in oks)
    return False, T.show(t)


def _bounded_sum(ctx, t, depth):
    """t <= stacks[a] + bets[a] for the actor a (any index expression)"""
    def is_sum(x):
        if x[0] != 'lin' or x[2] != 0:
            return None
        d = dict(x[1])
        st = [a for a in d if a[0] == 'sub' and a[1] == ('self', 'stacks') and d[a] == 1]
        if len(st) != 1:
            return None
        k = st[0][2]
        bet = ('sub', ('self', 'bets'), k)
        rest = {a: v for a, v in d.items() if a not in (st[0], bet)}
        if d.get(bet) == 1 and not rest:
            return k
        return None
    if is_sum(t) is not None:
        return True, 'stack + bet'
    if t[0] == 'min':
        for x in t[1]:
            ok, how = _bounded_sum(ctx, x, depth)
            if ok:
                return True, f'min(..., {how})'
        return False, T.show(t)
    if t[0] == 'lin':
        # effective_stack(k) + bets[k] with effective_stack <= stacks[k]
        d = dict(t[1])
        for a, v in d.items():
            if v == 1 and a[0] == 'mcall' and a[2] == 'get_effective_stack':
                k = a[3][0]
                bet = ('sub', ('self', 'bets'), k)
                rest = {x: c for x, c in d.items() if x not in (a, bet)}
                if d.get(bet) == 1 and not rest and t[2] == 0:
                    ok, how = _bounded(ctx, a, k, depth)
                    if ok:
                        return True, 'effective stack + bet'
    if t[0] == 'self' and depth > 0 and t[1] in ctx.state.methods:
        oks = [_bounded_sum(ctx, canon_actor(r), depth - 1) for _, r in returns_of(ctx, t[1])]
        if oks and all(o for o, _ in oks):
            return True, f'{t[1]} -> ' + ' | '.join(sorted({h for _, h in oks}))
        return False, f'{t[1]} -> ' + ' | '.join(h for _, h in oks)
    return False, T.show(t)


# -------------------------------------------------------------------- helpers
def _helpers(chk, ctx) -> None:
    prog = ctx.prog
    dv = prog.func('utilities.divmod')
    ok = False
    got = []
    saw_builtin = False
    ok_exact = True
    n_exact = 0
    for p in ctx.paths(dv):
        if not p.returned:
            continue
        r = p.outcome[1]
        integral = T.spec('isinstance(dividend, Integral)', boolean=True)
        cs = p.conds(flat=True)
        if r[0] == 'mcall' and r[2] == 'divmod' and r[1] == ('name', 'builtins'):
            saw_builtin = r[3] == (('name', 'dividend'), ('name', 'divisor')) and integral in cs
            ok_when = saw_builtin
            continue
        if T.mk_not(integral) not in cs:
            ok_exact = False
        # cast(type, (q, r)) or (q, r)
        tup = r
        if r[0] == 'call' and r[1] == 'cast' and len(r[2]) == 2:
            tup = r[2][1]
        if tup[0] == 'tuple' and len(tup[1]) == 2:
            q, rem = tup[1]
            total = T.add(T.mul(q, ('name', 'divisor')), rem)
            got.append(T.show(total))
            n_exact += 1
            if not (total == ('name', 'dividend') and q == T.spec('dividend / divisor')):
                ok_exact = False          # every way out of the exact arm adds up, not just one of them
        elif not (r[0] == 'mcall' and r[2] == 'divmod'):
            ok_exact = False
    ok = n_exact > 0
    chk.ob('C01.helpers', 'utilities.divmod', ok and saw_builtin and ok_exact, dv.loc,
           'quotient * divisor + remainder == dividend symbolically on the non-integral path; the integral path - integers and nothing else: '
           'Fraction, Decimal and float chips divide exactly - is builtins.divmod(dividend, divisor)',
           got=got, want='dividend')
    rk = prog.func('utilities.rake')
    ok = True
    n = 0
    got = []
    for p in ctx.paths(rk):
        if not p.returned:
            continue
        r = p.outcome[1]
        tup = r[2][1] if (r[0] == 'call' and r[1] == 'cast' and len(r[2]) == 2) else r
        if tup[0] != 'tuple' or len(tup[1]) != 2:
            ok = False
            continue
        n += 1
        total = T.add(tup[1][0], tup[1][1])
        got.append(T.show(total))
        ok &= total == ('name', 'amount')
    chk.ob('C01.helpers', 'utilities.rake', ok and n >= 2, rk.loc,
           'on every return path raked + unraked == amount symbolically', got=sorted(set(got)), want='amount')
    # the raked part is capped below by 0 and above by the amount (percentage in [0, 1] is validated)
    guard = T.spec('not 0 <= percentage <= 1', boolean=True)
    ok = any(p.raised and guard in p.conds() for p in ctx.paths(rk))
    chk.ob('C01.helpers', 'utilities.rake:percentage', ok, rk.loc, 'a rake percentage outside [0, 1] is rejected')
    from .helpers import chip_literals, resolved_types
    chip_literals(chk, ctx, 'C01.helpers')
    resolved_types(chk, ctx, 'C01.helpers', 'utilities', {'Integral': 'numbers.Integral'})
    chk.floor('C01.helpers', 3)


# ---------------------------------------------------------------------- owner
def _owner(chk, ctx) -> None:
    prog = ctx.prog
    from ..effects import MUTATORS
    attrs = set(CHIP) | {'_pots', '_sub_pots', 'raked_amount', 'unraked_amount'}
    offenders = []
    n_funcs = 0
    for mname, mi in prog.modules.items():
        for node in ast.walk(mi.tree):
            if not isinstance(node, (ast.FunctionDef, ast.Lambda)):
                continue
        for ci in list(mi.classes.values()) + [None]:
            funcs = (ci.methods.values() if ci is not None else mi.functions.values())
            for fi in funcs:
                if ci is not None and ci.name == 'State':
                    continue
                n_funcs += 1
                for n in ast.walk(fi.node):
                    tg = []
                    if isinstance(n, ast.Assign):
                        tg = n.targets
                    elif isinstance(n, (ast.AugAssign, ast.AnnAssign)):
                        tg = [n.target]
                    elif isinstance(n, ast.Delete):
                        tg = n.targets
                    for t in tg:
                        for y in (t.elts if isinstance(t, (ast.Tuple, ast.List)) else [t]):
                            a = _attr_root(y)
                            if a in attrs and not (ci is not None and ci.name == 'Pot' and fi.name == '__init__'):
                                offenders.append((fi, n, a))
                    if isinstance(n, ast.Call) and isinstance(n.func, ast.Attribute) and n.func.attr in MUTATORS:
                        a = _attr_root(n.func.value)
                        if a in attrs:
                            offenders.append((fi, n, a))
    chk.ob('C01.owner', 'ledger:foreign_writers', not offenders, ctx.loc(offenders[0][0], offenders[0][1]) if offenders else 'pokerkit/',
           'no function outside State writes stacks / bets / payoffs / the pots',
           got=[f'{f.qualname}: {stmt_text(n, 60)}' for f, n, a in offenders[:3]] or f'{n_funcs} functions scanned')
    # inside State: only the known roles write the chips
    writers = chip_writers(ctx)
    stack_w = sorted(n for n, a in writers.items() if 'stacks' in a or 'payoffs' in a)
    chk.analysed['stack_writers'] = stack_w


def _attr_root(node):
    """attribute name X for stores through ``<expr>.X``, ``<expr>.X[i]`` ... (not a bare local name)"""
    while isinstance(node, ast.Subscript):
        node = node.value
    if isinstance(node, ast.Attribute):
        return node.attr
    return None


# ------------------------------------------------------------------- terminal
def _terminal(chk, ctx) -> None:
    fi = ctx.sfi('_begin_chips_pulling')
    i = ('elem', ('self', 'player_indices'))
    ok = False
    got = None
    for p in ctx.paths(fi):
        for e in p.writes():
            if T.root_self_attr(e.term) == 'chips_pulling_statuses':
                got = unversion(e.value)
                ok = e.term == ('sub', ('self', 'chips_pulling_statuses'), i) and got == T.spec('self.bets[i] > 0', {'i': i})
    chk.ob('C01.terminal', 'State._begin_chips_pulling', ok, fi.loc,
           'a pull is pending for exactly the players with a positive bet in front of them (nothing is left on the table)',
           got=T.show(got) if got else None, want='self.bets[i] > 0')
    fi = ctx.sfi('pull_chips')
    ok = True
    n = 0
    for p in ctx.paths(fi):
        if p.raised:
            continue
        d = cell_deltas(p)
        for (attr, idx), dv in d.items():
            if attr == 'bets':
                n += 1
                ok &= dv == T.neg(('sub', ('self', 'bets'), idx))
    chk.ob('C01.terminal', 'State.pull_chips', ok and n > 0, fi.loc, 'pulling takes the whole bet (it is left at exactly 0)')
    # ... and that step is never skipped: when the last pot is pushed (or there was none to push) the pulling phase begins
    from .c07 import phase_calls
    fi = ctx.sfi('_end_chips_pushing')
    targets = [tuple(c.value[1] for c in phase_calls(p)) for p in ctx.paths(fi) if not p.raised]
    chk.ob('C01.terminal', 'State._end_chips_pushing', bool(targets) and all(t == ('_begin_chips_pulling',) for t in targets), fi.loc,
           'after the pots (if any) are pushed the chips still in front of the players are always pulled: a walk leaves the winner\'s own blind there',
           got=sorted(set(targets)))
    # payoffs sum: every stack change is mirrored (C01.mirror) and the only chips not returned are the raked parts
    fi = ctx.sfi('_begin_chips_pushing')
    queued = set()
    for p in ctx.paths(fi):
        for e in p.writes():
            if T.root_self_attr(e.term) == '_sub_pots' and e.op == 'call:append' and e.value[1]:
                first = e.value[1][0]
                if first[0] == 'tuple':
                    queued.add(T.key(unversion(first[1][0])))
    lone = T.key(('attr', ('sub', ('selfv', '_pots', 1), ('enumidx', ('selfv', '_pots', 1))), 'unraked_amount'))
    chk.ob('C01.terminal', 'State._begin_chips_pushing:unraked_only', bool(queued), fi.loc,
           'only the unraked part of a pot is queued for the players (payoffs sum to minus the rake)',
           got=sorted(queued)[:4])


# ----------------------------------------------------------- exhaustive split
def _int_cover(tests):
    """given [(op, const)] comparisons of one integer term, the values 0..max+2 not covered"""
    consts = [c for _, c in tests]
    hi = max(consts + [0]) + 2
    missing = []
    for v in range(0, hi + 1):
        hit = False
        for op, c in tests:
            hit |= {'eq': v == c, 'ne': v != c, 'lt': v < c, 'le': v <= c, 'gt': v > c, 'ge': v >= c}[op]
        if not hit:
            missing.append(v)
    return missing


def _cmp_of(t):
    """(subject term, op, const) for a comparison of a term with an integer constant"""
    if t[0] in ('eq', 'ne'):
        a, b = t[1]
        if T.is_num(a) != T.is_num(b):
            n, s = (a, b) if T.is_num(a) else (b, a)
            return s, t[0], n[1]
    if t[0] in ('lt', 'le'):
        a, b = t[1], t[2]
        if T.is_num(a) and not T.is_num(b):       # c < s  => s > c
            return b, {'lt': 'gt', 'le': 'ge'}[t[0]], a[1]
        if T.is_num(b) and not T.is_num(a):
            return a, t[0], b[1]
    return None


def _exhaustive_split(chk, ctx) -> None:
    """one-sided comparison rule (Engler et al.): an if/elif chain without else
    in a chip-moving cascade function whose arms all compare one integer term
    with constants must cover every value >= 0, otherwise queued chips go nowhere"""
    ms = ctx.state.methods
    n = 0
    for name, fi in ms.items():
        if not name.startswith(('_begin_', '_end_', '_update_')):
            continue
        if not (ctx.eff.direct_mod.get(name, set()) & (set(LEDGER))):
            continue
        for st in walk_no_nested(fi.node):
            if not isinstance(st, ast.If):
                continue
            # only chain heads
            parent_is_elif = any(isinstance(o, ast.If) and o.orelse == [st] for o in walk_no_nested(fi.node))
            if parent_is_elif:
                continue
            tests = []
            subj = None
            cur = st
            closed = False
            uniform = True
            while True:
                c = _cmp_of(T.cond(cur.test))
                if c is None:
                    uniform = False
                    break
                if subj is None:
                    subj = c[0]
                elif subj != c[0]:
                    uniform = False
                    break
                tests.append((c[1], c[2]))
                if len(cur.orelse) == 1 and isinstance(cur.orelse[0], ast.If):
                    cur = cur.orelse[0]
                    continue
                closed = bool(cur.orelse)
                break
            if not uniform or closed or len(tests) < 2:
                continue
            n += 1
            missing = _int_cover(tests)
            chk.ob('C01.exhaustive_split', f'State.{name}', not missing, ctx.loc(fi, st),
                   f'the arms over `{T.show(subj)}` that queue chips cover every possible value',
                   got=f'arms {tests}; value(s) {missing} reach no arm: the chips of the pots are queued for nobody' if missing else f'arms {tests}',
                   want='every value >= 0 handled')
    chk.floor('C01.exhaustive_split', 1)
