"""C05 - the hand made from hole and board cards is the best one the game allows.

Decided statically (search-shape agreement): which collection each ``from_game``
enumerates with which class attribute as the combination size, what it hands to
``super()``, the polarity of the maximisation (siblings must agree), the error
discipline (invalid combinations skipped, ValueError when nothing formed, None
wrapper), and badugi's largest-size-first search.  Optimality on concrete cards
follows from source + polarity given C04's order - as an argument, not a check.
"""
from __future__ import annotations

import ast

from .. import terms as T
from ..evalstatic import SEval
from ..model import AnalysisError, walk_no_nested

CLEAN_H = T.spec('Card.clean(hole_cards)')
CLEAN_B = T.spec('Card.clean(board_cards)')


def _returned_name(fi):
    names = set()
    for n in walk_no_nested(fi.node):
        if isinstance(n, ast.Return) and isinstance(n.value, ast.Name):
            names.add(n.value.id)
    return names


def _update_sites(fi):
    """(If node, best name, candidate name) for ``if TEST: best = cand``"""
    best_names = _returned_name(fi)
    out = []
    for n in walk_no_nested(fi.node):
        if isinstance(n, ast.If):
            for st in n.body:
                if isinstance(st, ast.Assign) and len(st.targets) == 1 and isinstance(st.targets[0], ast.Name) \
                        and st.targets[0].id in best_names and isinstance(st.value, ast.Name):
                    out.append((n, st.targets[0].id, st.value.id))
    return out


def _combination_loops(fi):
    out = []
    for n in walk_no_nested(fi.node):
        if isinstance(n, ast.For) and isinstance(n.iter, ast.Call) and isinstance(n.iter.func, ast.Name) \
                and n.iter.func.id == 'combinations' and len(n.iter.args) == 2:
            out.append(n)
    return out


def _env_before(ctx, fi, node):
    """environment of locals at the first arrival at ``node`` (any path)"""
    for p in ctx.paths(fi):
        for e in p.events:
            if e.kind == 'loop' and e.node is node and e.op == 'enter':
                return p, e
    return None, None


def run(chk, ctx) -> None:
    prog = ctx.prog
    sev = SEval(prog)
    impls = {}
    for ci in [prog.cls('Hand')] + prog.subclasses('Hand'):
        if 'from_game' in ci.methods and not ci.methods['from_game'].is_abstract:
            impls[ci.name] = ci.methods['from_game']
    chk.analysed['from_game_implementations'] = sorted(impls)
    want_update = T.spec('BEST is None or CAND > BEST', boolean=True)
    polarity = {}
    for cname, fi in impls.items():
        loops = _combination_loops(fi)
        sites = _update_sites(fi)
        if not loops:
            continue
        # ---- polarity
        for node, best, cand in sites:
            c = T.cond(node.test, {best: ('name', 'BEST'), cand: ('name', 'CAND')})
            polarity[cname] = c
            chk.ob('C05.polarity', fi.qualname, c == want_update, ctx.loc(fi, node),
                   'the running best is replaced iff there is none yet or the candidate is strictly stronger',
                   got=T.show(c), want=T.show(want_update))
        if not sites:
            chk.ob('C05.polarity', fi.qualname, False, fi.loc, 'no "best = candidate" update found in the search loop')
        # ---- error discipline
        raises = [p for p in ctx.paths(fi) if p.raised]
        ok = bool(raises) and all(p.outcome[1] == 'ValueError' for p in raises)
        # ... and exactly when nothing was found: the raise is under `best is None`, the return under `best is not None`
        for p in ctx.paths(fi):
            last = [c for c in p.conds() if c[0] in ('is', 'isnot') and ('const', None) in c[1]]
            if p.raised:
                ok &= bool(last) and last[-1][0] == 'is'
            elif p.returned:
                ok &= bool(last) and last[-1][0] == 'isnot'
        chk.ob('C05.errors', f'{fi.qualname}:nothing_formed', ok, fi.loc,
               'ValueError (and only that) when no legal combination exists')
        trys = [n for n in walk_no_nested(fi.node) if isinstance(n, ast.Try)]
        ok = bool(trys) and all(
            any(h.type is not None and 'ValueError' in ast.unparse(h.type) for h in t.handlers)
            and all(isinstance(s, (ast.Pass, ast.Continue)) for h in t.handlers for s in h.body) for t in trys)
        chk.ob('C05.errors', f'{fi.qualname}:skip_invalid', ok, fi.loc,
               'a combination that is not a hand of the type is skipped (ValueError caught, nothing else done)')
    # ---- the search is a search: each of the four search classes enumerates the combinations it chooses from (a shortcut that builds one
    # candidate greedily examines none of the others)
    for cname in ('CombinationHand', 'BoardCombinationHand', 'HoleBoardCombinationHand', 'BadugiHand'):
        fi = impls.get(cname)
        if fi is not None and not _combination_loops(fi):
            chk.ob('C05.exhaustive', fi.qualname, False, fi.loc,
                   'every legal combination is examined: the hand is the best of the enumerated combinations', got='no loop over combinations(...)')
    # ---- the search is exhaustive: nothing leaves a combination loop early
    for cname, fi in impls.items():
        for loop in _combination_loops(fi):
            early = [n for st in loop.body for n in ast.walk(st) if isinstance(n, (ast.Break, ast.Return))]
            # a `continue` skips a combination: only the handler of "not a hand of this type" may do that
            handler_nodes = {id(x) for st in loop.body for t in ast.walk(st) if isinstance(t, ast.Try) for h in t.handlers for x in ast.walk(h)}
            early += [n for st in loop.body for n in ast.walk(st) if isinstance(n, ast.Continue) and id(n) not in handler_nodes]
            # ... nor is the evaluation of a combination put under a condition of its own (a "seen before" memo, a fast path)
            def guarded(stmts, under_if):
                for st in stmts:
                    if isinstance(st, ast.Try) and under_if:
                        early.append(st)
                    for fld in ('body', 'orelse', 'finalbody'):
                        sub = getattr(st, fld, None)
                        if isinstance(sub, list) and sub and isinstance(sub[0], ast.stmt):
                            guarded(sub, under_if or isinstance(st, (ast.If, ast.While, ast.Match)))
                    for h in getattr(st, 'handlers', []):
                        guarded(h.body, under_if)
            guarded(loop.body, False)
            chk.ob('C05.exhaustive', fi.qualname, not early, ctx.loc(fi, early[0]) if early else ctx.loc(fi, loop),
                   'every legal combination is examined: no break / return inside the loop over the combinations, and none is skipped '
                   'except for not being a hand of the type (a later combination of the same category can still be stronger)')
    chk.floor('C05.exhaustive', 4)
    if len(set(map(T.key, polarity.values()))) > 1:
        chk.ob('C05.polarity', 'siblings', False, prog.cls('Hand').loc,
               'all best-of searches must maximise with the same comparison',
               got={k: T.show(v) for k, v in polarity.items()})
    else:
        chk.ob('C05.polarity', 'siblings', True, prog.cls('Hand').loc,
               'all best-of searches maximise with the same comparison')
    chk.floor('C05.polarity', 5)

    # ---- sources, by role of the class in the hierarchy
    def source(cname, want_iter, want_attr, want_super):
        fi = impls.get(cname)
        if fi is None:
            if prog.classes.get(cname) is None:
                raise AnalysisError(f'{cname} vanished')
            # the class is there, its own search is not: it inherits a search that does not know its composition rule
            chk.ob('C05.source', f'{cname}.from_game', False, prog.cls(cname).loc,
                   f'{cname} composes hands by its own rule (its counts of hole / board cards): it has a search of its own that enforces them',
                   got='no from_game in the class: the inherited search is used')
            return
        loops = _combination_loops(fi)
        if len(loops) != 1:
            chk.undecided('C05.source', fi.qualname, fi.loc, f'{len(loops)} combination loops')
            return
        p, ev = _env_before(ctx, fi, loops[0])
        if p is None:
            raise AnalysisError(f'{fi.qualname}: loop unreachable')
        it = ev.term  # combinations(X, r)
        x, r = it[2]
        if x[0] == 'call' and x[1] in ('tuple', 'list') and len(x[2]) == 1 and x != want_iter:
            x = x[2][0]          # materialising the collection first changes nothing about what is combined
        chk.ob('C05.source', f'{fi.qualname}:collection', x == want_iter, ctx.loc(fi, loops[0]),
               'collection the combinations are drawn from', got=T.show(x), want=T.show(want_iter))
        chk.ob('C05.source', f'{fi.qualname}:size', r == T.spec(f'cls.{want_attr}'), ctx.loc(fi, loops[0]),
               'combination size is the class attribute', got=T.show(r), want=f'cls.{want_attr}')
        if want_super is not None:
            sup = [e for q in ctx.paths(fi) for e in q.events if e.kind == 'call' and e.value == ('super', 'from_game')]
            got = {T.key(e.term[3]): e.term[3] for e in sup}
            elem = ('elem', it)
            want = tuple(elem if w == 'COMB' else w for w in want_super)
            chk.ob('C05.source', f'{fi.qualname}:super', list(got.values()) == [want], fi.loc,
                   'what is handed to the parent search (hole cards first, board cards second)',
                   got=[T.show(('tuple', g)) for g in got.values()], want=T.show(('tuple', want)))

    source('CombinationHand', T.spec('chain(Card.clean(hole_cards), Card.clean(board_cards))'), 'card_count', None)
    source('BoardCombinationHand', CLEAN_B, 'board_card_count', (CLEAN_H, 'COMB'))
    source('HoleBoardCombinationHand', CLEAN_H, 'hole_card_count', ('COMB', CLEAN_B))
    # the candidate of the basic search is the hand built from exactly the combination
    fi = impls['CombinationHand']
    built = [e for q in ctx.paths(fi) for e in q.events if e.kind == 'call' and e.value == ('name', 'cls')]
    ok = bool(built) and all(len(e.term[2]) == 1 and e.term[2][0][0] == 'elem' for e in built)
    chk.ob('C05.source', 'CombinationHand.from_game:candidate', ok, fi.loc,
           'each candidate hand is built from exactly one combination')
    chk.floor('C05.source', 8)

    # ---- badugi: sizes from the largest down, stop at the first size that yields a hand
    fi = impls.get('BadugiHand')
    if fi is None:
        raise AnalysisError('BadugiHand.from_game vanished')
    outer = [n for n in walk_no_nested(fi.node) if isinstance(n, ast.For)
             and any(isinstance(m, ast.For) for s in n.body for m in ast.walk(s))]
    if len(outer) != 1:
        chk.undecided('C05.badugi', fi.qualname, fi.loc, 'no single outer size loop')
    else:
        o = outer[0]
        sizes = sev.ev(o.iter, fi.module, {})
        chk.ob('C05.badugi', f'{fi.qualname}:sizes', sizes == [4, 3, 2, 1], ctx.loc(fi, o),
               'subset sizes are tried from four cards down to one', got=sizes, want=[4, 3, 2, 1])
        inner = _combination_loops(fi)
        ok = len(inner) == 1 and isinstance(inner[0].iter.args[1], ast.Name) and isinstance(o.target, ast.Name) \
            and inner[0].iter.args[1].id == o.target.id
        chk.ob('C05.badugi', f'{fi.qualname}:inner', ok, ctx.loc(fi, o), 'combinations of exactly the current size')
        brk = [s for s in o.body if isinstance(s, ast.If) and any(isinstance(b, ast.Break) for b in s.body)]
        best = _returned_name(fi)
        ok = len(brk) == 1 and len(best) == 1 and \
            T.cond(brk[0].test) == T.cmp('IsNot', ('name', next(iter(best))), ('const', None))
        chk.ob('C05.badugi', f'{fi.qualname}:stop', ok, ctx.loc(fi, o),
               'the search stops at the first (largest) size that yields a hand: more cards always beat fewer')
        p, ev = _env_before(ctx, fi, inner[0]) if inner else (None, None)
        if ev is not None:
            x = ev.term[2][0]
            want = T.spec('tuple(chain(Card.clean(hole_cards), Card.clean(board_cards)))')
            chk.ob('C05.badugi', f'{fi.qualname}:collection', x == want, ctx.loc(fi, inner[0]),
                   'subsets are drawn from all hole and board cards', got=T.show(x), want=T.show(want))
    chk.floor('C05.badugi', 4)

    # ---- Kuhn: best single card
    fi = impls.get('KuhnPokerHand')
    if fi is not None:
        rets = [p.outcome[1] for p in ctx.paths(fi) if p.returned]
        want = T.spec('max(map(cls, chain(Card.clean(hole_cards), Card.clean(board_cards))))')
        chk.ob('C05.source', 'KuhnPokerHand.from_game', rets == [want], fi.loc, 'best single card',
               got=[T.show(r) for r in rets], want=T.show(want))

    # ---- None instead of exception
    fi = prog.cls('Hand').methods.get('from_game_or_none')
    if fi is None:
        raise AnalysisError('Hand.from_game_or_none vanished')
    trys = [n for n in walk_no_nested(fi.node) if isinstance(n, ast.Try)]
    ok = len(trys) == 1 and any(h.type is not None and 'ValueError' in ast.unparse(h.type) for h in trys[0].handlers)
    rets = {T.key(p.outcome[1]) for p in ctx.paths(fi) if p.returned}
    want = {T.key(T.spec('cls.from_game(hole_cards, board_cards)')), T.key(('const', None))}
    chk.ob('C05.errors', 'Hand.from_game_or_none', ok and rets == want, fi.loc,
           'None exactly when from_game raises ValueError, otherwise its result with the arguments in order',
           got=sorted(rets), want=sorted(want))
    chk.floor('C05.errors', 9)
    # attribute table shared with C04
    from .c04 import HAND_CLASSES
    for cname, (lk, low, cc, bc, hc) in HAND_CLASSES.items():
        if cname not in prog.classes:
            continue
        got = (sev.class_attr(cname, 'card_count'), sev.class_attr(cname, 'board_card_count'), sev.class_attr(cname, 'hole_card_count'))
        chk.ob('C05.counts', cname, got == (cc, bc, hc), prog.cls(cname).loc,
               '(cards in a hand, board cards that must be used, hole cards that must be used)', got=got, want=(cc, bc, hc))
        mro = [c.name for c in prog.mro(prog.cls(cname))]
        role = 'HoleBoardCombinationHand' if hc else 'BoardCombinationHand' if bc else 'CombinationHand' if cc else None
        if role:
            owner = prog.resolve_method(prog.cls(cname), 'from_game').cls.name
            chk.ob('C05.counts', f'{cname}:search', owner == role, prog.cls(cname).loc,
                   'the class uses the search of its composition rule', got=owner, want=role)
    chk.floor('C05.counts', 11)
    # observed at State.get_hand / get_up_hand: the evaluator is handed the right cards
    from .cover import hand_observers
    hand_observers(chk, ctx, 'C05.observed')
    chk.floor('C05.observed', 2)
