"""C14 - multiple run-outs and multiple boards.

Decided statically: when the selection is offered (cash game, not yet decided,
board cards still to come, live players only); that the run-out count and the
resume point are written once, by the right functions; the consensus rule;
that the count that is validated is the count that is used (argument
forwarding); board_count; the indexing that maps run-outs onto shared early
rows; the row arithmetic of deal_board; the even split over boards.
Not decided: completeness of every board on concrete histories.
"""
from __future__ import annotations

import ast

from .. import terms as T
from ..model import AnalysisError, self_attr, walk_no_nested
from ..paths import unversion
from ..phases import conjuncts
from .c03 import raise_guards


def run(chk, ctx) -> None:
    eff = ctx.eff
    # ------------------------------------------------------------------ offer
    fi = ctx.sfi('_begin_showdown')
    i = ('elem', ('self', 'player_indices'))
    gate = T.spec('not self.runout_count_selection_flag and self.mode != Mode.TOURNAMENT', boolean=True)
    ok = False
    n = 0
    for p in ctx.paths(fi):
        for e in p.writes():
            if T.root_self_attr(e.term) == 'runout_count_selector_statuses' and e.value == ('const', True):
                n += 1
                k = p.events.index(e)
                before = set()
                for x in p.events[:k]:
                    if x.kind == 'assume':
                        before |= set(conjuncts(unversion(x.term)))
                live = T.spec('self.statuses[i]', {'i': i}, boolean=True)
                later = ('name', 'status')
                ok = all(c in before for c in conjuncts(gate)) and live in before and unversion(e.term) == ('sub', ('self', 'runout_count_selector_statuses'), i)
    chk.ob('C14.offer', 'State._begin_showdown', ok and n > 0, fi.loc,
           'the choice of run-outs is offered only in cash-game mode, only if not decided yet, and only to players still in the hand',
           want=T.show(gate))
    # board cards still to come: every way to the offer assumes that some later street deals community cards - read off the paths, so the
    # scan may be a flag loop, an any(...) over the later streets, or either of them behind an extracted predicate
    later_i = ('elem', T.spec('range(self.street_index + 1, self.street_count)'))
    later_j = ('elem', T.spec('range(self.street_index + 1, len(self.streets))'))
    later_s = ('elem', T.spec('self.streets[self.street_index + 1:]'))
    forms = {T.spec('self.streets[i].board_dealing_count', {'i': later_i}, boolean=True),
             T.spec('self.streets[i].board_dealing_count', {'i': later_j}, boolean=True),
             T.spec('s.board_dealing_count', {'s': later_s}, boolean=True),
             T.spec('any(self.streets[i].board_dealing_count for i in range(self.street_index + 1, self.street_count))', boolean=True),
             T.spec('any(self.streets[i].board_dealing_count for i in range(self.street_index + 1, len(self.streets)))', boolean=True),
             T.spec('any(s.board_dealing_count for s in self.streets[self.street_index + 1:])', boolean=True)}
    n_with = n_without = 0
    where = fi.loc
    for p in ctx.paths(fi):
        for e in p.writes():
            if T.root_self_attr(e.term) == 'runout_count_selector_statuses' and e.value == ('const', True):
                k = p.events.index(e)
                before = set()
                for x in p.events[:k]:
                    if x.kind == 'assume':
                        before |= set(conjuncts(unversion(x.term)))
                if ('const', False) in before:
                    continue        # the flag is still false here: not a way to the offer
                if before & forms:
                    n_with += 1
                else:
                    n_without += 1
                    where = ctx.loc(fi, e.node)
    chk.ob('C14.offer', 'State._begin_showdown:board_to_come', n_with > 0, fi.loc,
           'the choice is offered only when a later street still deals community cards', got=f'{n_with} way(s) to the offer assume it')
    chk.ob('C14.offer', 'State._begin_showdown:flag', n_with > 0 and n_without == 0, where,
           '"community cards are still to come" is decided by the scan of the later streets alone: there is no way to the offer that does not assume it',
           got=f'{n_without} way(s) to the offer do not assume it')
    # ------------------------------------------------------------------- once
    def writers(attr):
        return sorted(m for m, s in eff.write_sites.items() if any(r == attr for r, _ in s))
    chk.ob('C14.once', 'State.runout_count', writers('runout_count') == ['select_runout_count'], ctx.state.loc,
           'the agreed number of run-outs is written only by the selection operation', got=writers('runout_count'))
    chk.ob('C14.once', 'State.street_return_index', writers('street_return_index') == ['_end_showdown'], ctx.state.loc,
           'the street to resume from is fixed once, when the (first) showdown ends', got=writers('street_return_index'))
    chk.ob('C14.once', 'State.street_return_count', writers('street_return_count') == ['_end_bet_collection', '_end_showdown'], ctx.state.loc,
           'the number of run-outs left is set when the showdown ends and counted down when a run-out is complete', got=writers('street_return_count'))
    chk.ob('C14.once', 'State.runout_count_selection_flag', writers('runout_count_selection_flag') == ['_end_showdown'], ctx.state.loc,
           'the selection is closed when the first showdown ends (never offered twice)', got=writers('runout_count_selection_flag'))
    es = ctx.sfi('_end_showdown')
    ok = False
    for p in ctx.paths(es):
        cs = set()
        for c in p.conds():
            cs |= set(conjuncts(unversion(c)))
        ws = {T.root_self_attr(e.term): unversion(e.value) for e in p.writes()}
        if T.spec('not self.runout_count_selection_flag', boolean=True) in cs and T.spec('self.runout_count is not None', boolean=True) in cs:
            ok = ws.get('street_return_index') == T.spec('self.street_index + 1') and ws.get('street_return_count') == T.spec('self.runout_count - 1') \
                and ws.get('runout_count_selection_flag') == ('const', True)
    closed = True
    n_open = 0
    for p in ctx.paths(es):
        cs = set()
        for c in p.conds():
            cs |= set(conjuncts(unversion(c)))
        if p.raised:
            continue
        if T.spec('self.runout_count_selection_flag', boolean=True) not in cs:
            # nothing on this path says the choice was already closed: it must close it
            n_open += 1
            closed &= any(T.root_self_attr(e.term) == 'runout_count_selection_flag' and e.value == ('const', True) for e in p.writes())
    chk.ob('C14.once', 'State._end_showdown:closed', closed and n_open >= 2, es.loc,
           'when the first showdown ends the choice is closed for the rest of the hand, whether or not anybody stated a preference '
           '(it is offered to each player once)')
    chk.ob('C14.once', 'State._end_showdown', ok, es.loc,
           'with an agreed count n the remaining streets are dealt again n - 1 more times, starting from the street after the all-in')
    eb = ctx.sfi('_end_bet_collection')
    ok = False
    for p in ctx.paths(eb):
        cs = set()
        for c in p.conds():
            cs |= set(conjuncts(unversion(c)))
        ws = {T.root_self_attr(e.term): (e.op, unversion(e.value)) for e in p.writes()}
        if 'street_return_count' in ws:
            ok = ws['street_return_count'] == ('-=', T.num(1)) and ws.get('street_index') == ('set', T.spec('self.street_return_index - 1')) \
                and T.spec('self.street is self.streets[-1]', boolean=True) in cs and T.truthy(('self', 'street_return_count')) in cs
    chk.ob('C14.once', 'State._end_bet_collection', ok, eb.loc,
           'after the last street of a run-out, while run-outs remain, dealing resumes from the street after the all-in and one run-out is counted off')
    # -------------------------------------------------------------- consensus
    so = ctx.sfi('select_runout_count')
    rc = ('name', 'runout_count')
    cur = ('self', 'runout_count')
    seen = {'none_keeps': False, 'first_sets': False, 'disagreement_is_one': False, 'agreement_keeps': False}
    for p in ctx.paths(so):
        if not p.returned:
            continue
        cs = [unversion(c) for c in p.conds()]
        ws = [unversion(e.value) for e in p.writes() if e.term == cur]
        if T.cmp('Is', rc, ('const', None)) in cs:
            seen['none_keeps'] = not ws
        elif T.cmp('Is', cur, ('const', None)) in cs:
            seen['first_sets'] = ws == [rc]
        elif T.cmp('NotEq', cur, rc) in cs:
            seen['disagreement_is_one'] = ws == [T.num(1)]
        elif T.cmp('Eq', cur, rc) in cs:
            seen['agreement_keeps'] = not ws
    missing = [k for k, v in seen.items() if not v]
    chk.ob('C14.consensus', 'State.select_runout_count', not missing, so.loc,
           'no preference keeps the current count; the first preference sets it; a differing preference falls back to one run-out; an equal one keeps it',
           got=f'missing: {missing}' if missing else 'ok')
    flag = [e for p in ctx.paths(so) if p.returned for e in p.writes() if T.root_self_attr(e.term) == 'runout_count_selector_statuses']
    chk.ob('C14.consensus', 'State.select_runout_count:once_each', bool(flag) and all(e.value == ('const', False) for e in flag), so.loc,
           'each player chooses once (his selector flag is cleared)')
    # ---------------------------------------------------------- count checked
    name = 'verify_runout_count_selection'
    guards = [last for exc, last, cs, p in raise_guards(ctx, name) if exc == 'ValueError']
    want = T.spec('runout_count is not None and runout_count < 1', boolean=True)
    chk.ob('C14.count_checked', f'State.{name}', want in guards, ctx.sfi(name).loc,
           'a run-out count below one is refused', got=[T.show(g) for g in guards], want=T.show(want))
    # who may choose: the named player, if his flag is still set; only an absent index (is None) means "the next one"
    vf = ctx.sfi(name)
    dflt = [nd for nd in walk_no_nested(vf.node) if isinstance(nd, ast.If) and T.cond(nd.test) == T.spec('player_index is None', boolean=True)]
    ok_d = len(dflt) == 1 and any(isinstance(s2, ast.Assign) and T.norm(s2.value) == T.spec('next(self.runout_count_selector_indices)') for s2 in dflt[0].body)
    refused = T.spec('not self.runout_count_selector_statuses[player_index]', boolean=True)
    ok_r = any(g in (refused, T.subst(refused, {('name', 'player_index'): T.spec('next(self.runout_count_selector_indices)')})) for g in guards)
    truthy = [nd for nd in ast.walk(vf.node) if isinstance(nd, ast.UnaryOp) and isinstance(nd.op, ast.Not) and isinstance(nd.operand, ast.Name) and nd.operand.id == 'player_index']
    chk.ob('C14.selector', f'State.{name}', ok_d and ok_r and not truthy, vf.loc,
           'each remaining player chooses once: an explicit player is refused when he has already chosen (player 0 included); only an absent index means the next pending player',
           got=f'default under `is None`: {ok_d}; already-chosen refused: {ok_r}; truthiness tests of the index: {len(truthy)}')
    for caller in ('can_select_runout_count', 'select_runout_count'):
        cf = ctx.sfi(caller)
        calls = [nd for nd in walk_no_nested(cf.node) if isinstance(nd, ast.Call) and self_attr(nd.func) == name]
        vparams = [x for x in ctx.sfi(name).pos_params if x != 'self']
        ok = len(calls) == 1 and [a.id if isinstance(a, ast.Name) else None for a in calls[0].args] == vparams[:len(calls[0].args)] \
            and len(calls[0].args) + len(calls[0].keywords) == len(vparams) and all(k.arg == getattr(k.value, 'id', None) for k in calls[0].keywords)
        chk.ob('C14.count_checked', f'State.{caller}', ok, cf.loc,
               'the count that is validated is the count that is applied: arguments reach the verifier name-to-name',
               got=[ast.unparse(a) for a in calls[0].args] if calls else None, want=vparams)
    # ------------------------------------------------------------ board count
    bc = ctx.sfi('board_count')
    rets = {}
    for p in ctx.paths(bc):
        if p.returned:
            cs = [unversion(c) for c in p.conds()]
            rets[T.spec('self.street_return_index is not None', boolean=True) in cs] = unversion(p.outcome[1])
    ok = rets.get(True) == T.spec('self.starting_board_count * self.runout_count') and rets.get(False) == T.spec('self.starting_board_count')
    chk.ob('C14.board_count', 'State.board_count', ok, bc.loc,
           'b starting boards and r run-outs give b * r boards; before any run-out is agreed there are b',
           got={k: T.show(v) for k, v in rets.items()})
    bi = ctx.sfi('board_indices')
    r = [unversion(p.outcome[1]) for p in ctx.paths(bi) if p.returned]
    chk.ob('C14.board_count', 'State.board_indices', r == [T.spec('range(self.board_count)')], bi.loc, 'boards are numbered 0 .. board_count - 1')
    # --------------------------------------------------------------- indexing
    gb = ctx.sfi('get_board_cards')
    facts = {'shared_rows_use_floor_division': False, 'later_rows_use_board_index': False, 'mid_counts_rows_before_return_street': False,
             'single_run_uses_board_index': False, 'range_checked': False}
    ro = T.spec('self.street_return_index is not None', boolean=True)
    for p in ctx.paths(gb):
        cs = [unversion(c) for c in p.conds()]
        ys = [unversion(e.term) for e in p.events if e.kind == 'yield']
        if p.raised and p.outcome[1] == 'ValueError' and T.spec('board_index not in self.board_indices', boolean=True) in cs:
            facts['range_checked'] = True
        for y in ys:
            if ro in cs:
                row = ('sub', ('self', 'board_cards'), ('enumidx', ('self', 'board_cards')))
                lt_mid = [c for c in cs if c[0] == 'lt' and c[1] == ('enumidx', ('self', 'board_cards'))]
                ge_mid = [c for c in cs if c[0] == 'le' and c[2] == ('enumidx', ('self', 'board_cards'))]
                if lt_mid:
                    facts['shared_rows_use_floor_division'] |= y == ('sub', row, ('floordiv', ('name', 'board_index'), ('self', 'runout_count'))) \
                        or y == ('sub', row, ('//=', ('name', 'board_index'), ('self', 'runout_count')))
                    mid = lt_mid[0][2]
                    facts['mid_counts_rows_before_return_street'] |= T.mentions(mid, lambda s: s == ('attr', ('sub', ('self', 'streets'), ('elem', T.spec('range(self.street_return_index)'))), 'board_dealing_count'))
                elif ge_mid:
                    facts['later_rows_use_board_index'] |= y == ('sub', row, ('name', 'board_index'))
            elif T.mk_not(ro) in cs:
                facts['single_run_uses_board_index'] |= y == ('sub', ('elem', ('self', 'board_cards')), ('name', 'board_index'))
    missing = [k for k, v in facts.items() if not v]
    chk.ob('C14.indexing', 'State.get_board_cards', not missing, gb.loc,
           'the r run-outs of a starting board share the rows dealt before the all-in (row index = board // r) and have their own rows afterwards',
           got=f'missing: {missing}' if missing else 'ok')
    db = ctx.sfi('deal_board')
    ok = False
    for p in ctx.paths(db):
        if not p.returned:
            continue
        idx = None
        for k, v in p.env.items():
            pass
        # row index = sum of board counts of earlier streets + cards of this street already dealt
        for e in p.writes():
            if T.root_self_attr(e.term) == 'board_cards' and e.op == 'call:append' and unversion(e.value)[1][0][0] == 'elem':
                t = unversion(e.term)
                if t[0] == 'sub':
                    row = t[2]
                    s = T.show(row)
                    ok |= 'self.streets[elem<range(self.street_index)>].board_dealing_count' in s and \
                        'max(' in s and 'self.street.board_dealing_count' in s and 'self.board_dealing_count' in s
    chk.ob('C14.indexing', 'State.deal_board', ok, db.loc,
           'a dealt board card goes to row (cards of earlier streets + cards of this street already on the board)')
    # ------------------------------------------------------------- even split
    bp = ctx.sfi('_begin_chips_pushing')
    ok = any(isinstance(nd, ast.Call) and self_attr(nd.func) == 'divmod' and len(nd.args) == 2 and T.norm(nd.args[1]) == ('self', 'board_count')
             for nd in walk_no_nested(bp.node))
    chk.ob('C14.split', 'State._begin_chips_pushing', ok, bp.loc,
           'each pot is divided evenly between the boards (quotient per board, remainder to the first: see C01.divmod)')
    from .c01 import _divmod
    from .c19 import _Rename

    class _Split(_Rename):
        def ob(self, rule, construct, *a, **k):
            if '_begin_chips_pushing' in construct and 'divmod(/self.board_count)' in construct:
                return self.chk.ob('C14.split', construct, *a, **k)
            return True

        def floor(self, rule, n):
            return None
    _divmod(_Split(chk), ctx)
    # ... with the package's own division by default (exact for fractional chips), wherever a variant is built
    from .helpers import Refile as _Re, default_helpers
    default_helpers(chk, ctx, 'C14.split', ['state', 'games', 'notation'])
    from .c01 import _helpers
    _helpers(_Re(chk, {'C01.helpers': 'C14.split'}, only=lambda r, c: c == 'utilities.divmod'), ctx)
    from .cover import board_rows
    board_rows(chk, ctx, 'C14.indexing')
    # which board the next cards go to: the first board still owed cards (with several boards a street may be dealt in pieces)
    from .c10 import _verifiers
    from .helpers import Refile
    _verifiers(Refile(chk, {'C10.verifiers': 'C14.indexing'},
                      only=lambda r, c: c in ('State.board_dealing_count', 'State.verify_board_dealing')), ctx)
    chk.floor('C14.once', 7)
    chk.floor('C14.count_checked', 3)
