"""C15 - the operation log is a faithful record; states are deterministic and copyable.

Decided statically: each record field is the term the operation actually
applied (player index = the index written, amount = the stack delta / the new
bet, cards = the cards consumed); every parameter of an operation is recorded;
the log is appended only by `_update`; records are frozen; all mutable state is
per-instance (default factories, no class-attribute / global writes, no custom
copy protocol); the only sources of nondeterminism are the two shuffles.
Not decided: equality of replayed / copied runs (a relation between runs).
"""
from __future__ import annotations

import ast

from .. import terms as T
from ..model import AnalysisError, deco_names, self_attr, stmt_text, walk_no_nested
from ..paths import unversion
from .c01 import canon_actor, cell_deltas
from .c08 import discovered

PER_PLAYER = {
    'ante_posting_statuses', 'blind_or_straddle_posting_statuses', 'bets', 'stacks', 'payoffs',
    'hole_cards', 'hole_card_statuses', 'hole_dealing_statuses', 'standing_pat_or_discarding_statuses',
    'runout_count_selector_statuses', 'hand_killing_statuses', 'chips_pulling_statuses', 'statuses',
}
PARAM_FIELD = {'status_or_hole_cards': 'hole_cards'}
MUTABLE_ANN = ('list', 'deque', 'set', 'dict', 'Counter', 'defaultdict')
BANNED_CALLS = {'time', 'perf_counter', 'monotonic', 'now', 'today', 'id', 'getrandbits', 'random', 'randint',
                'choice', 'choices', 'sample', 'urandom', 'uuid4', 'uuid1', 'getpid', 'hash'}
RNG_ALLOWED = {'_setup': {'shuffle'}, 'get_dealable_cards': {'shuffled'}, '_consume_cards': {'shuffled'}}


def record_fields(prog, cname):
    """positional dataclass fields of an Operation subclass (KW_ONLY commentary excluded)"""
    ci = prog.cls(cname)
    out = []
    for c in reversed(prog.mro(ci)):
        kw = False
        for name, ann in c.ann.items():
            if name == '_' and 'KW_ONLY' in ast.unparse(ann):
                kw = True
                continue
            if not kw and name not in out:
                out.append(name)
    return out


def run(chk, ctx) -> None:
    prog = ctx.prog
    ms = ctx.state.methods
    disc = discovered(ctx)
    op_classes = {c.name for c in prog.subclasses('Operation')}
    # ------------------------------------------------------------------ frozen
    for cname in sorted(op_classes | {'Operation'}):
        ci = prog.cls(cname)
        frozen = any(isinstance(d, ast.Call) and ast.unparse(d.func) == 'dataclass'
                     and any(k.arg == 'frozen' and isinstance(k.value, ast.Constant) and k.value.value is True for k in d.keywords)
                     for d in ci.decorators)
        chk.ob('C15.frozen', cname, frozen, ci.loc, 'operation records are immutable (frozen dataclass)')
    chk.floor('C15.frozen', 18)
    # --------------------------------------------------------------------- log
    writers = sorted(n for n, s in ctx.eff.write_sites.items() if any(r == 'operations' for r, _ in s))
    chk.ob('C15.log', 'State.operations:writers', writers == ['_update'], ctx.state.loc,
           'the log is written only by _update', got=writers, want=['_update'])
    up = ctx.sfi('_update')
    ok = True
    n = 0
    for p in ctx.paths(up):
        for e in p.writes():
            if T.root_self_attr(e.term) == 'operations':
                n += 1
                ok &= e.op == 'call:append' and e.value == ('tuple', (('name', 'operation'),))
    chk.ob('C15.log', 'State._update', ok and n >= 1, up.loc, 'the log is append-only and what is appended is the operation passed in')
    for name, fi in ms.items():
        if name.startswith('_update_'):
            calls = [c for c in walk_no_nested(fi.node) if isinstance(c, ast.Call) and self_attr(c.func) == '_update']
            ok = len(calls) == 1 and len(calls[0].args) == 1 and isinstance(calls[0].args[0], ast.Name) and calls[0].args[0].id == 'operation'
            every = True
            for p in ctx.paths(fi):
                first_log = next((k for k, e in enumerate(p.events) if e.kind == 'call' and e.value == ('self', '_update')), None)
                first_other = next((k for k, e in enumerate(p.events) if e.kind in ('write',) or (e.kind == 'call' and e.value[0] == 'self' and e.value[1] != '_update')), None)
                if first_log is None or (first_other is not None and first_other < first_log):
                    every = False
            chk.ob('C15.log', f'State.{name}', ok and every, fi.loc,
                   'every phase update forwards the record it was given to the log exactly once, on every path and before anything else happens')
    chk.floor('C15.log', 11)

    # ------------------------------------------------------------------ record
    for op, (v, q) in sorted(disc.items()):
        of = ms[op]
        recs = {}
        problems = []
        n_paths = 0
        for p in ctx.paths(of):
            if not p.returned:
                continue
            n_paths += 1
            made = [e for e in p.calls() if e.value[0] == 'name' and e.value[1] in op_classes]
            if len(made) != 1:
                problems.append(f'{len(made)} records built on one path')
                continue
            ev = made[0]
            cname = ev.value[1]
            recs[cname] = recs.get(cname, 0) + 1
            if unversion(p.outcome[1]) != unversion(ev.term):
                problems.append('the returned record is not the one built')
            fields = record_fields(prog, cname)
            args = [unversion(a) for a in ev.term[2]]
            kwargs = dict(ev.term[3])
            if kwargs.get('commentary') != ('name', 'commentary'):
                problems.append('commentary is not recorded')
            if len(args) != len(fields):
                problems.append(f'{cname} built with {len(args)} positional values for fields {fields}')
                continue
            rec = dict(zip(fields, args))
            problems += _check_fields(ctx, op, v, p, rec, cname)
        # parameters are all recorded
        params = [x for x in of.params if x not in ('self', 'commentary')]
        for cname in recs:
            fields = record_fields(prog, cname)
            missing = [x for x in params if PARAM_FIELD.get(x, x) not in fields]
            if missing:
                problems.append(f'parameter(s) {missing} of {op} have no field in {cname}')
        chk.ob('C15.record', f'State.{op}', not problems and n_paths > 0, of.loc,
               'the record is built from what the operation actually did (same player, same amount, same cards) and returned',
               got='; '.join(sorted(set(problems))) or f'{sorted(recs)} on {n_paths} path(s)')
    # the showing record takes its cards from the verifier's answer (second value): that value is the cards that were tabled - the named
    # ones, or the whole hand / nothing when none were named - and not the completed hand
    from .cover import showing_components
    from .helpers import Refile
    from .helpers import foreign
    foreign(chk, showing_components, Refile(chk, {'C12.show_flags': 'C15.record', 'C12.show_all': 'C15.record'},
                                            only=lambda r, c: c.endswith(':cards') or r == 'C12.show_all'), ctx)
    # replaying the log hands the logged cards back to the operations: a logged unknown card (falsy) is a value, not "no card given"
    from .c19 import card_forms
    card_forms(chk, ctx, 'C15.record')
    chk.floor('C15.record', 23)
    from .cover import records_inert
    records_inert(chk, ctx, 'C15.record')

    _instance_state(chk, ctx)
    _nondeterminism(chk, ctx)


def _check_fields(ctx, op, verifier, path, rec, cname):
    problems = []
    writes = path.writes()
    d = cell_deltas(path)
    # ---- player index: every per-player cell written on this path is the recorded player's
    if 'player_index' in rec:
        who = canon_actor(rec['player_index'])
        for e in writes:
            t = unversion(e.term)
            cell = _first_cell(t)
            if cell is None or cell[0] not in PER_PLAYER:
                continue
            idx = canon_actor(cell[1])
            if idx[0] in ('elem', 'enumidx') or idx == who:
                continue
            problems.append(f'writes {cell[0]}[{T.show(idx)}] but records player {T.show(who)}')
        # callee helpers that take the player
        for c in path.calls():
            if c.value == ('self', '_muck_hole_cards') and c.term[3] and canon_actor(unversion(c.term[3][0])) != who:
                problems.append('mucks one player, records another')
    # ---- amount
    if 'amount' in rec and cname != 'ChipsPushing':
        amt = canon_actor(rec['amount'])
        st = [(k, v) for (a, k), v in d.items() if a == 'stacks']
        if cname == 'CompletionBettingOrRaisingTo':
            sets = [unversion(e.value) for e in writes if e.op == 'set' and unversion(e.term)[0] == 'sub' and unversion(e.term)[1] == ('self', 'bets')]
            if sets != [rec['amount']]:
                problems.append(f'records {T.show(rec["amount"])} but the new bet is {[T.show(s) for s in sets]}')
        elif st:
            for k, v in st:
                v = canon_actor(v)
                if v != amt and v != T.neg(amt):
                    problems.append(f'records amount {T.show(amt)} but the stack moves by {T.show(v)}')
        else:
            problems.append('records an amount but moves no stack')
    # ---- cards dealt / burnt
    consumed = [unversion(c.term[3][0]) for c in path.calls() if c.value == ('self', '_consume_cards') and c.term[3]]
    if cname in ('HoleDealing', 'BoardDealing') and 'cards' in rec:
        if consumed != [rec['cards']]:
            problems.append(f'records cards {T.show(rec["cards"])} but consumes {[T.show(c) for c in consumed]}')
    if cname == 'CardBurning' and 'card' in rec:
        if consumed != [('tuple', (rec['card'],))]:
            problems.append('records a card other than the one consumed')
    if cname == 'HoleDealing' and 'statuses' in rec:
        if rec['statuses'][0] != 'call' or rec['statuses'][1] != 'tuple':
            problems.append('statuses are not recorded as a tuple')
        # the recorded facings are the ones taken from the pending queue, one per card dealt
        pops = [unversion(e.term) for e in writes if e.op == 'call:popleft' and T.root_self_attr(unversion(e.term)) == 'hole_dealing_statuses']
        loops = [e for e in path.events if e.kind == 'loop' and e.op == 'enter']
        if loops and pops:
            appended = [unversion(e.value) for e in path.events if e.kind == 'lwrite' and e.op == 'call:append']
            got_local = [unversion(c.term) for c in path.calls() if c.term[0] == 'mcall' and c.term[2] == 'append' and c.term[1][0] in ('list', 'name')]
            if not any(T.mentions(x, lambda y: isinstance(y, tuple) and len(y) > 2 and y[0] == 'mcall' and y[2] == 'popleft') for x in appended + got_local):
                problems.append('the facings recorded are not the ones taken from the pending queue')
    if cname == 'StandingPatOrDiscarding' and 'cards' in rec:
        moved = [e for e in writes if T.root_self_attr(unversion(e.term)) == 'discarded_cards']
        for e in moved:
            pay = unversion(e.value)[1][0]
            if not (pay[0] == 'elem' and pay[1] == rec['cards']):
                problems.append('records cards other than the ones discarded')
    if cname == 'HoleCardsShowingOrMucking' and 'hole_cards' in rec:
        # the verifier returns (status, cards as tabled, completed hole cards, facings, player): the log says what was tabled
        v = rec['hole_cards']
        if not (v[0] == 'proj' and v[2] == 1 and v[1][0] == 'mcall' and v[1][2] == verifier):
            problems.append('records something other than the cards the player tabled (second value of the verifier)')
    if cname == 'RunoutCountSelection' and 'runout_count' in rec:
        if rec['runout_count'] != ('name', 'runout_count'):
            problems.append('records a runout count other than the one chosen')
    if cname == 'ChipsPushing':
        a = rec.get('amounts')
        ok = a is not None and T.show(a).startswith('tuple(starmap(sub, zip(self.bets')
        before = [e for e in path.events if e.kind == 'write' and T.root_self_attr(e.term) == 'bets']
        if not ok:
            problems.append('amounts are not (bets after - bets before)')
        pop = T.spec('self._sub_pots.pop(0)')
        for i, f in ((1, 'pot_index'), (2, 'board_index'), (3, 'hand_type_index')):
            if rec.get(f) != ('proj', pop, i):
                problems.append(f'{f} is not the one of the sub-pot pushed')
    if cname == 'BetCollection':
        b = rec.get('bets')
        if not (b is not None and b[0] == 'call' and b[1] == 'tuple'):
            problems.append('bets are not recorded as a tuple')
        # what is recorded as collected: a copy of the bets, the uncalled part cut off, nothing from a lone survivor
        fn = ctx.sfi(op).node
        m = ctx.m
        facts = {
            'a copy of the bets': bool(m.assigns(fn, 'self.bets.copy()')),
            'nothing from the last player standing': bool(m.full_assigns(fn, 'bets[player_index]', '0')) and bool(m.assigns(fn, 'self.statuses.index(True)')),
            'an overbet is recorded up to the cutoff': bool(m.full_assigns(fn, 'bets[i]', 'bet_cutoff')),
        }
        problems += [f'BetCollection record: not found: {k}' for k, v in facts.items() if not v]
    return problems


def _first_cell(t):
    """(attr, index) for self.attr[index]... (first subscript level)"""
    chain = []
    while t and t[0] in ('sub', 'attr'):
        chain.append(t)
        t = t[1]
    if t and t[0] == 'self' and chain:
        last = chain[-1]
        if last[0] == 'sub':
            return (t[1], last[2])
    return None


def _instance_state(chk, ctx) -> None:
    st = ctx.state
    n = 0
    for name, node in st.attr_nodes.items():
        if isinstance(node, ast.Assign) and (isinstance(node.value, (ast.List, ast.Dict, ast.Set, ast.ListComp, ast.DictComp, ast.SetComp)) or (
                isinstance(node.value, ast.Call) and isinstance(node.value.func, ast.Name) and node.value.func.id in ('list', 'dict', 'set', 'deque', 'defaultdict'))):
            n += 1
            chk.ob('C15.instance_state', f'State.{name}', False, ctx.loc(ctx.sfi('__post_init__'), node),
                   'a mutable container of the state is created per instance (default_factory), never shared through the class', got=stmt_text(node))
        if not isinstance(node, ast.AnnAssign):
            continue
        ann = ast.unparse(node.annotation)
        if 'InitVar' in ann or name == '_':
            continue
        if 'ClassVar' in ann:
            # a class-level attribute holding a mutable container is state shared by every instance and every copy
            v = node.value
            shared = isinstance(v, (ast.List, ast.Dict, ast.Set, ast.ListComp, ast.DictComp, ast.SetComp)) or (
                isinstance(v, ast.Call) and isinstance(v.func, ast.Name) and v.func.id in ('list', 'dict', 'set', 'deque', 'defaultdict'))
            if shared:
                n += 1
                chk.ob('C15.instance_state', f'State.{name}', False, ctx.loc(ctx.sfi('__post_init__'), node),
                       'a mutable container of the state is created per instance (default_factory), never shared through the class',
                       got=stmt_text(node))
            continue
        mutable = ann.split('[')[0].split('|')[0].strip() in MUTABLE_ANN
        if not mutable:
            continue
        n += 1
        v = node.value
        ok = isinstance(v, ast.Call) and ast.unparse(v.func) == 'field' and (
            any(k.arg == 'default_factory' for k in v.keywords)
            or any(k.arg == 'default' and isinstance(k.value, ast.Constant) for k in v.keywords))
        chk.ob('C15.instance_state', f'State.{name}', ok, ctx.loc(ctx.sfi('__post_init__'), node),
               'a mutable container of the state is created per instance (default_factory), never shared through the class',
               got=stmt_text(v) if v is not None else None)
    # ... and all of it is in the declared fields: no method keeps a result of its own between calls (cache, cached_property)
    from ..ctx import _dynamic
    hidden = [(fi, d) for fi in st.methods.values() for d in _dynamic(ctx.prog, fi)[:1]]
    chk.ob('C15.instance_state', 'State:no_hidden_state', not hidden, ctx.loc(hidden[0][0], hidden[0][1][0]) if hidden else st.loc,
           'the state of a hand is its declared fields: no method of State is wrapped by a cache or another decorator that remembers '
           '(an observed state would then differ from an unobserved twin, a replay or an earlier copy)', got=[f'{fi.name}: {d[1]}' for fi, d in hidden[:3]])
    chk.floor('C15.instance_state', 20)
    # no class-attribute / global writes anywhere in State
    bad = []
    for name, fi in st.methods.items():
        for node in ast.walk(fi.node):
            if isinstance(node, (ast.Global, ast.Nonlocal)) and not isinstance(node, ast.Nonlocal):
                bad.append((fi, node, 'global statement'))
            tg = node.targets if isinstance(node, ast.Assign) else [node.target] if isinstance(node, (ast.AugAssign, ast.AnnAssign)) else []
            for t in tg:
                base = t
                while isinstance(base, (ast.Attribute, ast.Subscript)):
                    base = base.value
                if isinstance(base, ast.Name) and base.id in ('State', 'cls', '__class__') and not isinstance(t, ast.Name):
                    bad.append((fi, node, 'class attribute write'))
                if isinstance(base, ast.Call) and isinstance(base.func, ast.Name) and base.func.id == 'type':
                    bad.append((fi, node, 'class attribute write'))
            if isinstance(node, ast.Call) and isinstance(node.func, ast.Attribute) and node.func.attr in ('append', 'extend', 'add', 'update', 'clear', 'pop'):
                base = node.func.value
                while isinstance(base, (ast.Attribute, ast.Subscript)):
                    base = base.value
                if isinstance(base, ast.Name) and base.id in ('State', 'cls'):
                    bad.append((fi, node, 'class attribute mutation'))
    chk.ob('C15.instance_state', 'State:class_or_global_writes', not bad, ctx.loc(bad[0][0], bad[0][1]) if bad else st.loc,
           'no method writes a class attribute or a module global (copies stay independent)',
           got=[f'{f.name}: {why}' for f, _, why in bad[:3]])
    # class-level lookups are only read
    shared = [n for n, v in st.attrs.items() if n not in st.ann and isinstance(v, ast.Call)]
    writes_shared = [n for n in shared for m, s in ctx.eff.write_sites.items() if any(r.endswith(n.lstrip('_')) for r, _ in s)]
    chk.ob('C15.instance_state', 'State:shared_lookups', not writes_shared, st.loc,
           'objects shared through the class (the two opening lookups) are only read', got=shared)
    custom = [m for m in ('__copy__', '__deepcopy__', '__reduce__', '__reduce_ex__', '__getstate__', '__setstate__', '__getattr__', '__setattr__')
              if m in st.methods]
    chk.ob('C15.instance_state', 'State:copy_protocol', not custom, st.loc,
           'State defines no custom copy / pickling / attribute protocol: deepcopy copies every field', got=custom)
    # a field never stores an alias of another field's container
    alias = []
    for name, fi in st.methods.items():
        for node in walk_no_nested(fi.node):
            if isinstance(node, ast.Assign) and len(node.targets) == 1 and self_attr(node.targets[0]) and self_attr(node.value) \
                    and self_attr(node.value) in st.ann and not st.methods.get(self_attr(node.value)):
                ann = ast.unparse(st.ann[self_attr(node.value)])
                if ann.split('[')[0] in MUTABLE_ANN:
                    alias.append((fi, node))
    chk.ob('C15.instance_state', 'State:field_aliasing', not alias, ctx.loc(alias[0][0], alias[0][1]) if alias else st.loc,
           'no field is bound to the container of another field (two names for one list would diverge after a copy-free edit)',
           got=[stmt_text(n) for _, n in alias[:2]])


    # deepcopy treats functions as atoms: a closure, lambda, bound method or partial stored in a field keeps pointing at the
    # ORIGINAL instance after a copy, so the copy would read (or write) the other state through it
    bound = []
    for name, fi in st.methods.items():
        local_fns = {n.name for n in ast.walk(fi.node) if isinstance(n, ast.FunctionDef) and n is not fi.node}
        for node in walk_no_nested(fi.node):
            tg = node.targets if isinstance(node, ast.Assign) else [node.target] if isinstance(node, ast.AnnAssign) and node.value is not None else []
            calls = []
            if isinstance(node, ast.Expr) and isinstance(node.value, ast.Call) and isinstance(node.value.func, ast.Attribute) \
                    and node.value.func.attr in ('append', 'extend', 'add', 'insert', 'update', 'setdefault', '__setitem__') and self_attr_root(node.value.func.value):
                calls = list(node.value.args)
            vals = ([node.value] if [t for t in tg if self_attr_root(t)] else []) + calls
            def stored_callable(x):
                """is x (the stored value, an element of a stored literal, or an argument of a stored partial) such a callable?"""
                if isinstance(x, ast.Lambda):
                    return any(isinstance(y, ast.Name) and y.id == 'self' for y in ast.walk(x))
                if isinstance(x, ast.Name):
                    return x.id in local_fns
                if isinstance(x, ast.Attribute) and isinstance(x.value, ast.Name) and x.value.id == 'self':
                    return x.attr in st.methods and not st.methods[x.attr].is_property
                if isinstance(x, (ast.Tuple, ast.List, ast.Set)):
                    return any(stored_callable(e) for e in x.elts)
                if isinstance(x, ast.Dict):
                    return any(stored_callable(e) for e in x.values if e is not None)
                if isinstance(x, ast.Call) and isinstance(x.func, ast.Name) and x.func.id == 'partial':
                    return any(stored_callable(e) for e in x.args) or any(stored_callable(k.value) for k in x.keywords) \
                        or any(isinstance(y, ast.Name) and y.id == 'self' for a in x.args for y in ast.walk(a))
                if isinstance(x, ast.IfExp):
                    return stored_callable(x.body) or stored_callable(x.orelse)
                return False
            for v in vals:
                if stored_callable(v):
                    bound.append((fi, node))
    chk.ob('C15.instance_state', 'State:bound_callables', not bound, ctx.loc(bound[0][0], bound[0][1]) if bound else st.loc,
           'no field stores a closure, lambda, bound method or partial that refers to the instance: deepcopy keeps functions as they are, '
           'so a copy would keep consulting the original state through it', got=[stmt_text(n) for _, n in bound[:2]])


def self_attr_root(t):
    base = t
    while isinstance(base, (ast.Attribute, ast.Subscript)):
        if isinstance(base, ast.Attribute) and isinstance(base.value, ast.Name) and base.value.id == 'self':
            return base.attr
        base = base.value
    return None


def _is_called(root, attr_node) -> bool:
    return any(isinstance(c, ast.Call) and c.func is attr_node for c in ast.walk(root))


def _nondeterminism(chk, ctx) -> None:
    st = ctx.state
    rng = {}
    banned = []
    for name, fi in st.methods.items():
        for node in ast.walk(fi.node):
            if isinstance(node, ast.Call):
                f = node.func
                fname = f.id if isinstance(f, ast.Name) else f.attr if isinstance(f, ast.Attribute) else None
                if fname in ('shuffle', 'shuffled'):
                    rng.setdefault(name, set()).add(fname)
                elif fname in BANNED_CALLS and not (isinstance(f, ast.Attribute) and self_attr(f) is not None):
                    if isinstance(f, ast.Attribute) and isinstance(f.value, (ast.Attribute, ast.Subscript, ast.Name)) and fname in ('index', 'count'):
                        continue
                    banned.append((fi, node, fname))
    chk.ob('C15.nondeterminism', 'State:rng', rng == RNG_ALLOWED, st.loc,
           'the only random choices are the initial shuffle of the deck and the shuffle of the reserve when it is recycled',
           got={k: sorted(v) for k, v in rng.items()}, want={k: sorted(v) for k, v in RNG_ALLOWED.items()})
    chk.ob('C15.nondeterminism', 'State:clock_identity', not banned, ctx.loc(banned[0][0], banned[0][1]) if banned else st.loc,
           'no clock, object identity, hash, process or other RNG reads inside State', got=[f'{f.name}: {n}' for f, _, n in banned[:3]])
    # iteration over an unordered set must not drive the state
    set_fields = {n for n, a in st.ann.items() if ast.unparse(a).split('[')[0] == 'set'}
    bad = []

    def set_valued(e, local_sets) -> bool:
        if isinstance(e, (ast.Set, ast.SetComp)):
            return True
        if isinstance(e, ast.Call) and isinstance(e.func, ast.Name) and e.func.id in ('set', 'frozenset'):
            return True
        if isinstance(e, ast.Call) and isinstance(e.func, ast.Attribute) and e.func.attr in ('union', 'intersection', 'difference', 'symmetric_difference', 'copy') \
                and set_valued(e.func.value, local_sets):
            return True
        if isinstance(e, ast.BinOp) and isinstance(e.op, (ast.Sub, ast.BitOr, ast.BitAnd, ast.BitXor)):
            return set_valued(e.left, local_sets) or set_valued(e.right, local_sets)
        if isinstance(e, ast.Name):
            return e.id in local_sets
        return self_attr(e) in set_fields
    for name, fi in st.methods.items():
        local_sets = set()
        for _ in range(2):
            for node in ast.walk(fi.node):
                if isinstance(node, ast.Assign) and len(node.targets) == 1 and isinstance(node.targets[0], ast.Name) and set_valued(node.value, local_sets):
                    local_sets.add(node.targets[0].id)
        for node in ast.walk(fi.node):
            sinks = []
            if isinstance(node, (ast.For, ast.comprehension)):
                sinks.append(node.iter)
            if isinstance(node, ast.Call) and isinstance(node.func, ast.Name) and node.func.id in ('list', 'tuple', 'next', 'iter', 'deque', 'enumerate', 'zip', 'chain') :
                sinks.extend(node.args)
            if isinstance(node, ast.Call) and isinstance(node.func, ast.Attribute) and node.func.attr in ('extend', 'extendleft', 'join'):
                sinks.extend(node.args)
            if isinstance(node, ast.Starred):
                sinks.append(node.value)
            for e in sinks:
                if set_valued(e, local_sets) and (fi, node) not in bad:
                    bad.append((fi, node))
    for name, fi in st.methods.items():
        for node in ast.walk(fi.node):
            its = []
            if isinstance(node, ast.For):
                its.append(node.iter)
            if isinstance(node, ast.comprehension):
                its.append(node.iter)
            if isinstance(node, ast.Call) and isinstance(node.func, ast.Name) and node.func.id in ('list', 'tuple', 'next', 'iter', 'deque') and node.args:
                its.append(node.args[0])
            for it in its:
                src = it
                if self_attr(src) in set_fields:
                    bad.append((fi, node))
                if isinstance(src, ast.Call) and isinstance(src.func, ast.Name) and src.func.id in ('set', 'frozenset'):
                    bad.append((fi, node))
                if isinstance(src, (ast.Set, ast.SetComp)):
                    bad.append((fi, node))
    chk.ob('C15.nondeterminism', 'State:set_iteration', not bad, ctx.loc(bad[0][0], bad[0][1]) if bad else st.loc,
           'no loop or materialisation iterates an unordered set (sorted(...) is fine): order of effects is fixed by the deck alone',
           got=[f'{f.name}: {stmt_text(n, 60)}' for f, n in bad[:3]], want='sets used only for membership / comparison')
    # the module imports no clock / os facilities
    mi = ctx.prog.module('state')
    imps = sorted(v for v in mi.imports.values() if v.split('.')[0] in ('time', 'os', 'datetime', 'uuid', 'secrets', 'threading'))
    chk.ob('C15.nondeterminism', 'state:imports', not imps, 'pokerkit/state.py:1', 'the engine module imports no clock / os / uuid facility', got=imps)
    chk.floor('C15.nondeterminism', 4)
