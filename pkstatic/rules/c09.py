"""C09 - automation is only a convenience.

Decided statically (non-interference): the automation tuple is consulted only
inside the phase update steps and only as a membership test; the 11 members
are in bijection with 11 guarded sites, each calling the documented public
operation with no arguments under a fresh statement of its precondition (the
site re-evaluates availability before every call); operations never consult
the tuple.  Together: the flag can only change *who* invokes the same method
with the same defaults at the same moment it becomes available.
Not decided: the relative order of two simultaneously available steps against
an arbitrary manual order.
"""
from __future__ import annotations

import ast

from .. import terms as T
from ..evalstatic import SEval
from ..model import AnalysisError, self_attr, stmt_text, walk_no_nested
from ..phases import AUTOMATION_OPS, OPERATIONS, automation_sites, fresh_facts, implied, phase_pre, self_calls_in, wrapper_properties
from .c08 import discovered


def control_conditions(fn, node):
    """[(test, polarity)] of the if / while statements the node is nested in (control dependence)"""
    out = []

    def jumps(body):
        return bool(body) and isinstance(body[-1], (ast.Return, ast.Raise, ast.Continue, ast.Break))

    def walk(stmts, acc):
        for st in stmts:
            if not any(n is node for n in ast.walk(st)):
                # a guard clause (`if c: return`) restricts what follows exactly like an `else:` would
                if isinstance(st, ast.If):
                    if jumps(st.body) and not jumps(st.orelse):
                        acc = acc + [(st.test, False)]
                    elif jumps(st.orelse) and not jumps(st.body):
                        acc = acc + [(st.test, True)]
                continue
            if isinstance(st, ast.If):
                if any(n is node for b in st.body for n in ast.walk(b)):
                    return walk(st.body, acc + [(st.test, True)])
                if any(n is node for b in st.orelse for n in ast.walk(b)):
                    return walk(st.orelse, acc + [(st.test, False)])
                return acc
            if isinstance(st, ast.While):
                if any(n is node for b in st.body for n in ast.walk(b)):
                    return walk(st.body, acc + [(st.test, True)])
                return acc
            if isinstance(st, (ast.For, ast.With, ast.Try)):
                for fld in ('body', 'orelse', 'finalbody'):
                    sub = getattr(st, fld, None) or []
                    if any(n is node for b in sub for n in ast.walk(b)):
                        return walk(sub, acc)
            return acc
        return acc
    return walk(fn.body, out)


AUTOMATION_VALUES = {
    'ANTE_POSTING': 'Ante posting', 'BET_COLLECTION': 'Bet collection', 'BLIND_OR_STRADDLE_POSTING': 'Blind or straddle posting',
    'CARD_BURNING': 'Card burning', 'HOLE_DEALING': 'Hole dealing', 'BOARD_DEALING': 'Board dealing',
    'RUNOUT_COUNT_SELECTION': 'Runout-count selection', 'HOLE_CARDS_SHOWING_OR_MUCKING': 'Hole cards showing or mucking',
    'HAND_KILLING': 'Hand killing', 'CHIPS_PUSHING': 'Chips pushing', 'CHIPS_PULLING': 'Chips pulling',
}       # docs/simulation.rst, table of automations


def run(chk, ctx) -> None:
    ms = ctx.state.methods
    disc = discovered(ctx)
    sev = SEval(ctx.prog)
    members = list(sev.enum_members('Automation'))
    chk.analysed['automation_members'] = members
    # the published names of the automations (a caller may name them by value: Automation('Hole dealing'), a settings file)
    got = {k: getattr(v, 'value', None) for k, v in sev.enum_members('Automation').items()}
    for k in sorted(set(AUTOMATION_VALUES) | set(got)):
        chk.ob('C09.members', f'Automation.{k}', got.get(k) == AUTOMATION_VALUES.get(k), ctx.prog.cls('Automation').loc,
               'the automation and its published value', got=got.get(k), want=AUTOMATION_VALUES.get(k))
    chk.floor('C09.members', 11)
    # ---------------------------------------------------------------- confined
    reads = []
    for name, fi in ms.items():
        for n in ast.walk(fi.node):
            if self_attr(n) == 'automations':
                reads.append((fi, n))
    sites = automation_sites(ctx)
    site_nodes = set()
    for fi, m, node, body in sites:
        for c in ast.walk(node.test):
            if self_attr(c) == 'automations':
                site_nodes.add(id(c))
    for fi, n in reads:
        ok = id(n) in site_nodes and fi.name.startswith('_update_')
        chk.ob('C09.confined', f'State.{fi.name}', ok, ctx.loc(fi, n),
               'the automation tuple is read only by a phase update step and only as `Automation.M in self.automations`')
    chk.floor('C09.confined', 11)
    writes = [n for n, s in ctx.eff.write_sites.items() if any(r == 'automations' for r, _ in s)]
    chk.ob('C09.confined', 'State.automations:writers', not writes, ctx.state.loc,
           'no method writes the automation tuple', got=writes)
    # --------------------------------------------------------------- bijection
    by_member = {}
    for fi, m, node, body in sites:
        by_member.setdefault(m, []).append((fi, node, body))
    for m in members:
        s = by_member.get(m, [])
        chk.ob('C09.bijection', f'Automation.{m}', len(s) == 1, s[0][0].loc if s else ctx.state.loc,
               'every automation member is consulted at exactly one site', got=len(s), want=1)
    for m in by_member:
        if m not in members:
            chk.ob('C09.bijection', f'Automation.{m}', False, by_member[m][0][0].loc, 'site consults an unknown member')
    wrappers = wrapper_properties(ctx)
    for m, lst in by_member.items():
        for fi, node, body in lst:
            calls = [c for c in self_calls_in(body) if self_attr(c.func) in disc]
            names = sorted({self_attr(c.func) for c in calls})
            want = AUTOMATION_OPS.get(m)
            if want is not None:
                chk.ob('C09.bijection', f'State.{fi.name}:{m}', names == [want], ctx.loc(fi, node),
                       'the member automates its documented operation and nothing else', got=names, want=[want])
                upd = OPERATIONS[want][0]
                chk.ob('C09.phase', f'State.{fi.name}:{m}', fi.name == upd, ctx.loc(fi, node),
                       "the automated call sits in the update step of the operation's own phase", got=fi.name, want=upd)
            for c in calls:
                chk.ob('C09.defaults', f'State.{fi.name}:{self_attr(c.func)}', not c.args and not c.keywords, ctx.loc(fi, c),
                       'the automated call is the public operation with default arguments (what a user would call)',
                       got=stmt_text(c))
            # all self-calls in the guarded region are operations or pure reads
            other = [self_attr(c.func) for c in self_calls_in(body)
                     if self_attr(c.func) not in disc and ctx.eff.mod.get(self_attr(c.func))]
            chk.ob('C09.only_operations', f'State.{fi.name}:{m}', not other, ctx.loc(fi, node),
                   'an automation branch changes the state only through public operations', got=other)
    chk.floor('C09.bijection', 22)
    chk.floor('C09.defaults', 11)
    # ------------------------------------------------------------------ eager
    # every automated call re-evaluates availability: fresh precondition at the call (shared with C07.reentrancy)
    n = 0
    for name, fi in ms.items():
        if not name.startswith('_update_'):
            continue
        seen = {}
        fails = {}
        for p in ctx.paths(fi):
            for k, e in enumerate(p.events):
                if e.kind == 'call' and e.value[0] == 'self' and e.value[1] in disc:
                    op = e.value[1]
                    v, q = disc[op]
                    key = (op, e.lineno)
                    seen[key] = e
                    facts = fresh_facts(ctx, p, k)
                    for need, origin in phase_pre(ctx, v):
                        ok, _ = implied(ctx, need, origin, facts, v, wrappers)
                        if not ok:
                            fails.setdefault(key, need)
        for key, e in seen.items():
            n += 1
            chk.ob('C09.eager', f'State.{name}:{key[0]}', key not in fails, ctx.loc(fi, e.node),
                   'availability of the step is re-evaluated immediately before every automated call'
                   + (f'; `{T.show(fails[key])}` is stale' if key in fails else ''))
    chk.floor('C09.eager', 11)
    # ... and nothing stronger: every atomic condition the automated call sits under (besides the membership test) is
    # itself part of the operation's availability, so an available step is never left to the user
    from ..phases import conjuncts
    from ..paths import unversion
    hand_running = T.spec('self.street is not None', boolean=True)
    for name, fi in ms.items():
        if not name.startswith('_update_'):
            continue
        for call in [n for n in walk_no_nested(fi.node) if isinstance(n, ast.Call) and self_attr(n.func) in disc]:
            op = self_attr(call.func)
            v, q = disc[op]
            pp = [c for c, _ in phase_pre(ctx, v)]
            allowed = set(pp)
            for c in pp:
                if c[0] == 'or':
                    allowed |= set(c[1])
            extra = []
            for test, positive in control_conditions(fi.node, call):
                t = T.cond(test)
                if not positive:
                    t = T.mk_not(t)
                for c in conjuncts(t):
                    if c[0] == 'or':
                        continue      # the negated end-of-phase test (a disjunction) restricts nothing about this step
                    if c[0] == 'in' and c[2] == ('self', 'automations'):
                        continue
                    if c in allowed:
                        continue
                    if c[0] == 'isnot' and ('const', None) in c[1]:
                        other = [y for y in c[1] if y != ('const', None)][0]
                        if other[0] == 'self' and other[1] in wrappers:
                            continue
                    if c[0] == 'mcall' and c[1] == ('name', 'self') and c[2] == q:
                        continue
                    if c == hand_running:
                        continue      # automation acts only while the hand is running (a show after the hand is voluntary)
                    extra.append(c)
            chk.ob('C09.not_stronger', f'State.{name}:{op}', not extra, ctx.loc(fi, call),
                   'the automated call is made whenever the step is available: the conditions it is nested under contain nothing beyond '
                   'the availability of the operation (and the membership test)',
                   got='extra condition: ' + '; '.join(sorted({T.show(c) for c in extra})) if extra else 'availability only')
    chk.floor('C09.not_stronger', 11)
    # ------------------------------- an operation is complete before automation continues from it
    from .c07 import run as _c07_unused  # noqa: F401  (same module family)
    from ..phases import OPERATIONS as _OPS
    for op, (v, q) in disc.items():
        if op not in _OPS:
            continue
        upd = _OPS[op][0]
        of = ms[op]
        bad = []
        for p in ctx.paths(of):
            if not p.returned:
                continue
            calls = [c for c in p.calls() if c.value == ('self', upd)]
            if len(calls) != 1:
                bad.append('the update step is not run exactly once')
                continue
            k = p.events.index(calls[0])
            if any(e.kind == 'write' for e in p.events[k + 1:]):
                bad.append('state is written after the update step (where the automated cascade runs)')
        chk.ob('C09.effects_before_cascade', f'State.{op}', not bad, of.loc,
               'every effect of an operation is applied before it hands over to the update step: the automated steps that run there '
               'see the same state a manual user would see after the call returns', got=sorted(set(bad)))
    from .cover import handover_last
    handover_last(chk, ctx, 'C09.effects_before_cascade')
    chk.floor('C09.effects_before_cascade', 17)
    # ------------------------------------------------- operations never consult
    for op in disc:
        reach = {op} | ctx.eff.reach.get(op, set())
        direct = [m for m in reach if m in ms and not m.startswith('_update_') and
                  any(self_attr(x) == 'automations' for x in ast.walk(ms[m].node))]
        chk.ob('C09.blind_operations', f'State.{op}', not direct, ms[op].loc,
               'outside the update steps nothing reachable from the operation looks at the automation tuple', got=direct)
    chk.floor('C09.blind_operations', 17)
    # ------------------------------------- default choices are state-determined
    # lowest pending index: every optional player index is defaulted under `is None` from the pending structure
    for op, (v, q) in disc.items():
        vf = ms[v]
        if 'player_index' not in vf.params:
            continue
        ok = False
        got = 'no `if player_index is None:` default found'
        site = vf.node
        def from_state(t):
            return (t[0] == 'call' and t[1] == 'next' and t[2] and t[2][0][0] == 'self') or t[0] == 'self'
        absent = (T.spec('player_index is None', boolean=True), T.spec('not player_index', boolean=True))
        for node in walk_no_nested(vf.node):
            # (what an automated call passes is None: how player 0 is told from "no player" is C08.none_default, not this clause)
            if isinstance(node, ast.If) and T.cond(node.test) in absent:
                site = node
                for a in [s2 for s2 in ast.walk(node) if isinstance(s2, ast.Assign) and isinstance(s2.targets[0], ast.Name) and s2.targets[0].id == 'player_index']:
                    t = T.norm(a.value)
                    got = T.show(t)
                    if from_state(t):
                        ok = True
            if isinstance(node, ast.Assign) and isinstance(node.targets[0], ast.Name) and node.targets[0].id == 'player_index' \
                    and isinstance(node.value, ast.BoolOp) and isinstance(node.value.op, ast.Or) and len(node.value.values) == 2 \
                    and isinstance(node.value.values[0], ast.Name) and node.value.values[0].id == 'player_index':
                t = T.norm(node.value.values[1])
                got = T.show(t)
                site = node
                ok = ok or from_state(t)
        chk.ob('C09.default_choice', f'State.{v}', ok, ctx.loc(vf, site),
               'the default player is the first pending one, read from the state under an `is None` test (not from the caller or the automation)', got=got)
    chk.floor('C09.default_choice', 7)
