"""C04 - hand comparison agrees with the rules of poker.

Decided statically: rank orders, decks, the category sequence of every lookup
(the literal call sequence of ``_add_entries``), the attribute table of the
hand classes, the polarity of the comparison operators and the validity gate.
Not decided: the order of kickers inside a category (an algorithm over
thousands of classes; nothing static in reach).
"""
from __future__ import annotations

import ast

from .helpers import Every  # noqa: E402

from .. import terms as T
from ..evalstatic import ClassRef, EnumMember, Obj, SEval, Unknown
from ..paths import unversion
from ..model import AnalysisError, deco_names

RANKS = {
    'STANDARD': '23456789TJQKA',
    'SHORT_DECK_HOLDEM': '6789TJQKA',
    'REGULAR': 'A23456789TJQK',
    'EIGHT_OR_BETTER_LOW': 'A2345678',
    'KUHN_POKER': 'JQK',
    'ROYAL_POKER': 'TJQKA',
}
DECK_SUITS = {
    'STANDARD': 'cdhs', 'SHORT_DECK_HOLDEM': 'cdhs', 'REGULAR': 'cdhs',
    'KUHN_POKER': 's', 'ROYAL_POKER': 'cdhs',
}
RANK_VALUES = {
    'ACE': 'A', 'DEUCE': '2', 'TREY': '3', 'FOUR': '4', 'FIVE': '5', 'SIX': '6', 'SEVEN': '7',
    'EIGHT': '8', 'NINE': '9', 'TEN': 'T', 'JACK': 'J', 'QUEEN': 'Q', 'KING': 'K', 'UNKNOWN': '?',
}
SUIT_VALUES = {'CLUB': 'c', 'DIAMOND': 'd', 'HEART': 'h', 'SPADE': 's', 'UNKNOWN': '?'}

HC, P1, P2, T3, ST, FL, FH, Q4, SF = (
    'HIGH_CARD', 'ONE_PAIR', 'TWO_PAIR', 'THREE_OF_A_KIND', 'STRAIGHT', 'FLUSH',
    'FULL_HOUSE', 'FOUR_OF_A_KIND', 'STRAIGHT_FLUSH')
U, S, B = (False,), (True,), (False, True)


def M(shape, suits, label):
    return ('multisets', tuple(sorted(shape.items())), suits, label)


def STR(n, suits, label):
    return ('straights', n, suits, label)


_STD_LOW = [M({1: 5}, U, HC), M({2: 1, 1: 3}, U, P1), M({2: 2, 1: 1}, U, P2), M({3: 1, 1: 2}, U, T3), STR(5, U, ST)]
_OPENING = (
    [M({1: i}, B, HC) for i in range(1, 5)] + [M({2: 1, 1: i} if i else {2: 1}, U, P1) for i in range(3)]
    + [M({2: 2}, U, P2)] + [M({3: 1, 1: i} if i else {3: 1}, U, T3) for i in range(2)] + [M({4: 1}, U, Q4)]
)
# weakest category first (entries are appended in increasing strength)
LOOKUPS = {
    'StandardLookup': ('STANDARD', _STD_LOW + [M({1: 5}, S, FL), M({3: 1, 2: 1}, U, FH), M({4: 1, 1: 1}, U, Q4), STR(5, S, SF)]),
    'ShortDeckHoldemLookup': ('SHORT_DECK_HOLDEM', _STD_LOW + [M({3: 1, 2: 1}, U, FH), M({1: 5}, S, FL), M({4: 1, 1: 1}, U, Q4), STR(5, S, SF)]),
    'EightOrBetterLookup': ('EIGHT_OR_BETTER_LOW', [M({1: 5}, B, HC)]),
    'RegularLookup': ('REGULAR', [M({1: 5}, B, HC), M({2: 1, 1: 3}, U, P1), M({2: 2, 1: 1}, U, P2), M({3: 1, 1: 2}, U, T3),
                                  M({3: 1, 2: 1}, U, FH), M({4: 1, 1: 1}, U, Q4)]),
    'BadugiLookup': ('REGULAR', [M({1: 4}, U, HC), M({1: 3}, U, HC), M({1: 2}, U, HC), M({1: 1}, S, HC)]),
    'StandardBadugiLookup': ('STANDARD', [M({1: 4}, U, HC), M({1: 3}, U, HC), M({1: 2}, U, HC), M({1: 1}, S, HC)]),
    'KuhnPokerLookup': ('KUHN_POKER', [M({1: 1}, S, HC)]),
    '_LowHandOpeningLookup': ('REGULAR', _OPENING),
    '_HighHandOpeningLookup': ('STANDARD', _OPENING),
}

# class -> (lookup, low, card_count, board_card_count, hole_card_count)
HAND_CLASSES = {
    'StandardHighHand': ('StandardLookup', False, 5, None, None),
    'StandardLowHand': ('StandardLookup', True, 5, None, None),
    'ShortDeckHoldemHand': ('ShortDeckHoldemLookup', False, 5, None, None),
    'EightOrBetterLowHand': ('EightOrBetterLookup', True, 5, None, None),
    'RegularLowHand': ('RegularLookup', True, 5, None, None),
    'GreekHoldemHand': ('StandardLookup', False, 5, 3, None),
    'OmahaHoldemHand': ('StandardLookup', False, 5, 3, 2),
    'OmahaEightOrBetterLowHand': ('EightOrBetterLookup', True, 5, 3, 2),
    'BadugiHand': ('BadugiLookup', True, None, None, None),
    'StandardBadugiHand': ('StandardBadugiLookup', True, None, None, None),
    'KuhnPokerHand': ('KuhnPokerLookup', False, None, None, None),
}


def eval_add_entries(prog, sev, cname):
    """the literal call sequence of ``_add_entries`` for lookup class cname"""
    ci = prog.cls(cname)
    fi = prog.resolve_method(ci, '_add_entries')
    if fi is None or fi.is_abstract:
        raise AnalysisError(f'{cname}._add_entries missing')
    out = []

    def run(stmts, env):
        for st in stmts:
            if isinstance(st, ast.Pass) or (isinstance(st, ast.Expr) and isinstance(st.value, ast.Constant)):
                continue
            if isinstance(st, ast.For) and isinstance(st.target, ast.Name) and not st.orelse:
                it = sev.ev(st.iter, fi.module, env, self_cls=cname)
                if isinstance(it, Unknown):
                    raise AnalysisError(f'{fi.qualname}: loop range not statically evaluable: {ast.unparse(st.iter)}')
                for v in it:
                    run(st.body, dict(env, **{st.target.id: v}))
                continue
            if isinstance(st, ast.Expr) and isinstance(st.value, ast.Call) \
                    and isinstance(st.value.func, ast.Attribute) \
                    and isinstance(st.value.func.value, ast.Name) and st.value.func.value.id == 'self':
                m = st.value.func.attr
                args = [sev.ev(a, fi.module, env, self_cls=cname) for a in st.value.args]
                if any(isinstance(a, Unknown) for a in args):
                    raise AnalysisError(f'{fi.qualname}: argument not statically evaluable in {ast.unparse(st)}')
                if m == '_add_multisets':
                    shape, suits, label = args
                    out.append(('multisets', tuple(sorted((k, v) for k, v in dict(shape).items() if v)), tuple(suits), label.name))
                elif m == '_add_straights':
                    n, suits, label = args
                    out.append(('straights', n, tuple(suits), label.name))
                else:
                    raise AnalysisError(f'{fi.qualname}: unknown entry adder {m}')
                continue
            raise AnalysisError(f'{fi.qualname}: statement outside the declaration subset: {ast.unparse(st)[:60]}')
    run(fi.body, {})
    return fi, out


def run(chk, ctx) -> None:
    prog = ctx.prog
    sev = SEval(prog)
    # ---- ranks / suits / rank orders / decks
    for cname, want in (('Rank', RANK_VALUES), ('Suit', SUIT_VALUES)):
        got = {k: m.value for k, m in sev.enum_members(cname).items()}
        chk.ob('C04.symbols', cname, got == want, prog.cls(cname).loc,
               'rank / suit members and their one-character values', got=got, want=want)
    ro = sev.enum_members('RankOrder')
    for name, want in RANKS.items():
        m = ro.get(name)
        got = ''.join(x.value if isinstance(x, EnumMember) else '?' for x in m.value) if m else None
        chk.ob('C04.rank_orders', f'RankOrder.{name}', got == want, prog.cls('RankOrder').loc,
               'rank order, weakest rank first', got=got, want=want)
    for name in ro:
        if name not in RANKS:
            chk.note(f'RankOrder.{name} is not in the spec table (not checked)')
    dk = sev.enum_members('Deck')
    for name, suits in DECK_SUITS.items():
        m = dk.get(name)
        want = sorted(r + s for r in RANKS[name] for s in suits)
        got = None
        if m is not None and not isinstance(m.value, Unknown):
            got = sorted(
                (c.args[0].value if isinstance(c.args[0], EnumMember) else '?')
                + (c.args[1].value if isinstance(c.args[1], EnumMember) else '?')
                for c in m.value if isinstance(c, Obj) and c.cls == 'Card' and len(c.args) == 2
            )
            if len(got) != len(m.value):
                got = None
        chk.ob('C04.decks', f'Deck.{name}', got == want, prog.cls('Deck').loc,
               'deck = ranks of the same-named order x suits, each card once',
               got=got if got != want else f'{len(want)} cards', want=f'{len(want)} cards: {"".join(want[:6])}...')
    chk.floor('C04.rank_orders', 6)
    chk.floor('C04.decks', 5)
    # ---- lookup categories
    lookups = [c for c in prog.subclasses('Lookup')]
    for ci in lookups:
        if prog.is_abstract(ci) and ci.name == 'Lookup':
            continue
        try:
            fi, seq = eval_add_entries(prog, sev, ci.name)
        except AnalysisError:
            if ci.name in LOOKUPS:
                raise
            chk.note(f'lookup {ci.name}: entries not statically evaluable (not in the spec table)')
            continue
        order = sev.class_attr(ci.name, 'rank_order')
        if ci.name not in LOOKUPS:
            chk.note(f'lookup {ci.name} is not in the spec table: only shape sanity was applied')
            continue
        sorder, sseq = LOOKUPS[ci.name]
        chk.ob('C04.categories', f'{ci.name}:rank_order', isinstance(order, EnumMember) and order.name == sorder,
               ci.loc, 'rank order the lookup ranks kickers with', got=order, want=sorder)
        ok = seq == sseq
        detail = 'category sequence (label, multiset shape, suitedness), weakest first'
        if not ok:
            for i, (a, b) in enumerate(zip(seq + [None] * len(sseq), sseq + [None] * len(seq))):
                if a != b:
                    detail += f'; first difference at position {i}'
                    break
        chk.ob('C04.categories', f'{ci.name}:sequence', ok, fi.loc, detail, got=seq, want=sseq)
    chk.floor('C04.categories', 18)
    _lookup_core(chk, ctx)
    # ---- hand classes
    for ci in prog.subclasses('Hand'):
        if prog.is_abstract(ci):
            continue
        lk = sev.class_attr(ci.name, 'lookup')
        got = (
            lk.cls if isinstance(lk, Obj) else repr(lk),
            sev.class_attr(ci.name, 'low'),
            sev.class_attr(ci.name, 'card_count'),
            sev.class_attr(ci.name, 'board_card_count'),
            sev.class_attr(ci.name, 'hole_card_count'),
        )
        if ci.name not in HAND_CLASSES:
            chk.note(f'hand class {ci.name} is not in the spec table (not checked)')
            continue
        chk.ob('C04.hand_classes', ci.name, got == HAND_CLASSES[ci.name], ci.loc,
               '(lookup, low, card_count, board_card_count, hole_card_count) resolved through the MRO',
               got=got, want=HAND_CLASSES[ci.name])
    # the table above is read off the class bodies: nothing may rewrite class attributes when a class is created or later
    dyn = []
    for mod in ('hands', 'lookups'):
        mi = ctx.prog.module(mod)
        for n in ast.walk(mi.tree):
            if isinstance(n, ast.FunctionDef) and n.name in ('__init_subclass__', '__set_name__', '__class_getitem__', '__prepare__'):
                dyn.append((mod, n, f'{n.name} hook'))
            if isinstance(n, ast.ClassDef) and any(k.arg == 'metaclass' for k in n.keywords):
                dyn.append((mod, n, 'metaclass'))
            if isinstance(n, ast.Call) and isinstance(n.func, ast.Name) and n.func.id in ('setattr', 'delattr') and n.args \
                    and isinstance(n.args[0], ast.Name) and n.args[0].id in ('cls', 'hand_type', 'klass', 'subclass'):
                dyn.append((mod, n, 'setattr on a class'))
            tg = n.targets if isinstance(n, ast.Assign) else [n.target] if isinstance(n, (ast.AugAssign, ast.AnnAssign)) else []
            for t in tg:
                if isinstance(t, ast.Attribute) and isinstance(t.value, ast.Name) and (t.value.id == 'cls' or t.value.id in ctx.prog.classes):
                    dyn.append((mod, n, 'assignment to a class attribute'))
    # ... including from inside a class body: a table is what its assignment says (no `table.setdefault(...)`, `update`, `del` after it)
    for mod in ('hands', 'lookups'):
        mi = ctx.prog.module(mod)
        for c in ast.walk(mi.tree):
            if isinstance(c, ast.ClassDef):
                for st in c.body:
                    if isinstance(st, ast.Expr) and not isinstance(st.value, ast.Constant):
                        dyn.append((mod, st, f'statement in the body of {c.name}: {ast.unparse(st)[:50]}'))
                    elif isinstance(st, (ast.Delete, ast.AugAssign, ast.For, ast.While, ast.If, ast.With, ast.Try)):
                        dyn.append((mod, st, f'{type(st).__name__} statement in the body of {c.name}'))
    chk.ob('C04.hand_classes', 'hands/lookups:static_tables', not dyn, f'pokerkit/{dyn[0][0]}.py:{dyn[0][1].lineno}' if dyn else 'pokerkit/hands.py',
           'the attributes of a hand class (lookup, low, counts) are the ones its class bodies declare: no hook, metaclass or assignment rewrites them',
           got=[f'{m}.py:{n.lineno}: {w}' for m, n, w in dyn[:3]])
    chk.floor('C04.hand_classes', 11)
    _operators(chk, ctx)
    _validity(chk, ctx)


def _lookup_core(chk, ctx) -> None:
    """each adder call creates exactly one strength class per hash: the entry
    index is the running counter, bumped once per entry, shared by all the
    suitedness flags of the call; re-indexing is order preserving."""
    prog = ctx.prog
    ci = prog.cls('Lookup')
    add = next((f for n, f in ci.methods.items() if n.endswith('__add_entry') or n == '_Lookup__add_entry'), None)
    if add is None:
        raise AnalysisError('Lookup.__add_entry vanished')
    paths = ctx.paths(add)
    ok = False
    why = ''
    for p in paths:
        ws = [e for e in p.events if e.kind == 'write']
        cnt = [e for e in ws if T.root_self_attr(e.term) and 'entry_count' in T.root_self_attr(e.term)]
        ent = [e for e in ws if T.root_self_attr(e.term) and 'entries' in T.root_self_attr(e.term)]
        loops = [e for e in p.events if e.kind == 'loop' and e.op == 'enter']
        if not loops:
            continue
        bumps = [e for e in cnt if e.op == '+=' and e.value == T.num(1)]
        in_loop = [e for e in cnt if e.lineno > loops[0].lineno]
        ok = len(bumps) == 1 and not in_loop and len(ent) == 1
        why = f'counter bumps={len(bumps)} (inside the suitedness loop: {len(in_loop)}), entry stores={len(ent)}'
    chk.ob('C04.lookup_core', 'Lookup.__add_entry', ok, add.loc,
           'one new strength index per entry: counter += 1 exactly once per call, outside the suitedness loop', got=why)
    # multisets are added weakest first: the generator lists strongest first and is reversed
    am = ci.methods.get('_add_multisets')
    if am is None:
        raise AnalysisError('Lookup._add_multisets vanished')
    fors = [n for n in ast.walk(am.node) if isinstance(n, ast.For)]
    rev = [f for f in fors if isinstance(f.iter, ast.Call) and isinstance(f.iter.func, ast.Name) and f.iter.func.id == 'reversed']
    if len(fors) == 1:
        chk.ob('C04.lookup_core', 'Lookup._add_multisets', len(rev) == 1, am.loc,
               'hashes (generated strongest first) are entered in reversed order, weakest first')
    else:
        chk.undecided('C04.lookup_core', 'Lookup._add_multisets', am.loc, 'not a single loop over the hashes')
    rr = next((f for n, f in ci.methods.items() if n.endswith('__reset_ranks')), None)
    m = ctx.m
    if rr is not None:
        calls = [n for n in ast.walk(rr.node) if isinstance(n, ast.Call) and isinstance(n.func, ast.Name) and n.func.id == 'sorted']
        bad = [c for c in calls if any(k.arg in ('reverse', 'key') for k in c.keywords)]
        if calls:
            chk.ob('C04.lookup_core', 'Lookup.__reset_ranks', not bad, rr.loc,
                   'dense re-indexing sorts the indices ascending (order preserving)')
        # the re-indexing is the rank of the old index among the distinct old indices: every entry is rewritten through a
        # map built as zip(sorted(distinct indices), 0..n-1) - any other arithmetic on the indices can merge or swap classes
        collect = bool(m.calls(rr.node, 'indices.add(entry.index)')) and bool(m.fors(rr.node, 'self.__entries.values()')) \
            or bool(m.exprs(rr.node, '{entry.index for entry in self.__entries.values()}'))
        table = bool(m.exprs(rr.node, 'dict(zip(sorted(indices), range(len(indices))))')) \
            or (bool(m.exprs(rr.node, 'dict(zip(sorted_indices, range(len(indices))))')) and bool(m.assigns(rr.node, 'sorted(indices)'))) \
            or bool(m.exprs(rr.node, '{index: position for position, index in enumerate(sorted(indices))}')) \
            or bool(m.exprs(rr.node, 'dict(map(reversed, enumerate(sorted(indices))))'))
        rewrite = False
        for loop in m.fors(rr.node, 'self.__entries.items()'):
            for st in loop.body:
                if isinstance(st, ast.Assign) and len(st.targets) == 1 and T.alpha_eq(
                        ('assign', T.norm(st.targets[0]), T.norm(st.value)),
                        ('assign', T.spec('self.__entries[key]'), T.spec('replace(value, index=reset_indices[value.index])')), m.var_test(rr.node)):
                    rewrite = len(loop.body) == 1
        missing = [k for k, v in (('the distinct indices of all entries are collected', collect),
                                  ('old index -> its rank among the sorted distinct indices', table),
                                  ('every entry is rewritten through that map (nothing else)', rewrite)) if not v]
        chk.ob('C04.lookup_core', 'Lookup.__reset_ranks:dense', not missing, rr.loc,
               'dense re-indexing maps each strength index to its rank among the distinct indices (order preserving, no two classes merged)',
               got=f'not found: {missing}' if missing else 'ok')
    # the rank-multiset hash is strict: a rank without a prime (the unknown rank) makes the lookup fail instead of counting as 1
    hf = ci.methods.get('__hash')
    if hf is None:
        raise AnalysisError('Lookup.__hash vanished')
    rets = [unversion(p.outcome[1]) for p in ctx.paths(hf) if p.returned]
    strict = [T.spec('prod(map(cls.__multipliers.__getitem__, ranks))'), T.spec('prod(cls.__multipliers[rank] for rank in ranks)'),
              T.spec('prod([cls.__multipliers[rank] for rank in ranks])')]
    chk.ob('C04.lookup_core', 'Lookup.__hash', len(rets) == 1 and any(T.alpha_eq(rets[0], w, m.var_test(hf.node)) for w in strict), hf.loc,
           'the hash of a rank multiset is the product of the primes of its ranks, looked up strictly (no default for a rank without a prime: '
           'an unknown card never completes a hand)', got=[T.show(r) for r in rets])
    mult = ci.attrs.get('__multipliers') if hasattr(ci, 'attrs') else None
    # straights: the wheel first (weakest), then every window of `count` consecutive ranks - no shorter window, none missing
    ast_ = ci.methods.get('_add_straights')
    if ast_ is None:
        raise AnalysisError('Lookup._add_straights vanished')
    wheel = T.spec('self.__hash(self.rank_order[-1:] + self.rank_order[:count - 1])')
    window = T.spec('self.__hash(self.rank_order[i:i + count])')
    events = []
    for st in ast_.node.body:
        for n in ast.walk(st):
            if isinstance(n, ast.Call) and isinstance(n.func, ast.Attribute) and n.func.attr.endswith('__add_entry') and n.args:
                events.append((st, n))
    ok = len(events) == 2
    got = f'{len(events)} adder calls'
    if ok:
        (s0, c0), (s1, c1) = events
        first_wheel = not isinstance(s0, ast.For) and T.alpha_eq(T.norm(c0.args[0]), wheel, m.var_test(ast_.node))
        loop_ok = isinstance(s1, ast.For) and m.eq(T.norm(s1.iter), 'range(len(self.rank_order) - count + 1)', fn=ast_.node) \
            and isinstance(s1.target, ast.Name) and T.alpha_eq(('p', ('name', s1.target.id), T.norm(c1.args[0])), ('p', ('name', 'i'), window), m.var_test(ast_.node))
        same_tail = all(len(c.args) == 3 and [T.norm(a) for a in c.args[1:]] == [('name', 'suitednesses'), ('name', 'label')] for c in (c0, c1))
        ok = first_wheel and loop_ok and same_tail
        got = f'wheel first: {first_wheel}; windows range(len - count + 1) of rank_order[i:i + count]: {loop_ok}; flags and label passed on: {same_tail}'
    chk.ob('C04.lookup_core', 'Lookup._add_straights', ok, ast_.loc,
           'straights are the wheel (weakest, entered first) and every window of exactly `count` consecutive ranks, lowest window first', got=got)
    chk.floor('C04.lookup_core', 6)


def _operators(chk, ctx) -> None:
    prog = ctx.prog
    hand = prog.cls('Hand')
    chk.ob('C04.operators', 'Hand:@total_ordering', 'total_ordering' in deco_names(hand.node), hand.loc,
           'the remaining comparisons are derived from __lt__ and __eq__')
    # ... for every hand type: no subclass (and no other comparison method of Hand) has an order of its own
    CMP = {'__lt__', '__le__', '__gt__', '__ge__', '__eq__', '__ne__', '__hash__', '__bool__', '__cmp__'}
    own = [(c, m) for c in [hand] + prog.subclasses('Hand') for m in sorted(CMP & set(c.methods))
           if not (c is hand and m in ('__lt__', '__eq__', '__hash__'))]
    chk.ob('C04.operators', 'Hand:one_order', not own, own[0][0].methods[own[0][1]].loc if own else hand.loc,
           'hands are ordered, compared and hashed by Hand.__lt__ / __eq__ / __hash__ alone (total_ordering derives the rest)',
           got=[f'{c.name}.{m}' for c, m in own])
    se, oe = T.spec('self.entry'), T.spec('other.entry')
    # __lt__
    lt = hand.methods.get('__lt__')
    if lt is None:
        raise AnalysisError('Hand.__lt__ vanished')
    low_t = T.spec('self.low', boolean=True)
    got = {}
    ni_ok = True
    saw_ni = False
    for p in ctx.paths(lt):
        if not p.returned:
            continue
        r = p.outcome[1]
        conds = p.conds()
        if r == ('name', 'NotImplemented'):
            saw_ni = True
            ni_ok &= any(c == T.spec('type(self) != type(other)') for c in conds)
            continue
        pol = 'low' if low_t in conds else 'high' if T.mk_not(low_t) in conds else '?'
        got[pol] = r
    want = {'low': T.cmp('Gt', se, oe), 'high': T.cmp('Lt', se, oe)}
    chk.ob('C04.operators', 'Hand.__lt__', got == want, lt.loc,
           'a < b: high types compare entries with <, low types with > (weaker hand is "less")',
           got={k: T.show(v) for k, v in got.items()}, want={k: T.show(v) for k, v in want.items()})
    chk.ob('C04.operators', 'Hand.__lt__:foreign', saw_ni and ni_ok, lt.loc,
           'hands of different types are not comparable (NotImplemented)')
    eq = hand.methods.get('__eq__')
    hs = hand.methods.get('__hash__')
    if eq is None or hs is None:
        raise AnalysisError('Hand.__eq__/__hash__ vanished')
    ni = [p for p in ctx.paths(eq) if p.returned and p.outcome[1] == ('name', 'NotImplemented')]
    chk.ob('C04.operators', 'Hand.__eq__:foreign', bool(ni) and all(T.spec('type(self) != type(other)') in p.conds() for p in ni)
           and all(T.spec('type(self) == type(other)') in p.conds() for p in ctx.paths(eq) if p.returned and p not in ni), eq.loc,
           'hands of different types are never equal (NotImplemented exactly for a foreign type)')
    rets = [p.outcome[1] for p in ctx.paths(eq) if p.returned and p.outcome[1] != ('name', 'NotImplemented')]
    chk.ob('C04.operators', 'Hand.__eq__', rets == [T.cmp('Eq', se, oe)], eq.loc,
           'equality exactly for hands of equal rank (same entry)', got=[T.show(r) for r in rets], want='self.entry == other.entry')
    rets = [p.outcome[1] for p in ctx.paths(hs) if p.returned]
    chk.ob('C04.operators', 'Hand.__hash__', rets == [T.spec('hash(self.entry)')], hs.loc,
           'hash consistent with equality', got=[T.show(r) for r in rets], want='hash(self.entry)')
    # Entry: ordered by index only
    entry = prog.cls('Entry')
    deco = [d for d in entry.node.decorator_list if isinstance(d, ast.Call)]
    kws = {k.arg: getattr(k.value, 'value', None) for d in deco for k in d.keywords}
    fields = list(entry.ann)
    label_v = entry.attrs.get('label')
    label_excl = isinstance(label_v, ast.Call) and any(
        k.arg == 'compare' and isinstance(k.value, ast.Constant) and k.value.value is False for k in label_v.keywords)
    chk.ob('C04.operators', 'Entry', kws.get('order') is True and fields[:1] == ['index'] and (label_excl or fields == ['index']),
           entry.loc, 'entries are ordered by strength index only; the label takes no part in comparisons',
           got=f'decorator {kws}, fields {fields}, label compare=False: {label_excl}')
    # entry of a hand is looked up from its own cards
    ent = hand.methods.get('entry')
    if ent is not None:
        rets = [p.outcome[1] for p in ctx.paths(ent) if p.returned]
        chk.ob('C04.operators', 'Hand.entry', rets == [T.spec('self.lookup.get_entry(self.cards)')], ent.loc,
               "a hand's entry is the lookup entry of its own cards", got=[T.show(r) for r in rets])
    chk.floor('C04.operators', 6)


def _validity(chk, ctx) -> None:
    prog = ctx.prog
    hand = prog.cls('Hand')
    init = hand.methods.get('__init__')
    if init is None:
        raise AnalysisError('Hand.__init__ vanished')
    gate = T.spec('self.lookup.has_entry(self.cards)', boolean=True)
    ok_raise = ok_pass = False
    ok_pass = Every()
    ok_raise = Every()
    for p in ctx.paths(init):
        conds = p.conds()
        if p.raised:
            ok_raise.see(p.outcome[1] == 'ValueError' and T.mk_not(gate) in conds)
        else:
            ok_pass.see(gate in conds)
    chk.ob('C04.validity', 'Hand.__init__', ok_raise and ok_pass, init.loc,
           'a card set is rejected with ValueError exactly when the lookup has no entry for it')
    lk = prog.cls('Lookup')
    he = lk.methods.get('has_entry')
    ok = False
    if he is not None:
        trys = [n for n in ast.walk(he.node) if isinstance(n, ast.Try)]
        catches = any('ValueError' in ast.unparse(h.type) for t in trys for h in t.handlers if h.type is not None)
        rets = [p.outcome[1] for p in ctx.paths(he) if p.returned]
        ok = catches and all(r[0] == 'in' and T.root_self_attr(r[2]) is not None and 'entries' in T.root_self_attr(r[2]) for r in rets) and bool(rets)
        # the looked-up key is the computed key, or a key no table holds (None) when computing it failed - never an unbound name
        lefts = [unversion(r[1]) for r in rets if r[0] == 'in']
        ok = ok and all(x == ('const', None) or (x[0] == 'mcall' and x[2] == '_get_key') for x in lefts) \
            and any(x == ('const', None) for x in lefts) and any(x != ('const', None) for x in lefts)
    chk.ob('C04.validity', 'Lookup.has_entry', ok, he.loc if he else lk.loc,
           'has_entry never raises for a non-hand (key error mapped to False) and is a membership test of the entry table')
    gk = lk.methods.get('_get_key')
    rets = [p.outcome[1] for p in ctx.paths(gk) if p.returned] if gk else []
    ok = len(rets) == 1 and rets[0][0] == 'tuple' and len(rets[0][1]) == 2 and \
        rets[0][1][1] == T.spec('Card.are_suited(Card.clean(cards))')
    chk.ob('C04.validity', 'Lookup._get_key', ok, gk.loc if gk else lk.loc,
           'key = (rank-multiset hash, all cards of one suit?)', got=[T.show(r) for r in rets])
    bl = prog.cls('BadugiLookup')
    bk = bl.methods.get('_get_key')
    ok = False
    if bk is not None:
        for p in ctx.paths(bk):
            if p.raised and p.outcome[1] == 'ValueError' and \
                    T.mk_not(T.spec('Card.are_rainbow(Card.clean(cards))', boolean=True)) in p.conds():
                ok = True
    chk.ob('C04.validity', 'BadugiLookup._get_key', ok, bk.loc if bk else bl.loc,
           'a badugi hand with two cards of one suit is rejected (ValueError)')
    card = prog.cls('Card')
    specs = {
        'are_suited': 'len(set(cls.get_suits(cards))) <= 1',
        'are_rainbow': 'len(set(S)) == len(S)',
        'are_paired': 'len(set(R)) != len(R)',
        'unknown_status': 'self.rank == Rank.UNKNOWN or self.suit == Suit.UNKNOWN',
        '__bool__': 'not self.unknown_status',
    }
    for name, src in specs.items():
        fi = card.methods.get(name)
        if fi is None:
            raise AnalysisError(f'Card.{name} vanished')
        rets = [p.outcome[1] for p in ctx.paths(fi) if p.returned]
        want = T.spec(src, {'S': 'tuple(cls.get_suits(cards))', 'R': 'tuple(cls.get_ranks(cards))'})
        chk.ob('C04.validity', f'Card.{name}', rets == [want], fi.loc,
               'suit / rank predicates used by the keys', got=[T.show(r) for r in rets], want=T.show(want))
    # the rank / suit views keep every card, unknown ones included (an unknown card must reach the key and make the lookup fail)
    for name, attr in (('get_ranks', 'rank'), ('get_suits', 'suit')):
        fi = card.methods.get(name)
        if fi is None:
            raise AnalysisError(f'Card.{name} vanished')
        loops = ctx.m.fors(fi.node, 'cls.clean(cards)')
        ok = len(loops) == 1 and len(loops[0].body) == 1 and isinstance(loops[0].body[0], ast.Expr) and isinstance(loops[0].body[0].value, ast.Yield) \
            and isinstance(loops[0].target, ast.Name) and T.norm(loops[0].body[0].value.value) == ('attr', ('name', loops[0].target.id), attr)
        if not ok:
            # the same as one expression
            ok = any(isinstance(n, (ast.Return, ast.YieldFrom, ast.Expr)) and ctx.m.eq(T.norm(getattr(n, 'value', None).value if isinstance(getattr(n, 'value', None), ast.YieldFrom) else n.value),
                                                                                        f'(card.{attr} for card in cls.clean(cards))', fn=fi.node)
                     for n in fi.node.body if getattr(n, 'value', None) is not None)
        chk.ob('C04.validity', f'Card.{name}', ok, fi.loc, f'the {attr}s of a card set are the {attr}s of ALL its cards, unknown ones included, in order')
    chk.floor('C04.validity', 9)
