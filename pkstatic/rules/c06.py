"""C06 - cards are conserved.

Decided statically (move semantics / ownership): in every method that touches
one of the six card places, every *add* of cards is preceded on the path by
the consumption of the same cards from wherever they are, or paired with their
removal; every *remove / clear* is paired with an add elsewhere or preceded by
producing the cards back into the deck; the reserve the deck is replenished
from is exactly burns + muck + discards; engine-chosen cards come from the
dealable cards; destinations of fold/kill/muck/burn/discard; nobody else
writes the containers.
Not decided: duplicates introduced by *explicitly* passed cards (the engine
only warns, by design).
"""
from __future__ import annotations

import ast

from .helpers import Every  # noqa: E402

from .. import terms as T
from ..model import AnalysisError, self_attr, stmt_text, walk_no_nested
from ..paths import unversion

PLACES = ('deck_cards', 'board_cards', 'hole_cards', 'burn_cards', 'mucked_cards', 'discarded_cards')
ADD = ('call:append', 'call:extend', 'call:insert', 'call:appendleft', 'call:extendleft', 'set', '+=')
REMOVE = ('call:pop', 'call:remove', 'call:clear', 'call:popleft', 'del')
PRIMITIVES = ('_consume_cards', '_produce_cards', '_setup')
EXPECTED_MOVERS = {'burn_card', 'deal_hole', 'deal_board', 'stand_pat_or_discard', '_muck_hole_cards',
                   'show_or_muck_hole_cards', '_consume_cards', '_produce_cards', '_setup'}


def place(t):
    r = T.root_self_attr(t)
    return r if r in PLACES else None


def covers(consumed, e) -> bool:
    """does consuming ``consumed`` cover the cards ``e`` that are being added?"""
    if consumed == e:
        return True
    if consumed[0] == 'tuple' and e in consumed[1]:
        return True
    if e[0] == 'elem' and e[1] == consumed:
        return True
    # tuple(filter(None, E)) : all known cards of E (unknown cards are placeholders, not cards)
    if consumed == T.spec('tuple(filter(None, E))', {'E': e}):
        return True
    if e[0] == 'elem' and consumed == T.spec('tuple(filter(None, E))', {'E': e[1]}):
        return True
    return False


def run(chk, ctx) -> None:
    ms = ctx.state.methods
    eff = ctx.eff
    movers = sorted(n for n in eff.methods if {r for r, _ in eff.write_sites.get(n, ())} & set(PLACES))
    chk.analysed['card_movers'] = movers
    chk.ob('C06.owner', 'State:card_writers', set(movers) == EXPECTED_MOVERS, ctx.state.loc,
           'the six card places are written only by the dealing / mucking / showing / consume-produce functions',
           got=movers, want=sorted(EXPECTED_MOVERS))
    # nobody outside State writes them
    from .c01 import _attr_root
    from ..effects import MUTATORS
    offenders = []
    for mname, mi in ctx.prog.modules.items():
        for ci in list(mi.classes.values()) + [None]:
            funcs = (ci.methods.values() if ci is not None else mi.functions.values())
            for fi in funcs:
                if ci is not None and ci.name == 'State':
                    continue
                for n in ast.walk(fi.node):
                    tg = n.targets if isinstance(n, (ast.Assign, ast.Delete)) else [n.target] if isinstance(n, (ast.AugAssign, ast.AnnAssign)) else []
                    for t in tg:
                        for y in (t.elts if isinstance(t, (ast.Tuple, ast.List)) else [t]):
                            if _attr_root(y) in PLACES:
                                offenders.append((fi, n))
                    if isinstance(n, ast.Call) and isinstance(n.func, ast.Attribute) and n.func.attr in MUTATORS \
                            and _attr_root(n.func.value) in PLACES:
                        offenders.append((fi, n))
    chk.ob('C06.owner', 'cards:foreign_writers', not offenders, ctx.loc(offenders[0][0], offenders[0][1]) if offenders else 'pokerkit/',
           'no function outside State writes a card place', got=[f'{f.qualname}: {stmt_text(n, 60)}' for f, n in offenders[:3]])

    # ------------------------------------------------------------------- move
    for name in movers:
        if name in PRIMITIVES:
            continue
        fi = ms[name]
        bad = None
        n_events = 0
        for p in ctx.paths(fi):
            if p.raised:
                continue
            evs = p.events
            for k, e in enumerate(evs):
                if e.kind != 'write' or place(e.term) is None:
                    continue
                n_events += 1
                if e.op in ADD:
                    payload = _payload(e)
                    if payload is None or payload == ('list', ()):
                        continue    # structural: a new empty row
                    if not _add_justified(ctx, evs, k, payload):
                        bad = (e, f'cards `{T.show(payload)}` are added to {place(e.term)} without being consumed / removed from where they were')
                elif e.op in REMOVE:
                    if not _remove_justified(ctx, evs, k, e):
                        bad = (e, f'cards leave {place(e.term)} without being put anywhere')
        chk.ob('C06.move', f'State.{name}', bad is None and n_events > 0, ctx.loc(fi, bad[0].node) if bad else fi.loc,
               'every add of cards is covered by a preceding _consume_cards of the same cards or a paired removal; '
               'every removal is paired with an add or a preceding _produce_cards', got=bad[1] if bad else f'{n_events} card movements')
    chk.floor('C06.move', 6)

    from .helpers import known_card_helpers, shuffled_helper
    known_card_helpers(chk, ctx, 'C06.helpers')
    shuffled_helper(chk, ctx, 'C06.helpers')
    _consume_produce(chk, ctx)
    _reserved(chk, ctx)
    _engine_cards(chk, ctx)
    _destinations(chk, ctx)
    _rows(chk, ctx)
    _show_fill(chk, ctx)
    from .cover import initial_deck
    initial_deck(chk, ctx)


def _payload(e):
    v = unversion(e.value)
    if e.op.startswith('call:'):
        if v[0] == 'tuple' and v[1]:
            return v[1][-1] if e.op == 'call:insert' else v[1][0]
        return None
    return v


def _add_justified(ctx, evs, k, payload) -> bool:
    # (a) consumed before
    for e in evs[:k]:
        if e.kind == 'call' and e.value == ('self', '_consume_cards') and e.term[3]:
            if covers(unversion(e.term[3][0]), payload):
                return True
    # (b) move: the payload is (an element of) a card place that is emptied / popped on the same path
    src = place(payload) if payload[0] != 'elem' else place(payload[1])
    if src is not None:
        for e in evs:
            if e.kind == 'write' and e.op in REMOVE and place(e.term) == src:
                return True
    # (c) the same card is removed from another place in the same iteration (discard: pop(index(card)))
    for e in evs:
        if e.kind == 'write' and e.op in ('call:pop', 'call:remove') and place(e.term) is not None:
            if T.mentions(unversion(e.value), lambda s: s == payload) or T.mentions(unversion(e.value), lambda s: isinstance(s, tuple) and s[:1] == ('mcall',) and s[2] == 'index' and payload in s[3]):
                return True
            # index computed earlier from the card: hole_cards[p].index(card)
            for x in T.subterms(unversion(e.value)):
                if isinstance(x, tuple) and x and x[0] == 'mcall' and x[2] == 'index' and x[3] and x[3][0] == payload:
                    return True
    return False


def _remove_justified(ctx, evs, k, e) -> bool:
    src = unversion(e.term)
    srcp = place(src)
    # popped value re-used as a payload elsewhere (status queues are not card places; only cards count)
    for x in evs:
        if x.kind == 'write' and x.op in ADD and place(x.term) is not None and x is not e:
            pay = _payload(x)
            if pay is None:
                continue
            if pay == src or (pay[0] == 'elem' and pay[1] == src):
                return True
            if e.op in ('call:pop', 'call:remove'):
                return True   # paired with an add on the same path (checked from the add side)
    for x in evs[:k]:
        if x.kind == 'call' and x.value == ('self', '_produce_cards') and x.term[3]:
            arg = unversion(x.term[3][0])
            if arg == src or place(arg) == srcp:
                return True
    return False


def _consume_produce(chk, ctx) -> None:
    fi = ctx.sfi('_consume_cards')
    # each card is removed from whichever pile holds it, under a membership test of that pile
    piles = {}
    for n in walk_no_nested(fi.node):
        if isinstance(n, ast.Call) and isinstance(n.func, ast.Attribute) and n.func.attr == 'remove':
            from .c02 import _enclosing_tests
            tests = [T.cond(t) for t in _enclosing_tests(fi.node, n)]
            recv = T.norm(n.func.value)
            arg = T.norm(n.args[0]) if n.args else None
            guarded = any(t == ('in', arg, recv) for t in tests)
            root = T.root_self_attr(recv) or (T.show(recv))
            piles[_pile_name(fi, n)] = guarded
    want = {'deck_cards', 'burn_cards', 'mucked_cards', 'discarded_cards'}
    chk.ob('C06.consume', 'State._consume_cards:piles', set(piles) == want and all(piles.values()), fi.loc,
           'a consumed card is removed from every place outside play that may hold it (deck, burns, muck, discards), each under a membership test',
           got=piles, want=sorted(want))
    # replenish: produce the reserve back into the deck, then empty exactly the reserve piles
    ok = False
    cleared = set()
    for p in ctx.paths(fi):
        prod = [e for e in p.calls() if e.value == ('self', '_produce_cards')]
        if not prod:
            continue
        k = p.events.index(prod[0])
        arg = unversion(prod[0].term[3][0])
        ok = arg == T.spec('shuffled(self.reserved_cards)')
        for e in p.events[k:]:
            if e.kind == 'write' and e.op == 'call:clear' and place(e.term):
                if place(e.term) == 'discarded_cards' and unversion(e.term) != ('elem', ('self', 'discarded_cards')):
                    cleared.add('discarded_cards (one street only)')
                else:
                    cleared.add(place(e.term))
    chk.ob('C06.consume', 'State._consume_cards:replenish', ok and cleared == {'burn_cards', 'mucked_cards', 'discarded_cards'}, fi.loc,
           'when the deck cannot cover the cards, the (shuffled) reserve is produced into the deck and exactly the reserve piles are emptied',
           got=sorted(cleared), want=['burn_cards', 'discarded_cards', 'mucked_cards'])
    guard = [unversion(c) for p in ctx.paths(fi) for c in p.conds() if any(e.value == ('self', '_produce_cards') for e in p.calls())]
    want_g = T.spec('set(cards) > set(self.deck_cards)', boolean=True)
    chk.ob('C06.consume', 'State._consume_cards:when', want_g in guard, fi.loc,
           'the deck is replenished only when it does not hold the cards to be consumed', got=[T.show(g) for g in guard[:2]], want=T.show(want_g))
    fp = ctx.sfi('_produce_cards')
    ws = [e for p in ctx.paths(fp) for e in p.writes()]
    want = T.spec('filterfalse(self.deck_cards.__contains__, filter(None, cards))')
    ok = len(ws) == 1 and ws[0].op == 'call:extend' and place(ws[0].term) == 'deck_cards' and unversion(ws[0].value[1][0]) == want
    chk.ob('C06.consume', 'State._produce_cards', ok, fp.loc,
           'producing puts known cards back into the deck, never a card the deck already holds (no duplicate)',
           got=T.show(unversion(ws[0].value[1][0])) if ws else None, want=T.show(want))
    chk.floor('C06.consume', 4)


def _pile_name(fi, call):
    """card place a ``X.remove(card)`` acts on, resolving a loop variable over self.discarded_cards"""
    recv = call.func.value
    a = self_attr(recv)
    if a is not None:
        return a
    if isinstance(recv, ast.Name):
        for n in walk_no_nested(fi.node):
            if isinstance(n, ast.For) and isinstance(n.target, ast.Name) and n.target.id == recv.id \
                    and any(m is call for m in ast.walk(n)):
                return self_attr(n.iter) or ast.unparse(n.iter)
    return ast.unparse(recv)


def _reserved(chk, ctx) -> None:
    def chained(name):
        fi = ctx.sfi(name)
        rets = [unversion(p.outcome[1]) for p in ctx.paths(fi) if p.returned]
        if len(rets) != 1:
            return None, fi
        attrs = []
        for s in T.subterms(rets[0]):
            if isinstance(s, tuple) and len(s) == 2 and s[0] == 'self' and s[1] in PLACES and s[1] not in attrs:
                attrs.append(s[1])
        r0 = rets[0]
        # filter(None, xs) is read as (x for x in xs if x)
        filt = (r0[0] == 'call' and r0[1] == 'filter' and r0[2][0] == ('const', None)) or \
            (r0[0] == 'comp' and len(r0[3]) == 1 and r0[2] == (r0[3][0][0],) and r0[3][0][2] == (T.truthy(r0[3][0][0]),))
        return (set(attrs), filt), fi
    for name, want in (('reserved_cards', {'burn_cards', 'mucked_cards', 'discarded_cards'}),
                       ('cards_in_play', {'board_cards', 'hole_cards'}),
                       ('cards_not_in_play', {'deck_cards', 'burn_cards', 'mucked_cards', 'discarded_cards'})):
        got, fi = chained(name)
        chk.ob('C06.reserved', f'State.{name}', got is not None and got[0] == want and got[1], fi.loc,
               'the card places chained by the accessor (unknown cards filtered out)', got=got, want=(sorted(want), True))
    chk.floor('C06.reserved', 3)


def _engine_cards(chk, ctx) -> None:
    fi = ctx.sfi('_verify_cards_consumption')
    is_int = T.spec('isinstance(cards, int)', boolean=True)
    deal = T.spec('tuple(self.get_dealable_cards(cards))')
    ok_short = ok_prefix = False
    ok_short = Every()
    ok_prefix = Every()
    for p in ctx.paths(fi):
        conds = [unversion(c) for c in p.conds()]
        if is_int not in conds:
            continue
        if p.raised:
            ok_short.see(p.outcome[1] == 'ValueError' and T.spec('len(D) < cards', {'D': deal}, boolean=True) in conds)
        elif p.returned:
            ok_prefix.see(unversion(p.outcome[1]) == ('sub', deal, ('slice', ('const', None), ('name', 'cards'), ('const', None))))
    chk.ob('C06.engine_cards', 'State._verify_cards_consumption', ok_short and ok_prefix, fi.loc,
           'cards chosen by the engine are the first n dealable cards; a request that cannot be covered is refused',
           got=f'refuses when short: {ok_short}; returns prefix of the dealable cards: {ok_prefix}')
    fi = ctx.sfi('get_dealable_cards')
    ok_deck = ok_res = False
    ok_deck = Every()
    only_when = T.spec('deal_count is None or deal_count > len(self.deck_cards)', boolean=True)
    for p in ctx.paths(fi):
        ys = [unversion(e.term) for e in p.events if e.kind == 'yield']
        conds = [unversion(c) for c in p.conds()]
        if not ys:
            continue
        y = ys[0]
        deck = T.spec('tuple(self.deck_cards)')
        if only_when in conds:
            ok_res = y == ('concat', deck, T.spec('tuple(shuffled(self.reserved_cards))')) or \
                y == T.add(deck, T.spec('tuple(shuffled(self.reserved_cards))')) or \
                T.show(y).count('reserved_cards') == 1 and T.show(y).startswith('concat')
        elif T.mk_not(only_when) in conds:
            ok_deck.see(y == deck)
    chk.ob('C06.engine_cards', 'State.get_dealable_cards', ok_deck and ok_res, fi.loc,
           'the deck comes first; reserve cards (burns, muck, discards) are offered only when the deck cannot cover the deal',
           got=f'deck only when it suffices: {ok_deck}; deck + reserve otherwise: {ok_res}')
    chk.floor('C06.engine_cards', 2)


def _destinations(chk, ctx) -> None:
    want = {
        '_muck_hole_cards': ('mucked_cards', 'self.hole_cards[player_index]'),
        'burn_card': ('burn_cards', None),
        'stand_pat_or_discard': ('discarded_cards', None),
    }
    for name, (dest, payload) in want.items():
        fi = ctx.sfi(name)
        dests = set()
        pays = set()
        idx_ok = True
        for p in ctx.paths(fi):
            for e in p.writes():
                if e.op in ADD and place(e.term) and place(e.term) != 'hole_cards':
                    dests.add(place(e.term))
                    pay = _payload(e)
                    if pay is not None:
                        pays.add(T.show(pay))
                    if name == 'stand_pat_or_discard':
                        idx_ok &= unversion(e.term) == T.spec('self.discarded_cards[self.street_index]')
        ok = dests == {dest} and idx_ok and (payload is None or pays == {T.show(T.spec(payload))})
        chk.ob('C06.destinations', f'State.{name}', ok, fi.loc,
               f'cards moved by {name} land in {dest}' + (' of the current street' if name == 'stand_pat_or_discard' else ''),
               got=f'{sorted(dests)} {sorted(pays)}', want=dest)
    for op in ('fold', 'kill_hand'):
        f = ctx.sfi(op)
        direct = {place(e.term) for p in ctx.paths(f) for e in p.writes() if place(e.term)}
        chk.ob('C06.destinations', f'State.{op}', not direct, f.loc, f'{op} moves cards only through _muck_hole_cards', got=sorted(direct))
    mk = ctx.sfi('_muck_hole_cards')
    cleared = set()
    for p in ctx.paths(mk):
        for e in p.writes():
            if e.op == 'call:clear' and unversion(e.term)[0] == 'sub' and unversion(e.term)[2] == ('name', 'player_index'):
                cleared.add(T.root_self_attr(unversion(e.term)))
    chk.ob('C06.destinations', 'State._muck_hole_cards:emptied', {'hole_cards', 'hole_card_statuses'} <= cleared, mk.loc,
           'a mucked hand is emptied: its cards and their facings go together (the two per-player lists stay in step)', got=sorted(x for x in cleared if x))
    chk.floor('C06.destinations', 6)


def _fresh_row(e) -> bool:
    return (isinstance(e, ast.List) and not e.elts) or (isinstance(e, ast.Call) and isinstance(e.func, ast.Name) and e.func.id == 'list' and not e.args)


def _rows(chk, ctx) -> None:
    """the per-player hands and the per-street discard piles are separate lists: every row is created as a list of its own, once per
    player / street (a replicated row - ``[[]] * n`` - is one list under n names: a card put in one pile shows up in all of them)"""
    fi = ctx.sfi('_setup')
    want = {'hole_cards': 'player_indices', 'hole_card_statuses': 'player_indices', 'discarded_cards': 'street_indices'}
    seen = {}
    parents = {}
    for n in ast.walk(fi.node):
        for c in ast.iter_child_nodes(n):
            parents[c] = n
    for n in walk_no_nested(fi.node):
        if isinstance(n, ast.Call) and isinstance(n.func, ast.Attribute) and self_attr(n.func.value) in want:
            attr = self_attr(n.func.value)
            ok = False
            if n.func.attr == 'append' and len(n.args) == 1 and _fresh_row(n.args[0]):
                loop = parents.get(n)
                while loop is not None and not isinstance(loop, ast.For):
                    loop = parents.get(loop)
                ok = loop is not None and T.norm(loop.iter) in (('self', want[attr]), T.spec(f'range(self.{want[attr][:-8]}_count)'))
            elif n.func.attr == 'extend' and len(n.args) == 1 and isinstance(n.args[0], (ast.ListComp, ast.GeneratorExp)) and _fresh_row(n.args[0].elt) \
                    and len(n.args[0].generators) == 1 and not n.args[0].generators[0].ifs:
                ok = T.norm(n.args[0].generators[0].iter) in (('self', want[attr]), T.spec(f'range(self.{want[attr][:-8]}_count)'))
            seen.setdefault(attr, []).append((ok, n))
    for attr in sorted(want):
        sites = seen.get(attr, [])
        bad = [n for ok, n in sites if not ok]
        chk.ob('C06.rows', f'State._setup:{attr}', len(sites) == 1 and not bad, ctx.loc(fi, bad[0]) if bad else fi.loc,
               f'one new empty list per {"player" if "hole" in attr else "street"} (never one list replicated)', got=[stmt_text(n) for _, n in sites])
    # nowhere in the engine is a mutable row replicated
    reps = []
    n_mult = 0
    for name, m in ctx.state.methods.items():
        for n in walk_no_nested(m.node):
            if isinstance(n, ast.BinOp) and isinstance(n.op, ast.Mult):
                for side in (n.left, n.right):
                    if isinstance(side, (ast.List, ast.Tuple)):
                        n_mult += 1
                        if any(isinstance(x, (ast.List, ast.Dict, ast.Set, ast.ListComp, ast.DictComp, ast.SetComp)) or
                               (isinstance(x, ast.Call) and isinstance(x.func, ast.Name) and x.func.id in ('list', 'dict', 'set', 'deque', 'defaultdict'))
                               for x in side.elts):
                            reps.append((m, n))
    chk.analysed['replications_examined'] = n_mult
    chk.ob('C06.rows', 'State:no_replicated_rows', not reps, ctx.loc(reps[0][0], reps[0][1]) if reps else ctx.state.loc,
           'no list of rows is built by replicating one mutable row', got=[ast.unparse(n) for _, n in reps][:3])
    chk.floor('C06.rows', 4)


def _show_fill(chk, ctx) -> None:
    """showing some of one's cards before the last street: the rest of the hand that is kept (face down) is the held known cards that
    are NOT among the shown ones, cut to the number of places left - otherwise a shown card is kept a second time and another card
    of the hand goes back to the deck"""
    fi = ctx.sfi('verify_hole_cards_showing_or_mucking')
    n_paths = 0
    ok = True
    why = ''
    for p in ctx.paths(fi):
        if not p.returned:
            continue
        r = unversion(p.outcome[1])
        if r[0] != 'tuple' or len(r[1]) != 5:
            continue
        hole, who = r[1][2], r[1][4]
        cs = [unversion(c) for c in p.conds(flat=True)]
        if T.spec('self.street is not self.streets[-1]', boolean=True) not in cs or hole[0] in ('const',) or ('const', False) in cs:
            continue
        if not T.mentions(hole, lambda t: t == ('name', 'status_or_hole_cards')):
            continue        # nothing was named: the whole hand is tabled
        n_paths += 1
        held = ('sub', ('self', 'hole_cards'), who)
        good = False
        for t in T.subterms(hole):
            if len(t) == 3 and t[0] == 'sub' and isinstance(t[2], tuple) and len(t[2]) == 4 and t[2][0] == 'slice' and t[2][1] == ('const', None) \
                    and t[2][3] == ('const', None):
                inner = [c for c in T.subterms(t[1]) if len(c) == 4 and c[0] == 'comp' and len(c[3]) == 1]
                for c in inner:
                    var, it, conds = c[3][0]
                    excl = [k for k in conds if k[0] == 'notin' and k[1] == var]
                    if c[2] == (var,) and excl and T.mentions(it, lambda x: x == held) and \
                            (var in conds or T.truthy(var) in conds or any(len(q) == 4 and q[0] == 'comp' and (q[3][0][0] in q[3][0][2]) for q in T.subterms(it))):
                        shown = excl[0][2]
                        want_n = T.spec('len(H) - len(S)', {'H': held, 'S': shown})
                        good |= t[2][2] == want_n and T.mentions(hole, lambda x: x == shown)
        if not good:
            ok = False
            why = T.show(hole)[:200]
    chk.ob('C06.show_fill', f'State.{fi.name}', ok and n_paths > 0, fi.loc,
           'when the cards to show are named before the last street, the cards kept face down are the known held cards not among the shown ones, '
           'as many as there are places left', got=why or f'{n_paths} path(s)')
