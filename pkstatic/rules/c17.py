"""C17 - ACPC and Pluribus protocol output describes the hand that was played.

Decided statically (sibling agreement): the operation -> letter tables of the
two writers agree with each other and with the patterns of the parser; the
no-limit raise size is the cumulative commitment (-payoff) in both writers and
the parser converts it back per street, updating its baseline exactly at a
street separator; card visibility (ACPC: only the viewer's dealt cards, shown
cards for all; Pluribus: all seats); payoff field = finishing - starting
stack; the variant gates.
Not decided: equality of the emitted lines with the played hand on concrete
histories.
"""
from __future__ import annotations

import ast

from .. import terms as T
from ..evalstatic import Obj, SEval
from ..model import AnalysisError, stmt_text, walk_no_nested

LETTERS = {'Folding': 'f', 'CheckingOrCalling': 'c', 'CompletionBettingOrRaisingTo': 'r', 'BoardDealing': '/'}
CUMULATIVE = T.spec('-state.payoffs[operation.player_index]')


def isinstance_arms(fn):
    """[(classes tuple, If node)] for every ``isinstance(operation, X | Y)`` test"""
    out = []
    for n in ast.walk(fn):
        if isinstance(n, ast.If):
            t = n.test
            first = t.values[0] if isinstance(t, ast.BoolOp) and isinstance(t.op, ast.And) else t
            if isinstance(first, ast.Call) and isinstance(first.func, ast.Name) and first.func.id == 'isinstance' \
                    and isinstance(first.args[0], ast.Name) and first.args[0].id == 'operation':
                classes = tuple(sorted(x.id for x in ast.walk(first.args[1]) if isinstance(x, ast.Name)))
                out.append((classes, n, t))
    return out


def letters_of(fn, target='actions'):
    """class -> set of string constants appended to ``actions`` (or assigned to `action`) in its arm"""
    table = {}
    for classes, node, test in isinstance_arms(fn):
        if len(classes) != 1:
            continue
        consts = set()
        cum = []
        for st in node.body:
            for n in ast.walk(st):
                if isinstance(n, (ast.AugAssign, ast.Assign)):
                    tg = n.target if isinstance(n, ast.AugAssign) else n.targets[0]
                    if isinstance(tg, ast.Name) and tg.id in ('actions', 'action'):
                        for c in ast.walk(n.value):
                            if isinstance(c, ast.Constant) and isinstance(c.value, str):
                                consts.add(c.value)
                        if isinstance(n.value, ast.JoinedStr):
                            for v in n.value.values:
                                if isinstance(v, ast.FormattedValue):
                                    cum.append(v.value)
        table.setdefault(classes[0], (set(), []))
        table[classes[0]][0].update(consts)
        table[classes[0]][1].extend(cum)
    return table


def run(chk, ctx) -> None:
    prog = ctx.prog
    sev = SEval(prog)
    hh = prog.cls('HandHistory')
    acpc, plur = hh.methods.get('to_acpc_protocol'), hh.methods.get('to_pluribus_protocol')
    if acpc is None or plur is None:
        raise AnalysisError('protocol writers vanished')
    for fi, name in ((acpc, 'ACPC'), (plur, 'Pluribus')):
        tab = letters_of(fi.node)
        for cls, letter in LETTERS.items():
            got = tab.get(cls, (set(), []))[0]
            want = {letter} if cls != 'BoardDealing' else {'/'}
            got2 = {g for g in got if g}
            chk.ob('C17.letters', f'{fi.qualname}:{cls}', got2 == want, fi.loc,
                   f'{name}: the action letter of {cls}', got=sorted(got2), want=sorted(want))
    # no-limit raise size
    for fi, name in ((acpc, 'ACPC'), (plur, 'Pluribus')):
        amounts = []
        for n in ast.walk(fi.node):
            if isinstance(n, ast.Assign) and isinstance(n.targets[0], ast.Name) and n.targets[0].id == 'amount':
                amounts.append(T.norm(n.value))
        uses = letters_of(fi.node).get('CompletionBettingOrRaisingTo', (set(), []))[1]
        ok = amounts == [CUMULATIVE] and all(isinstance(u, ast.Name) and u.id == 'amount' for u in uses) and bool(uses)
        chk.ob('C17.cumulative', f'{fi.qualname}', ok, fi.loc,
               f'{name}: a no-limit raise is written with the total chips the player has committed in the hand (-payoff), not the street amount',
               got=[T.show(a) for a in amounts], want=T.show(CUMULATIVE))
    # ACPC: fixed-limit raises carry no size; exhaustive over the two variants
    ft = None
    for n in ast.walk(acpc.node):
        if isinstance(n, ast.Match):
            arms = {}
            for case in n.cases:
                if isinstance(case.pattern, ast.MatchValue) and isinstance(case.pattern.value, ast.Constant):
                    arms[case.pattern.value.value] = case
            ft = arms
    ok = ft is not None and set(ft) == {'FT', 'NT'} and any(
        isinstance(s, ast.Assign) and isinstance(s.value, ast.Constant) and s.value.value == 'r' for s in ft['FT'].body)
    chk.ob('C17.letters', f'{acpc.qualname}:fixed_limit', ok, acpc.loc, 'ACPC: a fixed-limit raise is a bare `r`; the two supported variants are both handled',
           got=sorted(ft) if ft else None)
    # parser patterns
    ap = prog.cls('ACPCProtocolParser')
    pats = {}
    for name in ('FOLDING', 'CHECKING_OR_CALLING', 'BETTING_OR_RAISING_TO', 'BOARD_DEALING', 'BLIND_POSTING'):
        v = sev.class_attr('ACPCProtocolParser', name)
        pats[name] = v.args[0] if isinstance(v, Obj) and v.cls == 'Pattern' else None
    want = {'FOLDING': 'f', 'CHECKING_OR_CALLING': 'c(?P<amount>\\d*)', 'BETTING_OR_RAISING_TO': 'r(?P<amount>\\d*)', 'BOARD_DEALING': '/'}
    for k, w in want.items():
        chk.ob('C17.letters', f'ACPCProtocolParser.{k}', pats.get(k) == w, ap.loc,
               'the parser reads the same letters the writers emit', got=pats.get(k), want=w)
    chk.floor('C17.letters', 13)
    # parser: which method each pattern drives
    pf = ap.methods.get('_parse')
    if pf is None:
        raise AnalysisError('ACPCProtocolParser._parse vanished')
    drive = {}
    for n in ast.walk(pf.node):
        if isinstance(n, ast.If) and isinstance(n.test, ast.NamedExpr):
            src = ast.unparse(n.test.value)
            for k in want:
                if f'self.{k},' in src or f'self.{k})' in src:
                    drive[k] = sorted({c.func.attr for s in n.body for c in ast.walk(s)
                                       if isinstance(c, ast.Call) and isinstance(c.func, ast.Attribute) and isinstance(c.func.value, ast.Name) and c.func.value.id == 'state'})
    want_d = {'FOLDING': ['fold'], 'CHECKING_OR_CALLING': ['check_or_call'], 'BETTING_OR_RAISING_TO': ['complete_bet_or_raise_to'],
              'BOARD_DEALING': ['burn_card', 'deal_board']}
    chk.ob('C17.letters', 'ACPCProtocolParser._parse:dispatch', drive == want_d, pf.loc,
           'each letter is replayed as the operation it was written for', got=drive, want=want_d)
    # cumulative -> street conversion
    facts = {'records_cumulative_before_subtracting': False, 'subtracts_previous_streets': False, 'baseline_moves_at_separator_only': False}
    for n in ast.walk(pf.node):
        if isinstance(n, ast.If) and isinstance(n.test, ast.Compare) and T.cond(n.test) == T.spec('amount is not None', boolean=True):
            body = [s for s in n.body]
            srcs = [stmt_text(s) for s in body]
            facts['records_cumulative_before_subtracting'] = srcs[:1] == ['max_amount = amount']
            facts['subtracts_previous_streets'] = 'amount -= previous_max_amount' in srcs and srcs.index('amount -= previous_max_amount') > 0
    writes = [(n, _arm_of(pf.node, n)) for n in ast.walk(pf.node)
              if isinstance(n, ast.Assign) and isinstance(n.targets[0], ast.Name) and n.targets[0].id == 'previous_max_amount']
    arms = [a for _, a in writes]
    facts['baseline_moves_at_separator_only'] = sorted(arms) == ['BOARD_DEALING', 'init'] and all(
        ast.unparse(n.value) in ('0', 'max_amount') for n, _ in writes)
    missing = [k for k, v in facts.items() if not v]
    chk.ob('C17.cumulative', 'ACPCProtocolParser._parse', not missing, pf.loc,
           'the parser converts the cumulative raise size back to a street raise-to by subtracting what was committed on earlier streets; '
           'that baseline is updated exactly when a street separator is read', got=f'missing: {missing}' if missing else 'ok')
    init = None
    for n in ast.walk(pf.node):
        if isinstance(n, ast.Assign) and isinstance(n.targets[0], ast.Name) and n.targets[0].id == 'max_amount' and 'blinds' in ast.unparse(n.value):
            init = T.norm(n.value)
    chk.ob('C17.cumulative', 'ACPCProtocolParser._parse:initial', init == T.spec('max(state.blinds_or_straddles)'), pf.loc,
           'before the first raise the largest commitment is the big blind', got=T.show(init) if init else None)
    # ------------------------------------------------------------- visibility
    def hole_arm(fi):
        for classes, node, test in isinstance_arms(fi.node):
            if classes == ('HoleDealing',):
                return node, test
        return None, None
    node, test = hole_arm(acpc)
    ok = False
    if node is not None:
        inner = [s for s in node.body if isinstance(s, ast.If)]
        ok = bool(inner) and T.cond(inner[0].test) == T.spec('operation.player_index == position', boolean=True) and len(node.body) == 1
    chk.ob('C17.visibility', f'{acpc.qualname}:dealt', ok, acpc.loc, "ACPC: only the requested seat's dealt cards enter the match state")
    node, test = hole_arm(plur)
    ok = node is not None and not any(isinstance(s, ast.If) and 'position' in ast.unparse(s.test) for s in node.body) \
        and 'raw_hole_cards[operation.player_index][i] = repr(card)' in ast.unparse(node)
    chk.ob('C17.visibility', f'{plur.qualname}:dealt', ok, plur.loc, 'Pluribus: the dealt cards of every seat are written')
    for fi in (acpc, plur):
        ok = False
        for classes, node, test in isinstance_arms(fi.node):
            if classes == ('HoleCardsShowingOrMucking',):
                src = ast.unparse(node)
                ok = 'raw_hole_cards[operation.player_index][i] = repr(card)' in src and 'enumerate(operation.hole_cards)' in src and 'if card' in src
        chk.ob('C17.visibility', f'{fi.qualname}:shown', ok, fi.loc, 'cards shown at showdown are written for whoever showed them, known cards only, in card order')
    ok = False
    for n in ast.walk(acpc.node):
        if isinstance(n, ast.FunctionDef) and n.name == 'egress':
            ok = any(isinstance(x, ast.Raise) for x in ast.walk(n)) and 'all(raw_hole_cards[position])' in ast.unparse(n)
    chk.ob('C17.visibility', f'{acpc.qualname}:viewer_known', ok, acpc.loc, "ACPC: a match state is only emitted when the viewer's own cards are known")
    # order: board cards after '/', hole cards joined by '|'
    for fi in (acpc, plur):
        src = ast.unparse(fi.node)
        ok = "'|'.join(map(''.join, raw_hole_cards))" in src and "board_cards += '/' + ''.join(map(repr, operation.cards))" in src
        chk.ob('C17.layout', f'{fi.qualname}:cards', ok, fi.loc, 'hole cards are joined seat by seat with `|`, each board street is prefixed by `/`')
    # ----------------------------------------------------------------- payoff
    pay = None
    for n in ast.walk(plur.node):
        if isinstance(n, ast.Call) and isinstance(n.func, ast.Attribute) and n.func.attr == 'append' and ast.unparse(n.func.value) == 'raw_payoffs':
            pay = T.norm(n.args[0])
    chk.ob('C17.payoff', plur.qualname, pay == T.spec('finishing_stack - starting_stack'), plur.loc,
           'Pluribus result field = finishing stack - starting stack per seat', got=T.show(pay) if pay else None)
    zips = [T.norm(n.iter) for n in ast.walk(plur.node) if isinstance(n, ast.For) and 'finishing_stack' in ast.unparse(n.target)]
    chk.ob('C17.payoff', f'{plur.qualname}:pairs', zips == [T.spec('zip(self.starting_stacks, finishing_stacks)')], plur.loc,
           'starting and finishing stacks are paired seat by seat, in that order', got=[T.show(z) for z in zips])
    # ------------------------------------------------------------------ gates
    want_g = {'ACPC_PROTOCOL_VARIANTS': frozenset({'FT', 'NT'}), 'PLURIBUS_PROTOCOL_VARIANTS': frozenset({'NT'})}
    for k, w in want_g.items():
        v = sev.class_attr('HandHistory', k)
        chk.ob('C17.gates', f'HandHistory.{k}', v == w, hh.loc, 'variants the protocol is defined for', got=sorted(v) if isinstance(v, frozenset) else v, want=sorted(w))
    for fi, k in ((acpc, 'ACPC_PROTOCOL_VARIANTS'), (plur, 'PLURIBUS_PROTOCOL_VARIANTS')):
        first = fi.body[0]
        ok = isinstance(first, ast.If) and T.cond(first.test) == T.spec(f'self.variant not in self.{k}', boolean=True) \
            and any(isinstance(s, ast.Raise) for s in first.body)
        chk.ob('C17.gates', fi.qualname, ok, fi.loc, 'a history of another variant is refused (ValueError), not mis-rendered')
    # the parser only accepts terminal hands
    ok = any(isinstance(n, ast.If) and T.cond(n.test) == T.spec('state.status', boolean=True) and any(isinstance(s, ast.Raise) for s in n.body)
             for n in ast.walk(pf.node))
    chk.ob('C17.gates', 'ACPCProtocolParser._parse:terminal', ok, pf.loc, 'a protocol line that does not end the hand is reported, not returned as a history')


def _arm_of(fn, node):
    for n in ast.walk(fn):
        if isinstance(n, ast.If) and isinstance(n.test, ast.NamedExpr) and any(m is node for s in n.body for m in ast.walk(s)):
            src = ast.unparse(n.test.value)
            for k in ('BOARD_DEALING', 'BETTING_OR_RAISING_TO', 'CHECKING_OR_CALLING', 'FOLDING', 'BLIND_POSTING'):
                if f'self.{k}' in src:
                    return k
    return 'init'
