"""C17 - ACPC and Pluribus protocol output describes the hand that was played.

Decided statically (sibling agreement): the operation -> letter tables of the
two writers agree with each other and with the patterns of the parser; the
no-limit raise size is the cumulative commitment (-payoff) in both writers and
the parser converts it back per street, updating its baseline exactly at a
street separator; card visibility (ACPC: only the viewer's dealt cards, shown
cards for all; Pluribus: all seats); payoff field = finishing - starting
stack; the variant gates.  Statements are found by the shape of their terms
(up to renaming of locals), never by the spelling of a local variable.
Not decided: equality of the emitted lines with the played hand on concrete
histories.
"""
from __future__ import annotations

import ast

from .. import terms as T
from ..evalstatic import Obj, SEval
from ..model import AnalysisError, stmt_text, walk_no_nested

LETTERS = {'Folding': 'f', 'CheckingOrCalling': 'c', 'CompletionBettingOrRaisingTo': 'r', 'BoardDealing': '/'}


def op_var(fn):
    """the local that holds the current operation: the most common first argument of isinstance(...)"""
    count = {}
    for n in ast.walk(fn):
        if isinstance(n, ast.Call) and isinstance(n.func, ast.Name) and n.func.id == 'isinstance' and n.args and isinstance(n.args[0], ast.Name):
            count[n.args[0].id] = count.get(n.args[0].id, 0) + 1
    if not count:
        raise AnalysisError(f'{fn.name}: no isinstance dispatch over the operations')
    return max(count, key=count.get)


def state_var(fn):
    """loop variable of ``for <state> in self``"""
    for n in ast.walk(fn):
        if isinstance(n, ast.For) and isinstance(n.iter, ast.Name) and n.iter.id == 'self' and isinstance(n.target, ast.Name):
            return n.target.id
    raise AnalysisError(f'{fn.name}: the replay loop `for state in self` vanished')


def arms_of(fn, op):
    """[(classes tuple, If node)] for every test that starts with isinstance(<op>, X | Y)"""
    out = []
    for n in ast.walk(fn):
        if isinstance(n, ast.If):
            t = n.test
            neg = False
            first = t.values[0] if isinstance(t, ast.BoolOp) and isinstance(t.op, ast.And) else t
            if isinstance(first, ast.UnaryOp) and isinstance(first.op, ast.Not):
                first, neg = first.operand, True
            if isinstance(first, ast.Call) and isinstance(first.func, ast.Name) and first.func.id == 'isinstance' \
                    and isinstance(first.args[0], ast.Name) and first.args[0].id == op:
                classes = tuple(sorted(x.id for x in ast.walk(first.args[1]) if isinstance(x, ast.Name)))
                out.append((classes, n, n.orelse if neg else n.body, t))
    return out


def arm_body(fn, op, cls):
    for classes, node, body, test in arms_of(fn, op):
        if classes == (cls,):
            return node, body, test
    return None, [], None


def strings_written(body):
    """string constants assigned / added to any variable in the statements (letters of the action)"""
    consts = set()
    fmt = []
    for st in body:
        for n in ast.walk(st):
            if isinstance(n, (ast.AugAssign, ast.Assign)):
                v = n.value
                for c in ast.walk(v):
                    if isinstance(c, ast.Constant) and isinstance(c.value, str) and c.value:
                        consts.add(c.value)
                if isinstance(v, ast.JoinedStr):
                    fmt.append(v)
    return consts, fmt


def _shape(e):
    from .c16 import _text_shape
    return _text_shape(e)


def run(chk, ctx) -> None:
    prog = ctx.prog
    sev = SEval(prog)
    m = ctx.m
    hh = prog.cls('HandHistory')
    acpc, plur = hh.methods.get('to_acpc_protocol'), hh.methods.get('to_pluribus_protocol')
    if acpc is None or plur is None:
        raise AnalysisError('protocol writers vanished')
    for fi, name in ((acpc, 'ACPC'), (plur, 'Pluribus')):
        op, sv = op_var(fi.node), state_var(fi.node)
        for cls, letter in LETTERS.items():
            node, body, _ = arm_body(fi.node, op, cls)
            consts, fmt = strings_written(body)
            got = {c for c in consts if len(c) == 1}
            chk.ob('C17.letters', f'{fi.qualname}:{cls}', got == {letter}, ctx.loc(fi, node) if node else fi.loc,
                   f'{name}: the action letter of {cls}', got=sorted(got), want=[letter])
        # no-limit raise size: r<-payoff of the raiser>
        node, body, _ = arm_body(fi.node, op, 'CompletionBettingOrRaisingTo')
        cum = T.spec(f'-{sv}.payoffs[{op}.player_index]')
        sized = False
        n_fmt = 0
        for st in body:
            for n in ast.walk(st):
                if isinstance(n, ast.JoinedStr) and any(isinstance(v, ast.Constant) and v.value == 'r' for v in n.values[:1]):
                    n_fmt += 1
                    vals = [v.value for v in n.values if isinstance(v, ast.FormattedValue)]
                    if len(vals) == 1:
                        t = T.norm(vals[0])
                        if t == cum:
                            sized = True
                        elif isinstance(vals[0], ast.Name):
                            defs = [a for s2 in body for a in ast.walk(s2) if isinstance(a, ast.Assign) and isinstance(a.targets[0], ast.Name)
                                    and a.targets[0].id == vals[0].id]
                            sized = len(defs) == 1 and T.norm(defs[0].value) == cum
        chk.ob('C17.cumulative', f'{fi.qualname}', sized and n_fmt == 1, ctx.loc(fi, node) if node else fi.loc,
               f'{name}: a no-limit raise is written with the total chips the player has committed in the hand (-payoff), not the street amount',
               want=T.show(cum))
    # ACPC: fixed-limit raises carry no size; the two supported variants are both handled
    ft = None
    for n in ast.walk(acpc.node):
        if isinstance(n, ast.Match):
            arms = {}
            for case in n.cases:
                if isinstance(case.pattern, ast.MatchValue) and isinstance(case.pattern.value, ast.Constant):
                    arms[case.pattern.value.value] = case
            ft = arms
    ok = ft is not None and set(ft) == {'FT', 'NT'} and any(
        isinstance(s, ast.Assign) and isinstance(s.value, ast.Constant) and s.value.value == 'r' for s in ft['FT'].body)
    chk.ob('C17.letters', f'{acpc.qualname}:fixed_limit', ok, acpc.loc, 'ACPC: a fixed-limit raise is a bare `r`; the two supported variants are both handled',
           got=sorted(ft) if ft else None)
    # parser patterns
    ap = prog.cls('ACPCProtocolParser')
    pats = {}
    for name in ('FOLDING', 'CHECKING_OR_CALLING', 'BETTING_OR_RAISING_TO', 'BOARD_DEALING', 'BLIND_POSTING'):
        v = sev.class_attr('ACPCProtocolParser', name)
        pats[name] = v.args[0] if isinstance(v, Obj) and v.cls == 'Pattern' else None
    want = {'FOLDING': 'f', 'CHECKING_OR_CALLING': 'c(?P<amount>\\d*)', 'BETTING_OR_RAISING_TO': 'r(?P<amount>\\d*)', 'BOARD_DEALING': '/'}
    for k, w in want.items():
        chk.ob('C17.letters', f'ACPCProtocolParser.{k}', pats.get(k) == w, ap.loc,
               'the parser reads the same letters the writers emit', got=pats.get(k), want=w)
    chk.floor('C17.letters', 13)
    _line_patterns(chk, sev, ap)
    pf = ap.methods.get('_parse')
    if pf is None:
        raise AnalysisError('ACPCProtocolParser._parse vanished')
    parms = _parser_arms(pf.node)
    # the state the parser drives: the local bound to self.game(...)
    svs = [n.targets[0].id for n in walk_no_nested(pf.node) if isinstance(n, ast.Assign) and isinstance(n.targets[0], ast.Name)
           and isinstance(n.value, ast.Call) and ast.unparse(n.value.func) == 'self.game']
    if len(svs) != 1:
        raise AnalysisError('ACPCProtocolParser._parse: the replayed state is not built by exactly one self.game(...) call')
    st_name = svs[0]
    drive = {k: sorted({c.func.attr for s in body for c in ast.walk(s) if isinstance(c, ast.Call) and isinstance(c.func, ast.Attribute)
                        and isinstance(c.func.value, ast.Name) and c.func.value.id == st_name}) for k, (node, body) in parms.items() if k in want}
    want_d = {'FOLDING': ['fold'], 'CHECKING_OR_CALLING': ['check_or_call'], 'BETTING_OR_RAISING_TO': ['complete_bet_or_raise_to'],
              'BOARD_DEALING': ['burn_card', 'deal_board']}
    chk.ob('C17.letters', 'ACPCProtocolParser._parse:dispatch', drive == want_d, pf.loc,
           'each letter is replayed as the operation it was written for', got=drive, want=want_d)
    # cumulative -> street conversion (names bound by shape)
    facts = {'records_cumulative_before_subtracting': False, 'subtracts_previous_streets': False, 'baseline_moves_at_separator_only': False,
             'raise_is_made_to_the_street_amount': False}
    bnode, bbody = parms.get('BETTING_OR_RAISING_TO', (None, []))
    amount = maxv = prev = None
    for n in [x for s in bbody for x in ast.walk(s)]:
        if isinstance(n, ast.If):
            b = m.bind(T.cond(n.test), 'amount is not None', boolean=True)
            if not b:
                continue
            amount = b['amount']
            stmts = n.body
            for k, s in enumerate(stmts):
                if isinstance(s, ast.Assign) and isinstance(s.targets[0], ast.Name) and isinstance(s.value, ast.Name) and s.value.id == amount:
                    maxv = s.targets[0].id
                    for s2 in stmts[k + 1:]:
                        if isinstance(s2, ast.AugAssign) and isinstance(s2.op, ast.Sub) and isinstance(s2.target, ast.Name) and s2.target.id == amount \
                                and isinstance(s2.value, ast.Name):
                            prev = s2.value.id
                            facts['records_cumulative_before_subtracting'] = True
                            facts['subtracts_previous_streets'] = True
    if amount:
        facts['raise_is_made_to_the_street_amount'] = any(
            isinstance(c, ast.Call) and isinstance(c.func, ast.Attribute) and c.func.attr == 'complete_bet_or_raise_to'
            and len(c.args) == 1 and isinstance(c.args[0], ast.Name) and c.args[0].id == amount for s in bbody for c in ast.walk(s))
    if prev and maxv:
        writes = [(n, _arm_name(parms, n)) for n in walk_no_nested(pf.node)
                  if isinstance(n, ast.Assign) and isinstance(n.targets[0], ast.Name) and n.targets[0].id == prev]
        arms_w = sorted(a for _, a in writes)
        # ... at every separator: the write is a statement of the arm itself, not of a condition inside it
        sep_body = parms.get('BOARD_DEALING', (None, []))[1]
        facts['baseline_moves_at_separator_only'] = arms_w == ['BOARD_DEALING', 'init'] and all(
            (isinstance(n.value, ast.Constant) and n.value.value == 0) or (isinstance(n.value, ast.Name) and n.value.id == maxv) for n, _ in writes) \
            and all(any(n is st for st in sep_body) for n, a in writes if a == 'BOARD_DEALING')
    missing = [k for k, v in facts.items() if not v]
    chk.ob('C17.cumulative', 'ACPCProtocolParser._parse', not missing, pf.loc,
           'the parser converts the cumulative raise size back to a street raise-to by subtracting what was committed on earlier streets; '
           'that baseline is updated exactly when a street separator is read', got=f'missing: {missing}' if missing else 'ok')
    init = None
    if maxv:
        for n in walk_no_nested(pf.node):
            if isinstance(n, ast.Assign) and isinstance(n.targets[0], ast.Name) and n.targets[0].id == maxv and _arm_name(parms, n) == 'init':
                init = T.norm(n.value)
    chk.ob('C17.cumulative', 'ACPCProtocolParser._parse:initial', init == T.spec(f'max({st_name}.blinds_or_straddles)'), pf.loc,
           'before the first raise the largest commitment is the big blind', got=T.show(init) if init else None)
    # ------------------------------------------------------------- visibility
    for fi, label in ((acpc, 'ACPC'), (plur, 'Pluribus')):
        op = op_var(fi.node)
        node, body, _ = arm_body(fi.node, op, 'HoleDealing')
        stores = _card_stores(body, op)
        if label == 'ACPC':
            gated = [n for s in body for n in ast.walk(s) if isinstance(n, ast.If) and T.cond(n.test) == T.spec(f'{op}.player_index == position', boolean=True)]
            inside = gated and all(any(x is st for g in gated for x in ast.walk(g)) for st, _ in stores)
            ok = bool(stores) and bool(inside) and all(idx == ('name', 'position') for _, idx in stores)
            chk.ob('C17.visibility', f'{fi.qualname}:dealt', ok, ctx.loc(fi, node) if node else fi.loc,
                   "ACPC: only the requested seat's dealt cards enter the match state")
        else:
            ok = bool(stores) and all(idx == T.spec(f'{op}.player_index') for _, idx in stores) \
                and not any(isinstance(n, ast.If) and 'player_index' in ast.unparse(n.test) for s in body for n in ast.walk(s))
            chk.ob('C17.visibility', f'{fi.qualname}:dealt', ok, ctx.loc(fi, node) if node else fi.loc, 'Pluribus: the dealt cards of every seat are written')
        node, body, _ = arm_body(fi.node, op, 'HoleCardsShowingOrMucking')
        stores = _card_stores(body, op)
        over = [n for s in body for n in ast.walk(s) if isinstance(n, ast.For) and T.norm(n.iter) == T.spec(f'enumerate({op}.hole_cards)')]
        known = [n for s in body for n in ast.walk(s) if isinstance(n, ast.If) and isinstance(n.test, ast.Name)]
        ok = bool(stores) and all(idx == T.spec(f'{op}.player_index') for _, idx in stores) and len(over) == 1 and bool(known)
        chk.ob('C17.visibility', f'{fi.qualname}:shown', ok, ctx.loc(fi, node) if node else fi.loc,
               'cards shown at showdown are written for whoever showed them, known cards only, in card order')
    ok = False
    for n in ast.walk(acpc.node):
        if isinstance(n, ast.FunctionDef) and n is not acpc.node:
            ifs = [x for x in ast.walk(n) if isinstance(x, ast.If) and any(isinstance(r, ast.Raise) for r in x.body)]
            for x in ifs:
                t = T.cond(x.test)
                if m.eq(t, 'not all(cards[position])', boolean=True):
                    ok = True
    chk.ob('C17.visibility', f'{acpc.qualname}:viewer_known', ok, acpc.loc, "ACPC: a match state is only emitted when the viewer's own cards are known")
    # order: board cards after '/', hole cards joined by '|'
    for fi in (acpc, plur):
        op = op_var(fi.node)
        j1 = m.exprs(fi.node, "'|'.join(map(''.join, cards))")
        j2 = [n for n in ast.walk(fi.node) if isinstance(n, ast.AugAssign) and isinstance(n.op, ast.Add)
              and T.norm(n.value) == T.spec(f"'/' + ''.join(map(repr, {op}.cards))")]
        chk.ob('C17.layout', f'{fi.qualname}:cards', bool(j1) and len(j2) == 1, fi.loc,
               'hole cards are joined seat by seat with `|`, each board street is prefixed by `/`')
    # ----------------------------------------------------------------- payoff
    ok = False
    got = None
    for loop in [n for n in ast.walk(plur.node) if isinstance(n, ast.For) and isinstance(n.target, ast.Tuple) and len(n.target.elts) == 2]:
        it = T.norm(loop.iter)
        if it[0] == 'call' and it[1] == 'zip' and len(it[2]) == 2 and it[2][0] == ('self', 'starting_stacks'):
            s_name, f_name = (e.id for e in loop.target.elts)
            for c in ast.walk(loop):
                if isinstance(c, ast.Call) and isinstance(c.func, ast.Attribute) and c.func.attr == 'append' and c.args:
                    got = T.norm(c.args[0])
                    ok = got == T.spec(f'{f_name} - {s_name}')
    # (the same collection spelt as a comprehension)
    for comp in [n for n in ast.walk(plur.node) if isinstance(n, (ast.ListComp, ast.GeneratorExp)) and len(n.generators) == 1
                 and isinstance(n.generators[0].target, ast.Tuple) and len(n.generators[0].target.elts) == 2 and not n.generators[0].ifs]:
        it = T.norm(comp.generators[0].iter)
        if it[0] == 'call' and it[1] == 'zip' and len(it[2]) == 2 and it[2][0] == ('self', 'starting_stacks') and got is None:
            s_name, f_name = (e.id for e in comp.generators[0].target.elts)
            got = T.norm(comp.elt, {s_name: ('name', s_name), f_name: ('name', f_name)})
            ok = got == T.spec(f'{f_name} - {s_name}')
    from .helpers import no_format_specs
    no_format_specs(chk, ctx, 'C17.layout', [acpc, plur])
    # every logged operation is rendered exactly once, starting with the first: the cursor starts at 0, advances by one per
    # operation read, and runs to the end of the log of each replayed state
    for fi in (acpc, plur):
        opn = op_var(fi.node)
        facts = {
            'cursor starts at 0': bool(m.full_assigns(fi.node, 'index', '0')),
            'runs to the end of the log': bool(m.ifs(fi.node, 'index < len(state.operations)')),
            'reads the operation under the cursor': bool(m.full_assigns(fi.node, opn or 'operation', 'state.operations[index]')),
            'advances by one': bool(m.augs(fi.node, ast.Add, 'index', '1')),
            'over the replayed states of this history': bool(m.fors(fi.node, 'self')),
        }
        missing = [k for k, v in facts.items() if not v]
        chk.ob('C17.layout', f'{fi.qualname}:cursor', not missing, fi.loc,
               'the operations of the replay are rendered one by one, each exactly once, from the first', got=f'not found: {missing}' if missing else 'ok')
        # the hand number: the argument, else the recorded integer hand number, else an error
        hn = False
        for n in m.ifs(fi.node, 'hand_number is None'):
            inner = [x for x in n.body if isinstance(x, ast.If)]
            hn = len(inner) == 1 and m.eq(T.cond(inner[0].test), 'self.hand is None or not isinstance(self.hand, int)', boolean=True, fn=fi.node) \
                and any(isinstance(r, ast.Raise) for r in inner[0].body) and bool(m.full_assigns(n, 'hand_number', 'self.hand'))
        chk.ob('C17.layout', f'{fi.qualname}:hand_number', hn, fi.loc,
               'the hand number written is the one asked for, else the integer recorded in the history; without either the call is refused')
    # Pluribus: seats are named from the history, else p1..pn; payoffs come from the recorded finishing stacks, else the replayed end
    facts = {
        'default names p1..pn': any(
            isinstance(n, ast.ListComp) and T.alpha_eq(_shape(n.elt), _shape(ast.parse("f'p{i + 1}'", mode='eval').body), lambda nm: nm not in ('self',))
            and m.eq(T.norm(n.generators[0].iter), 'range(len(self.starting_stacks))', fn=plur.node) for n in ast.walk(plur.node)),
        'recorded names': bool(m.assigns(plur.node, 'self.players')),
        'finishing stacks of the replay': bool(m.exprs(plur.node, 'tuple(self)[-1].stacks')),
        'recorded finishing stacks': bool(m.assigns(plur.node, 'self.finishing_stacks')),
        'names joined by |': bool(m.exprs(plur.node, "'|'.join(raw_players)")),
    }
    missing = [k for k, v in facts.items() if not v]
    chk.ob('C17.payoff', f'{plur.qualname}:sources', not missing, plur.loc,
           'Pluribus line: player names from the history (default p1..pn), payoffs from the recorded or the replayed finishing stacks',
           got=f'not found: {missing}' if missing else 'ok')
    # the parser's replay loop: deal the hole cards first, consume the action text token by token, deal a board per `/`, deal the
    # boards that are left, and refuse a line whose hand is not over
    pf = prog.cls('ACPCProtocolParser').methods.get('_parse')
    if pf is not None:
        tbl = {
            'every seat is dealt its hole cards before the actions': any(
                isinstance(lp, (ast.For, ast.While)) and any(isinstance(c, ast.Call) and isinstance(c.func, ast.Attribute) and c.func.attr == 'deal_hole' and len(c.args) == 1
                                                            for c in ast.walk(lp)) for lp in pf.node.body),
            'the consumed token is cut off the action text': bool(m.full_assigns(pf.node, 'actions', 'actions[len(n.group()):]')) or bool(m.full_assigns(pf.node, 'actions', 'actions[n.end():]')),
            'an unknown token is an error': any(any(isinstance(r, ast.Raise) for r in yes) for yes, no in m.when(pf.node, 'n is None')),
            'each `/` burns a card and deals the next board': len(m.calls(pf.node, "state.burn_card('??')")) == 2 and len(m.calls(pf.node, 'state.deal_board(board_cards.popleft())')) == 2,
            'a call is replayed unless everybody is all-in': any(
                any(isinstance(c, ast.Call) and isinstance(c.func, ast.Attribute) and c.func.attr == 'check_or_call' for st in no for c in ast.walk(st))
                and not any(isinstance(c, ast.Call) and isinstance(c.func, ast.Attribute) and c.func.attr == 'check_or_call' for st in yes for c in ast.walk(st))
                for yes, no in m.when(pf.node, 'state.all_in_status')),
            'an empty raise size means the default raise': any(isinstance(x, ast.If) and m.eq(T.cond(x.test), 'raw_amount', boolean=True, fn=pf.node) for x in ast.walk(pf.node))
            or bool(m.exprs(pf.node, 'parse_value(raw_amount) if raw_amount else None')),
            'a line whose hand does not end is refused': any(any(isinstance(r, ast.Raise) for r in yes) for yes, no in m.when(pf.node, 'state.status')),
            'results, players and hand number are recorded': any('_results=results' in ast.unparse(n) and 'players=players' in ast.unparse(n) and 'hand=hand' in ast.unparse(n)
                                                                 for n in ast.walk(pf.node) if isinstance(n, ast.Call)),
        }
        missing = [k for k, v in tbl.items() if not v]
        from .c20 import entry_points
    entry_points(chk, ctx, 'C17.cumulative', [prog.cls('ACPCProtocolParser')])
    chk.ob('C17.cumulative', 'ACPCProtocolParser._parse:replay', not missing, pf.loc,
               'the protocol line is replayed token by token on a fresh state and only a finished hand is handed out', got=f'not found: {missing}' if missing else 'ok')
    # the parser replays on its own copy of the game, in cash-game mode, with everything but dealing and betting automated
    pc = prog.cls('ACPCProtocolParser')
    pi = pc.methods.get('__post_init__')
    setup_ok = pi is not None and bool(m.full_assigns(pi.node, 'self.game', 'deepcopy(self.game)')) \
        and bool(m.full_assigns(pi.node, 'self.game.automations', 'self.AUTOMATIONS')) and bool(m.full_assigns(pi.node, 'self.game.mode', 'Mode.CASH_GAME'))
    order_ok = False
    if pi is not None and setup_ok:
        lines = {ast.unparse(st.targets[0]): st.lineno for st in pi.node.body if isinstance(st, ast.Assign)}
        order_ok = lines.get('self.game', 0) < min(lines.get('self.game.automations', 0), lines.get('self.game.mode', 0))
    chk.ob('C17.gates', 'ACPCProtocolParser.__post_init__', setup_ok and order_ok, pi.loc if pi else pc.loc,
           'the parser configures a private copy of the game (copied first): cash-game mode and the protocol\'s automations')
    # the result field is the payoffs as they are (str of each number, joined by `|`): no rounding, no number formatting
    rendered = bool(m.exprs(plur.node, "'|'.join(map(str, raw_payoffs))")) or bool(m.exprs(plur.node, "'|'.join(str(payoff) for payoff in raw_payoffs)")) \
        or any(isinstance(c, ast.Call) and isinstance(c.func, ast.Attribute) and c.func.attr == 'join' and isinstance(c.func.value, ast.Constant)
               and c.func.value.value == '|' and len(c.args) == 1 and isinstance(c.args[0], ast.Call) and isinstance(c.args[0].func, ast.Name)
               and c.args[0].func.id == 'map' and len(c.args[0].args) == 2 and isinstance(c.args[0].args[0], ast.Name) and c.args[0].args[0].id == 'str'
               and isinstance(c.args[0].args[1], ast.ListComp) and 'starting_stacks' in ast.unparse(c.args[0].args[1]) for c in ast.walk(plur.node))
    chk.ob('C17.payoff', f'{plur.qualname}:rendering', rendered, plur.loc,
           'the payoff field is str() of each payoff joined by `|` (a format specification would round or switch to exponent notation)')
    chk.ob('C17.payoff', plur.qualname, ok, plur.loc,
           'Pluribus result field = finishing stack - starting stack per seat (stacks paired seat by seat)', got=T.show(got) if got else None)
    # ------------------------------------------------------------------ gates
    want_g = {'ACPC_PROTOCOL_VARIANTS': frozenset({'FT', 'NT'}), 'PLURIBUS_PROTOCOL_VARIANTS': frozenset({'NT'})}
    for k, w in want_g.items():
        v = sev.class_attr('HandHistory', k)
        chk.ob('C17.gates', f'HandHistory.{k}', v == w, hh.loc, 'variants the protocol is defined for', got=sorted(v) if isinstance(v, frozenset) else v, want=sorted(w))
    for fi, k in ((acpc, 'ACPC_PROTOCOL_VARIANTS'), (plur, 'PLURIBUS_PROTOCOL_VARIANTS')):
        gate = T.spec(f'self.variant not in self.{k}', boolean=True)
        ok = False
        for p in ctx.paths(fi, max_paths=400000) if False else []:
            pass
        for n in fi.body[:2]:
            if isinstance(n, ast.If):
                t = T.cond(n.test)
                if t == gate and any(isinstance(s, ast.Raise) for s in n.body):
                    ok = True
                if t == T.mk_not(gate) and any(isinstance(s, ast.Raise) for s in n.orelse):
                    ok = True
        chk.ob('C17.gates', fi.qualname, ok, fi.loc, 'a history of another variant is refused (ValueError), not mis-rendered')
    ok = any(isinstance(n, ast.If) and ((T.cond(n.test) == T.spec(f'{st_name}.status', boolean=True) and any(isinstance(s, ast.Raise) for s in n.body))
                                        or (T.cond(n.test) == T.spec(f'not {st_name}.status', boolean=True) and any(isinstance(s, ast.Raise) for s in n.orelse)))
             for n in ast.walk(pf.node))
    chk.ob('C17.gates', 'ACPCProtocolParser._parse:terminal', ok, pf.loc, 'a protocol line that does not end the hand is reported, not returned as a history')


def _card_stores(body, op):
    """[(assign node, player index term)] for ``X[<player>][i] = repr(card)`` in the statements"""
    out = []
    for s in body:
        for n in ast.walk(s):
            if isinstance(n, ast.Assign) and isinstance(n.targets[0], ast.Subscript) and isinstance(n.targets[0].value, ast.Subscript) \
                    and isinstance(n.value, ast.Call) and isinstance(n.value.func, ast.Name) and n.value.func.id == 'repr':
                out.append((n, T.norm(n.targets[0].value.slice)))
    return out


def _parser_arms(fn):
    """pattern attribute -> (If node, body) for ``if/elif n := match(self.PATTERN, actions)`` (either polarity)"""
    out = {}
    for n in ast.walk(fn):
        if isinstance(n, ast.If):
            t = n.test
            neg = False
            if isinstance(t, ast.UnaryOp) and isinstance(t.op, ast.Not):
                t, neg = t.operand, True
            if isinstance(t, ast.NamedExpr) and isinstance(t.value, ast.Call) and t.value.args and isinstance(t.value.args[0], ast.Attribute) \
                    and isinstance(t.value.args[0].value, ast.Name) and t.value.args[0].value.id == 'self':
                out[t.value.args[0].attr] = (n, n.orelse if neg else n.body)
    return out


def _arm_name(parms, node):
    for k, (ifnode, body) in parms.items():
        if any(m is node for s in body for m in ast.walk(s)):
            return k
    return 'init'


def _line_patterns(chk, sev, ap) -> None:
    """a protocol line is colon-separated fields; the parser accepts a line iff every field is there, and takes for a field everything up
    to the next colon (player names are free text: bots are called ``hyperborean_iro.2p`` or ``Mr. Blue``) - read off the regex AST"""
    import re._parser as sp
    from re._constants import AT, AT_BEGINNING, AT_END, CATEGORY, CATEGORY_DIGIT, IN, LITERAL, MAX_REPEAT, MAXREPEAT, NEGATE, SUBPATTERN
    v = sev.class_attr('ACPCProtocolParser', 'HAND')
    pats = [x for x in v if isinstance(x, Obj) and x.cls == 'Pattern'] if isinstance(v, tuple) else []
    want = [['players', 'hand', 'actions', 'cards', 'results'], ['STATE', 'hand', 'actions', 'cards', 'results', 'players']]
    got = []
    for x in pats:
        flags = 'MULTILINE' in repr(x.args[1:]) if len(x.args) > 1 else False
        try:
            tree = sp.parse(x.args[0])
        except Exception as ex:  # noqa
            got.append(f'unparsable: {ex}')
            continue
        names = {n: k for k, n in tree.state.groupdict.items()}
        items = list(tree.data)
        fields, ok, lit = [], flags, ''
        if not items or items[0] != (AT, AT_BEGINNING) or items[-1] != (AT, AT_END):
            ok = False
        for op, av in items[1:-1]:
            if op == LITERAL and av == ord(':'):
                if lit:
                    fields.append(lit)
                    lit = ''
                continue
            if op == LITERAL:
                lit += chr(av)
                continue
            if op == SUBPATTERN and av[0] in names and len(av[3]) == 1 and av[3][0][0] == MAX_REPEAT:
                lo, hi, inner = av[3][0][1]
                name = names[av[0]]
                fields.append(name)
                if lo != 1 or hi != MAXREPEAT or len(inner) != 1 or inner[0][0] != IN:
                    ok = False
                    continue
                cls = inner[0][1]
                if name == 'hand':
                    ok &= cls == [(CATEGORY, CATEGORY_DIGIT)]
                else:
                    excl = {c for o, c in cls[1:] if o == LITERAL}
                    ok &= bool(cls) and cls[0] == (NEGATE, None) and all(o == LITERAL for o, _ in cls[1:]) and ord(':') in excl \
                        and excl <= {ord(':'), 10, 13}
                continue
            ok = False
        if lit:
            fields.append(lit)
        got.append(fields if ok else f'{fields} (a field does not take everything up to the next colon, or the line is not anchored per line)')
    chk.ob('C17.line', 'ACPCProtocolParser.HAND', got == want, ap.loc,
           'a line is read as its colon-separated fields in the order the writers emit them; every field but the hand number takes any text '
           'without a colon (names are free text), the whole line is matched, line by line', got=got, want=want)
