"""Engine C: canonical symbolic terms for Python expressions.

``norm(expr, env)`` maps an ``ast`` expression to a hashable nested tuple that
is invariant under: renaming of locals (through ``env``), commutativity and
associativity of ``+ * min max and or == !=``, orientation of comparisons,
``not`` over comparisons, chained comparisons, integer-linear rearrangement,
double negation, De Morgan.  Spec formulas are Python expression strings pushed
through the same function (``spec``), so "code == spec" is term equality.
"""
from __future__ import annotations

import ast

Term = tuple

NUMERIC_LISTS = {
    'bets', 'stacks', 'payoffs', 'antes', 'blinds_or_straddles',
    'starting_stacks', 'board_dealing_counts',
}
NUMERIC_SCALARS = {
    'bring_in', 'street_return_count', 'player_count', 'board_count',
    'completion_betting_or_raising_amount', 'starting_board_count',
    'completion_betting_or_raising_count', 'hand_type_count', 'street_count',
}
NUMERIC_CALLS = {'len', 'sum', 'min', 'max', 'abs', 'sign', 'round', 'int'}

_CMP_FLIP = {'lt': 'le', 'le': 'lt'}


def key(t) -> str:
    return repr(t)


def num(k: int) -> Term:
    return ('num', k)


def is_num(t) -> bool:
    return isinstance(t, tuple) and t and t[0] == 'num'


# ------------------------------------------------------------------ linear
def _as_lin(t: Term):
    if t[0] == 'num':
        return {}, t[1]
    if t[0] == 'lin':
        return dict(t[1]), t[2]
    return {t: 1}, 0


def _mk_lin(d: dict, c) -> Term:
    d = {k: v for k, v in d.items() if v != 0}
    if not d:
        return ('num', c)
    if c == 0 and len(d) == 1:
        (k, v), = d.items()
        if v == 1:
            return k
    return ('lin', tuple(sorted(d.items(), key=lambda kv: key(kv[0]))), c)


def add(a: Term, b: Term, sign: int = 1) -> Term:
    da, ca = _as_lin(a)
    db, cb = _as_lin(b)
    d = dict(da)
    for k, v in db.items():
        d[k] = d.get(k, 0) + sign * v
    return _mk_lin(d, ca + sign * cb)


def scale(a: Term, k) -> Term:
    d, c = _as_lin(a)
    return _mk_lin({x: v * k for x, v in d.items()}, c * k)


def neg(a: Term) -> Term:
    return scale(a, -1)


def mul(a: Term, b: Term) -> Term:
    if is_num(a):
        return scale(b, a[1])
    if is_num(b):
        return scale(a, b[1])
    fs = []
    for x in (a, b):
        if x[0] == 'mul':
            fs.extend(x[1])
        else:
            fs.append(x)
    return ('mul', tuple(sorted(fs, key=key)))


def lin_atoms(t: Term) -> dict:
    d, _ = _as_lin(t)
    return d


# ---------------------------------------------------------------- booleans
def mk_not(t: Term) -> Term:
    h = t[0]
    if h == 'not':
        return truthy(t[1])
    if h in ('lt', 'le'):
        return (_CMP_FLIP[h], t[2], t[1])
    if h == 'eq':
        return ('ne', t[1])
    if h == 'ne':
        return ('eq', t[1])
    if h == 'is':
        return ('isnot', t[1])
    if h == 'isnot':
        return ('is', t[1])
    if h == 'in':
        return ('notin', t[1], t[2])
    if h == 'notin':
        return ('in', t[1], t[2])
    if h == 'and':
        return mk_bool('or', [mk_not(x) for x in t[1]])
    if h == 'or':
        return mk_bool('and', [mk_not(x) for x in t[1]])
    if h == 'const' and isinstance(t[1], bool):
        return ('const', not t[1])
    if is_numeric(t):
        return ('eq', _pair(t, num(0)))
    return ('not', t)


def mk_bool(op: str, xs) -> Term:
    flat = []
    for x in xs:
        if x[0] == op:
            flat.extend(x[1])
        else:
            flat.append(x)
    out = []
    for x in flat:
        if x == ('const', op == 'and'):
            continue  # neutral element
        if x not in out:
            out.append(x)
    if not out:
        return ('const', op == 'and')
    if len(out) == 1:
        return out[0]
    return (op, tuple(sorted(out, key=key)))


def _pair(a, b):
    return tuple(sorted((a, b), key=key))


def is_numeric(t: Term) -> bool:
    h = t[0]
    if h in ('num', 'lin', 'mul', 'min', 'max', 'floordiv', 'mod'):
        return True
    if h in ('self', 'selfv'):
        return t[1] in NUMERIC_SCALARS
    if h == 'sub' and t[1][0] in ('self', 'selfv'):
        return t[1][1] in NUMERIC_LISTS
    if h == 'call':
        return t[1] in NUMERIC_CALLS
    return False


def is_boolish(t: Term) -> bool:
    return t[0] in ('lt', 'le', 'eq', 'ne', 'is', 'isnot', 'in', 'notin',
                    'and', 'or', 'not') or (t[0] == 'const' and isinstance(t[1], bool))


def truthy(t: Term) -> Term:
    """term in boolean position"""
    if is_boolish(t):
        return t
    if is_numeric(t):
        return ('ne', _pair(t, num(0)))
    return t


def cmp(op: str, a: Term, b: Term) -> Term:
    if op == 'Lt':
        return _cmp_lin('lt', a, b)
    if op == 'Gt':
        return _cmp_lin('lt', b, a)
    if op == 'LtE':
        return _cmp_lin('le', a, b)
    if op == 'GtE':
        return _cmp_lin('le', b, a)
    if op == 'Eq':
        return ('eq', _pair(a, b))
    if op == 'NotEq':
        return ('ne', _pair(a, b))
    if op == 'Is':
        return ('is', _pair(a, b))
    if op == 'IsNot':
        return ('isnot', _pair(a, b))
    if op == 'In':
        return ('in', a, b)
    if op == 'NotIn':
        return ('notin', a, b)
    raise ValueError(op)


def _cmp_lin(h, a, b):
    """a < b with integer constants moved to one canonical side:
    ``x + 1 <= y`` stays distinct from ``x < y`` (chips may be non-integral)."""
    return (h, a, b)


# --------------------------------------------------------------- normaliser
MAP_AS_COMPREHENSION = True
SIGNATURES: dict = {}
METHOD_SIGNATURES: dict = {}


class Normaliser:
    """expression -> term under an environment of local bindings.

    hooks: ``self_attr(name) -> Term|None`` lets a caller inline a property.
    """

    def __init__(self, env=None, self_name='self', self_attr_hook=None,
                 call_hook=None):
        self.env = dict(env or {})
        self.self_name = self_name
        self.self_attr_hook = self_attr_hook
        self.call_hook = call_hook
        self._bound = 0

    def __call__(self, e):
        return self.norm(e)

    def cond(self, e) -> Term:
        return truthy(self.norm(e))

    def norm(self, e) -> Term:
        m = getattr(self, 'n_' + type(e).__name__, None)
        if m is None:
            return ('opaque', ' '.join(ast.unparse(e).split()))
        return m(e)

    # -- leaves
    def n_Constant(self, e):
        v = e.value
        if isinstance(v, bool) or v is None:
            return ('const', v)
        if isinstance(v, int):
            return ('num', v)
        return ('const', v)

    def n_Name(self, e):
        if e.id in self.env:
            return self.env[e.id]
        return ('name', e.id)

    def n_Attribute(self, e):
        if isinstance(e.value, ast.Name) and e.value.id == self.self_name \
                and self.self_name not in self.env:
            if self.self_attr_hook is not None:
                r = self.self_attr_hook(e.attr)
                if r is not None:
                    return r
            return ('self', e.attr)
        base = self.norm(e.value)
        return ('attr', base, e.attr)

    def n_Subscript(self, e):
        return ('sub', self.norm(e.value), self.norm(e.slice))

    def n_Slice(self, e):
        f = lambda x: ('const', None) if x is None else self.norm(x)  # noqa
        return ('slice', f(e.lower), f(e.upper), f(e.step))

    def n_Starred(self, e):
        return ('starred', self.norm(e.value))

    def n_Tuple(self, e):
        return ('tuple', tuple(self.norm(x) for x in e.elts))

    def n_List(self, e):
        return ('list', tuple(self.norm(x) for x in e.elts))

    def n_Set(self, e):
        return ('set', tuple(sorted((self.norm(x) for x in e.elts), key=key)))

    def n_Dict(self, e):
        items = []
        for k, v in zip(e.keys, e.values):
            items.append((('const', None) if k is None else self.norm(k),
                          self.norm(v)))
        return ('dict', tuple(items))

    def n_JoinedStr(self, e):
        return ('fstr',)

    def n_FormattedValue(self, e):
        return ('fstr',)

    # -- operators
    def n_UnaryOp(self, e):
        if isinstance(e.op, ast.Not):
            return mk_not(truthy(self.norm(e.operand)))
        v = self.norm(e.operand)
        if isinstance(e.op, ast.USub):
            return neg(v)
        if isinstance(e.op, ast.UAdd):
            return v
        return ('invert', v)

    def n_BinOp(self, e):
        a, b = self.norm(e.left), self.norm(e.right)
        op = e.op
        if isinstance(op, ast.Add):
            if a[0] in ('tuple', 'list') and b[0] == a[0]:
                return (a[0], a[1] + b[1])
            if _seqish(a) or _seqish(b):
                return ('concat', a, b)
            return add(a, b)
        if isinstance(op, ast.Sub):
            return add(a, b, -1)
        if isinstance(op, ast.Mult):
            if _seqish(a) or _seqish(b):
                return ('repeat', a, b)
            return mul(a, b)
        name = type(op).__name__.lower()
        if isinstance(op, ast.BitOr):
            return ('bitor', tuple(sorted((a, b), key=key)))
        if isinstance(op, ast.BitAnd):
            return ('bitand', tuple(sorted((a, b), key=key)))
        return (name, a, b)

    def n_BoolOp(self, e):
        op = 'and' if isinstance(e.op, ast.And) else 'or'
        return mk_bool(op, [truthy(self.norm(v)) for v in e.values])

    def n_Compare(self, e):
        parts = []
        left = self.norm(e.left)
        for op, right in zip(e.ops, e.comparators):
            r = self.norm(right)
            # x in range(a, b)  ==  a <= x < b   (the code base tests integer counts this way; step 1 only)
            if isinstance(op, (ast.In, ast.NotIn)) and r[0] == 'call' and r[1] == 'range' and not r[3] and len(r[2]) in (1, 2) \
                    and left[0] in ('call', 'lin', 'num', 'name', 'sub', 'self', 'attr', 'selfv'):
                lo, hi = (num(0), r[2][0]) if len(r[2]) == 1 else r[2]
                inside = mk_bool('and', [cmp('LtE', lo, left), cmp('Lt', left, hi)])
                parts.append(inside if isinstance(op, ast.In) else mk_not(inside))
            else:
                parts.append(cmp(type(op).__name__, left, r))
            left = r
        return mk_bool('and', parts)

    def n_IfExp(self, e):
        c = truthy(self.norm(e.test))
        a, b = self.norm(e.body), self.norm(e.orelse)
        if c[0] == 'const' and isinstance(c[1], bool):
            return a if c[1] else b
        # a constant arm makes the choice a conjunction / disjunction (operands in boolean position, as for ``and`` / ``or``)
        if a == ('const', False):
            return mk_bool('and', [mk_not(c), truthy(b)])
        if a == ('const', True) and is_boolish(c):
            return mk_bool('or', [c, truthy(b)])
        if b == ('const', False) and is_boolish(c):
            return mk_bool('and', [c, truthy(a)])
        if b == ('const', True):
            return mk_bool('or', [mk_not(c), truthy(a)])
        nc = mk_not(c)
        if key(nc) < key(c):
            c, a, b = nc, b, a
        return ('ite', c, a, b)

    def n_NamedExpr(self, e):
        v = self.norm(e.value)
        self.env[e.target.id] = v
        return v

    # -- calls
    def n_Call(self, e):
        args = tuple(self.norm(a) for a in e.args)
        kwargs = tuple(sorted(
            ((k.arg or '**', self.norm(k.value)) for k in e.keywords),
            key=lambda kv: kv[0],
        ))
        f = e.func
        # a keyword that names the next positional parameter of a known callee is read as that positional argument
        sig = None
        if isinstance(f, ast.Name) and f.id not in self.env:
            sig = SIGNATURES.get(f.id)
        elif isinstance(f, ast.Attribute) and isinstance(f.value, ast.Name) and f.value.id in ('self', 'cls'):
            sig = METHOD_SIGNATURES.get(f.attr)
        elif isinstance(f, ast.Attribute) and isinstance(f.value, ast.Call) and isinstance(f.value.func, ast.Name) and f.value.func.id == 'super':
            sig = METHOD_SIGNATURES.get(f.attr)
        if sig and kwargs and not any(isinstance(a, ast.Starred) for a in e.args) and all(k != '**' for k, _ in kwargs):
            kw = dict(kwargs)
            lst = list(args)
            while len(lst) < len(sig) and sig[len(lst)] in kw:
                lst.append(kw.pop(sig[len(lst)]))
            args = tuple(lst)
            kwargs = tuple(sorted(kw.items(), key=lambda kv: kv[0]))
        if isinstance(f, ast.Name) and f.id not in self.env:
            if MAP_AS_COMPREHENSION and f.id in ('map', 'filter', 'filterfalse') and len(e.args) == 2 and not e.keywords:
                r = self._map_as_comp(f.id, e.args[0], e.args[1])
                if r is not None:
                    return r
            if MAP_AS_COMPREHENSION and f.id == 'list' and len(args) == 1 and not kwargs and args[0][0] == 'comp' and args[0][1] == 'gen':
                return ('comp', 'list') + args[0][2:]
            if f.id in ('min', 'max') and not kwargs and len(args) >= 2:
                return minmax(f.id, args)
            if f.id == 'bool' and len(args) == 1:
                return truthy(args[0])
            if self.call_hook is not None:
                r = self.call_hook(f.id, args, kwargs)
                if r is not None:
                    return r
            return ('call', f.id, args, kwargs)
        if isinstance(f, ast.Attribute):
            recv = self.norm(f.value)
            return ('mcall', recv, f.attr, args, kwargs)
        return ('callx', self.norm(f), args, kwargs)

    # -- map / filter over one iterable are read as the generator expression they abbreviate
    def _apply(self, fexpr, arg):
        """term of ``fexpr(arg)`` when the function expression has a known meaning, else None"""
        if isinstance(fexpr, ast.Lambda) and len(fexpr.args.args) == 1 and not fexpr.args.defaults:
            name = fexpr.args.args[0].arg
            old = self.env.get(name)
            self.env[name] = arg
            try:
                return self.norm(fexpr.body)
            finally:
                if old is None:
                    self.env.pop(name, None)
                else:
                    self.env[name] = old
        if isinstance(fexpr, ast.Name) and fexpr.id not in self.env:
            if fexpr.id == 'bool':
                return truthy(arg)
            return ('call', fexpr.id, (arg,), ())
        if isinstance(fexpr, ast.Attribute):
            if fexpr.attr == '__getitem__':
                return ('sub', self.norm(fexpr.value), arg)
            if fexpr.attr == '__contains__':
                return cmp('In', arg, self.norm(fexpr.value))
            if isinstance(fexpr.value, ast.Name) and fexpr.value.id in ('list', 'str', 'dict', 'set', 'tuple', 'deque') and fexpr.value.id not in self.env:
                return ('mcall', arg, fexpr.attr, (), ())
            return ('mcall', self.norm(fexpr.value), fexpr.attr, (arg,), ())
        if isinstance(fexpr, ast.Call) and isinstance(fexpr.func, ast.Name) and fexpr.func.id == 'partial' and fexpr.args and 'partial' not in self.env:
            g = fexpr.args[0]
            pre = [self.norm(a) for a in fexpr.args[1:]]
            kw = tuple(sorted(((k.arg or '**', self.norm(k.value)) for k in fexpr.keywords), key=lambda kv: kv[0]))
            if isinstance(g, ast.Name) and g.id not in self.env and len(pre) == 1 and not kw:
                a = pre[0]
                table = {'getitem': lambda: ('sub', a, arg), 'eq': lambda: cmp('Eq', a, arg), 'ne': lambda: cmp('NotEq', a, arg),
                         'is_': lambda: cmp('Is', a, arg), 'is_not': lambda: cmp('IsNot', a, arg), 'contains': lambda: cmp('In', arg, a),
                         'lt': lambda: cmp('Lt', a, arg), 'le': lambda: cmp('LtE', a, arg), 'gt': lambda: cmp('Gt', a, arg), 'ge': lambda: cmp('GtE', a, arg)}
                if g.id in table:
                    return table[g.id]()
            if isinstance(g, ast.Name) and g.id not in self.env:
                return ('call', g.id, tuple(pre) + (arg,), kw)
            if isinstance(g, ast.Attribute):
                return ('mcall', self.norm(g.value), g.attr, tuple(pre) + (arg,), kw)
        return None

    def _map_as_comp(self, which, fexpr, iterable):
        it = self.norm(iterable)
        base = self._bound
        var = ('bound', self._bound)
        self._bound += 1
        try:
            if which == 'map':
                body = self._apply(fexpr, var)
                conds = ()
            else:
                body = var
                c = var if (isinstance(fexpr, ast.Constant) and fexpr.value is None) else self._apply(fexpr, var)
                conds = ((truthy(c) if which == 'filter' else mk_not(truthy(c))),) if c is not None else None
        finally:
            self._bound = base
        if body is None or conds is None:
            return None
        return _rebase(('comp', 'gen', (body,), ((var, it, conds),)), base)

    # -- binders
    def _bind(self, names):
        saved = {n: self.env.get(n) for n in names}
        for n in names:
            self.env[n] = ('bound', self._bound)
            self._bound += 1
        return saved

    def _unbind(self, saved):
        for n, v in saved.items():
            if v is None:
                self.env.pop(n, None)
            else:
                self.env[n] = v

    def n_Lambda(self, e):
        names = [a.arg for a in e.args.args]
        base = self._bound
        saved = self._bind(names)
        body = self.norm(e.body)
        self._unbind(saved)
        self._bound = base
        return ('lambda', len(names), _rebase(body, base))

    def _comp(self, kind, e, elts):
        base = self._bound
        saved_all = []
        gens = []
        for g in e.generators:
            it = self.norm(g.iter)
            names = [n.id for n in ast.walk(g.target) if isinstance(n, ast.Name)]
            saved_all.append(self._bind(names))
            tgt = self.norm(g.target)
            ifs = tuple(truthy(self.norm(i)) for i in g.ifs)
            gens.append((tgt, it, ifs))
        body = tuple(self.norm(x) for x in elts)
        for s in reversed(saved_all):
            self._unbind(s)
        self._bound = base
        return _rebase(('comp', kind, body, tuple(gens)), base)

    def n_ListComp(self, e):
        return self._comp('list', e, [e.elt])

    def n_SetComp(self, e):
        return self._comp('set', e, [e.elt])

    def n_GeneratorExp(self, e):
        return self._comp('gen', e, [e.elt])

    def n_DictComp(self, e):
        return self._comp('dict', e, [e.key, e.value])


def _rebase(t, base):
    """renumber ('bound', i) so a binder's numbering does not depend on depth"""
    if not isinstance(t, tuple):
        return t
    if t and t[0] == 'bound' and len(t) == 2 and isinstance(t[1], int):
        return ('bound', t[1] - base) if t[1] >= base else t
    return tuple(_rebase(x, base) for x in t)


def _seqish(t):
    return t[0] in ('tuple', 'list', 'repeat', 'concat') or (
        t[0] == 'const' and isinstance(t[1], str))


def minmax(op: str, args) -> Term:
    flat = []
    for a in args:
        if a[0] == op:
            flat.extend(a[1])
        else:
            flat.append(a)
    out = []
    for a in flat:
        if a not in out:
            out.append(a)
    if len(out) == 1:
        return out[0]
    return (op, tuple(sorted(out, key=key)))


# ----------------------------------------------------------------- utilities
def norm(e, env=None, **kw) -> Term:
    return Normaliser(env, **kw).norm(e)


def cond(e, env=None, **kw) -> Term:
    return Normaliser(env, **kw).cond(e)


def spec(src: str, binds: dict | None = None, boolean: bool = False, **kw) -> Term:
    """normalise a spec formula written as a Python expression string;
    ``binds`` maps metavariable names to terms (or to expression strings)."""
    env = {}
    for k, v in (binds or {}).items():
        env[k] = spec(v) if isinstance(v, str) else v
    n = Normaliser(env, **kw)
    e = ast.parse(src, mode='eval').body
    return n.cond(e) if boolean else n.norm(e)


def subst(t, mapping: dict):
    """replace sub-terms (exact match) by others and restore canonical order"""
    return resort(_subst(t, mapping))


def _subst(t, mapping: dict):
    if t in mapping:
        return mapping[t]
    if not isinstance(t, tuple):
        return t
    return tuple(_subst(x, mapping) for x in t)


def resort(t):
    """re-establish the canonical order of commutative nodes after a substitution"""
    if not isinstance(t, tuple) or not t or not isinstance(t[0], str):
        if isinstance(t, tuple):
            return tuple(resort(x) for x in t)
        return t
    h = t[0]
    if h in ('eq', 'ne', 'is', 'isnot') and len(t) == 2 and isinstance(t[1], tuple) and len(t[1]) == 2:
        a, b = resort(t[1][0]), resort(t[1][1])
        return (h, _pair(a, b))
    if h in ('and', 'or') and len(t) == 2:
        return mk_bool(h, [resort(x) for x in t[1]])
    if h in ('min', 'max') and len(t) == 2:
        return minmax(h, tuple(resort(x) for x in t[1]))
    if h == 'lin' and len(t) == 3:
        out = ('num', t[2])
        for a, c in t[1]:
            out = add(out, scale(resort(a), c))
        return out
    if h == 'mul' and len(t) == 2:
        return ('mul', tuple(sorted((resort(x) for x in t[1]), key=key)))
    if h in ('set', 'bitor', 'bitand') and len(t) == 2:
        return (h, tuple(sorted((resort(x) for x in t[1]), key=key)))
    return tuple(resort(x) if isinstance(x, tuple) else x for x in t)


def subterms(t):
    if isinstance(t, tuple):
        yield t
        for x in t:
            yield from subterms(x)


def mentions(t, pred) -> bool:
    return any(pred(s) for s in subterms(t))


def self_attrs(t) -> set[str]:
    return {s[1] for s in subterms(t)
            if isinstance(s, tuple) and len(s) == 2 and s[0] == 'self'
            and isinstance(s[1], str)}


def root_self_attr(t):
    """first ``self.X`` reached by peeling attribute/subscript/element layers:
    the storage a write through ``t`` lands in (None if it is a fresh value)."""
    while isinstance(t, tuple) and t:
        h = t[0]
        if h in ('self', 'selfv'):
            return t[1]
        if h in ('attr', 'sub', 'elem'):
            t = t[1]
            continue
        return None
    return None


def show(t, depth=0) -> str:
    """compact human-readable rendering of a term"""
    if not isinstance(t, tuple) or not t:
        return repr(t)
    h = t[0]
    s = show
    if not isinstance(h, str):
        return '(' + ', '.join(s(x) if isinstance(x, tuple) else repr(x) for x in t) + ')'
    if h == 'num':
        return str(t[1])
    if h == 'const':
        return repr(t[1])
    if h == 'name':
        return t[1]
    if h == 'bound':
        return f'_{t[1]}'
    if h == 'self':
        return f'self.{t[1]}'
    if h == 'selfv':
        return f"self.{t[1]}'{t[2]}"
    if h == 'attr':
        return f'{s(t[1])}.{t[2]}'
    if h == 'sub':
        return f'{s(t[1])}[{s(t[2])}]'
    if h == 'slice':
        return ':'.join('' if x == ('const', None) else s(x) for x in t[1:])
    if h == 'lin':
        parts = []
        for a, c in t[1]:
            sign = '-' if c < 0 else '+'
            mag = '' if abs(c) == 1 else f'{abs(c)}*'
            parts.append(f'{sign} {mag}{s(a)}')
        if t[2]:
            parts.append(f'{"-" if t[2] < 0 else "+"} {abs(t[2])}')
        r = ' '.join(parts)
        return '(' + (r[2:] if r.startswith('+ ') else r) + ')'
    if h == 'mul':
        return '*'.join(s(x) for x in t[1])
    if h in ('min', 'max'):
        return f'{h}({", ".join(s(x) for x in t[1])})'
    if h in ('and', 'or'):
        return '(' + f' {h} '.join(s(x) for x in t[1]) + ')'
    if h == 'not':
        return f'not {s(t[1])}'
    if h == 'lt':
        return f'{s(t[1])} < {s(t[2])}'
    if h == 'le':
        return f'{s(t[1])} <= {s(t[2])}'
    if h in ('eq', 'ne', 'is', 'isnot'):
        op = {'eq': '==', 'ne': '!=', 'is': 'is', 'isnot': 'is not'}[h]
        return f'{s(t[1][0])} {op} {s(t[1][1])}'
    if h in ('in', 'notin'):
        return f'{s(t[1])} {"in" if h == "in" else "not in"} {s(t[2])}'
    if h == 'ite':
        return f'({s(t[2])} if {s(t[1])} else {s(t[3])})'
    if h == 'call':
        a = [s(x) for x in t[2]] + [f'{k}={s(v)}' for k, v in t[3]]
        return f'{t[1]}({", ".join(a)})'
    if h == 'mcall':
        a = [s(x) for x in t[3]] + [f'{k}={s(v)}' for k, v in t[4]]
        return f'{s(t[1])}.{t[2]}({", ".join(a)})'
    if h in ('tuple', 'list', 'set'):
        return h[0] + '(' + ', '.join(s(x) for x in t[1]) + ')'
    if h == 'elem':
        return f'elem<{s(t[1])}>'
    if h == 'proj':
        return f'{s(t[1])}#{t[2]}'
    if h == 'opaque':
        return t[1]
    if h == 'lambda':
        return f'lambda/{t[1]}: {s(t[2])}'
    return h + '(' + ', '.join(s(x) if isinstance(x, tuple) else repr(x) for x in t[1:]) + ')'


# ------------------------------------------------------- alpha-equivalence
_COMM_TUPLE = {'and', 'or', 'min', 'max', 'set', 'bitor', 'bitand', 'mul'}
_COMM_PAIR = {'eq', 'ne', 'is', 'isnot'}


def alpha_eq(a, b, is_var, mapping=None) -> bool:
    """are terms a and b equal up to a consistent (bijective) renaming of the
    names for which ``is_var(name)`` holds?  Commutative nodes are matched up
    to permutation (their canonical order depends on the names)."""
    for _ in _unify(a, b, dict(mapping or {}), {}, is_var):
        return True
    return False


def alpha_match(a, b, is_var):
    """the first consistent renaming (dict b-name -> a-name) or None"""
    for m, _ in _unify(a, b, {}, {}, is_var):
        return m
    return None


def _unify(a, b, m, inv, is_var):
    if not isinstance(a, tuple) or not isinstance(b, tuple):
        if a == b:
            yield m, inv
        return
    if a and b and a[0] == 'name' and b[0] == 'name' and len(a) == 2 and len(b) == 2:
        va, vb = is_var(a[1]), is_var(b[1])
        if va and vb:
            if m.get(b[1], a[1]) == a[1] and inv.get(a[1], b[1]) == b[1]:
                m2, i2 = dict(m), dict(inv)
                m2[b[1]] = a[1]
                i2[a[1]] = b[1]
                yield m2, i2
            return
        if a == b:
            yield m, inv
        return
    if len(a) != len(b) or (a and b and isinstance(a[0], str) and a[0] != b[0]):
        if not (a and b and not isinstance(a[0], str) and not isinstance(b[0], str) and len(a) == len(b)):
            return
    h = a[0] if a and isinstance(a[0], str) else None
    if h == 'call' and len(a) == 4 and len(b) == 4 and isinstance(a[1], str) and isinstance(b[1], str) and a[1] != b[1]:
        # the callee is named by a string: a local variable holding a function is renamable like any other local
        if is_var(a[1]) and is_var(b[1]):
            for m2, i2 in _unify(('name', a[1]), ('name', b[1]), m, inv, is_var):
                yield from _unify_seq(list(a[2:]), list(b[2:]), m2, i2, is_var)
        return
    if h in _COMM_TUPLE and len(a) == 2 and isinstance(a[1], tuple) and isinstance(b[1], tuple):
        yield from _unify_multiset(list(a[1]), list(b[1]), m, inv, is_var)
        return
    if h in _COMM_PAIR and len(a) == 2 and isinstance(a[1], tuple) and len(a[1]) == 2 and isinstance(b[1], tuple) and len(b[1]) == 2:
        yield from _unify_multiset(list(a[1]), list(b[1]), m, inv, is_var)
        return
    if h == 'lin' and len(a) == 3:
        if a[2] != b[2] or len(a[1]) != len(b[1]):
            return
        xs = [('#c', c, t) for t, c in a[1]]
        ys = [('#c', c, t) for t, c in b[1]]
        yield from _unify_multiset(xs, ys, m, inv, is_var)
        return
    yield from _unify_seq(list(a), list(b), m, inv, is_var)


def _unify_seq(xs, ys, m, inv, is_var):
    if len(xs) != len(ys):
        return
    if not xs:
        yield m, inv
        return
    for m2, i2 in _unify(xs[0], ys[0], m, inv, is_var):
        yield from _unify_seq(xs[1:], ys[1:], m2, i2, is_var)


def _unify_multiset(xs, ys, m, inv, is_var):
    if len(xs) != len(ys):
        return
    if not xs:
        yield m, inv
        return
    if len(xs) > 7:
        yield from _unify_seq(xs, ys, m, inv, is_var)
        return
    x = xs[0]
    for k, y in enumerate(ys):
        for m2, i2 in _unify(x, y, m, inv, is_var):
            yield from _unify_multiset(xs[1:], ys[:k] + ys[k + 1:], m2, i2, is_var)


def under(t: Term, assumptions) -> Term:
    """``t`` as it reads on a path that assumes ``assumptions``: conjuncts that are assumed drop out, a conjunct whose negation is assumed
    makes a conjunction false (dually for disjunctions) - so ``a and b`` equals ``b`` where a was tested, ``False`` where not a was"""
    known = set(assumptions)
    if t in known:
        return ('const', True)
    if mk_not(t) in known:
        return ('const', False)
    if t[0] in ('and', 'or'):
        parts = [under(x, known) for x in t[1]]
        return mk_bool(t[0], parts) if not any(p == ('const', t[0] == 'or') for p in parts) else ('const', t[0] == 'or')
    if t[0] == 'ite' and len(t) == 4:
        if t[1] in known:
            return under(t[2], known)
        if mk_not(t[1]) in known:
            return under(t[3], known)
    if isinstance(t, tuple):
        return resort(tuple(under(x, known) if isinstance(x, tuple) and x and isinstance(x[0], str) else
                            (tuple(under(y, known) if isinstance(y, tuple) and y and isinstance(y[0], str) else y for y in x) if isinstance(x, tuple) else x)
                            for x in t))
    return t
