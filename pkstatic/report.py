"""Obligation bookkeeping, evidence files, known findings, exit codes."""
from __future__ import annotations

import json
import os
import sys
import time
from dataclasses import dataclass, field

from .model import AnalysisError, Program

VERIF = os.path.dirname(os.path.dirname(os.path.abspath(__file__)))
EVIDENCE_DIR = os.path.join(VERIF, 'evidence')
REPLAY_DIR = os.path.join(EVIDENCE_DIR, 'replay')
KNOWN_FILE = os.path.join(VERIF, 'known_findings.txt')


@dataclass
class Obligation:
    rule: str
    construct: str
    ok: bool
    loc: str
    detail: str
    got: str = ''
    want: str = ''

    def key(self):
        return (self.rule, self.construct)

    def as_dict(self):
        d = {'rule': self.rule, 'construct': self.construct, 'loc': self.loc,
             'ok': self.ok, 'detail': self.detail}
        if self.got or self.want:
            d['got'] = self.got
            d['want'] = self.want
        return d


def load_known() -> tuple[dict, list]:
    """known: property=<ID> rule=<rule> construct=<qualname> <text>
       fixed: property=<ID> <commit> <text>     (suppresses nothing)"""
    known, fixed = {}, []
    if not os.path.exists(KNOWN_FILE):
        return known, fixed
    with open(KNOWN_FILE, encoding='utf-8') as fp:
        for line in fp:
            line = line.strip()
            if not line or line.startswith('#'):
                continue
            if line.startswith('known:'):
                parts = line[len('known:'):].split()
                kv = dict(x.split('=', 1) for x in parts[:3] if '=' in x)
                text = ' '.join(parts[3:])
                known[(kv.get('property'), kv.get('rule'), kv.get('construct'))] = text
            elif line.startswith('fixed:'):
                fixed.append(line)
    return known, fixed


def _baseline() -> dict:
    """instance counts per rule confirmed on the reference tree (tools/gen_baseline.py): a rule that finds fewer
    instances than that has lost its anchor - the run fails as analysis-broken instead of passing vacuously"""
    path = os.path.join(VERIF, 'pkstatic', 'baseline_counts.json')
    try:
        with open(path, encoding='utf-8') as fp:
            return json.load(fp)
    except OSError:
        return {}


class Check:
    """collects obligations for one property and one tier"""

    def __init__(self, pid: str, tier: str, prog: Program):
        self.pid = pid
        self.tier = tier
        self.prog = prog
        self.obs: list[Obligation] = []
        self.t0 = time.time()
        self.instances: dict[str, int] = {}
        self.floors: dict[str, int] = {}
        self.notes: list[str] = []
        self.assumptions: list[str] = [
            'python is dynamic: subclassing State, monkey-patching and stateful divmod/rake callbacks are outside the model',
            'assert statements are stated beliefs, never enforcement',
            'the analysis reads the working tree of /repo/pokerkit; nothing is imported or executed',
        ]
        self.analysed: dict = {}
        self.extra: dict = {}

    # -- recording
    def ob(self, rule, construct, ok, loc, detail, got='', want=''):
        self.obs.append(Obligation(rule, construct, bool(ok), loc, detail, str(got), str(want)))
        self.instances[rule] = self.instances.get(rule, 0) + 1
        return bool(ok)

    def undecided(self, rule, construct, loc, why):
        """the construct is written in an idiom the rule does not recognise:
        neither discharged nor violated; it does not count towards the floor,
        so an instance confirmed today that becomes undecidable fails the run
        as analysis-broken (exit 2), never as a violation and never silently."""
        self.notes.append(f'UNDECIDED {rule} {construct} at {loc}: {why}')

    def floor(self, rule: str, n: int) -> None:
        """vacuity guard: the rule must have matched at least n instances"""
        self.floors[rule] = n

    def note(self, text: str) -> None:
        self.notes.append(text)

    def assume(self, text: str) -> None:
        if text not in self.assumptions:
            self.assumptions.append(text)

    def effective_floors(self) -> dict:
        floors = dict(self.floors)
        for rule, n in _baseline().get(self.pid, {}).items():
            floors[rule] = max(floors.get(rule, 0), n)
        for rule in getattr(self, 'skipped_rules', ()):
            floors.pop(rule, None)        # (re-filed clauses of another property that could not be evaluated: see rules/helpers.foreign)
        return floors

    # -- finishing
    def finish(self) -> int:
        known, _fixed = load_known()
        bad = [o for o in self.obs if not o.ok]
        if not [o for o in bad if (self.pid, o.rule, o.construct) not in known]:
            # vacuity guard (only when nothing is reported anyway: a real finding is never hidden behind it)
            for rule, n in self.effective_floors().items():
                got = self.instances.get(rule, 0)
                if got < n:
                    raise AnalysisError(
                        f'rule {rule} matched {got} instances, fewer than the {n} confirmed by hand: '
                        'the code moved out from under the rule (anchor vanished)')
        violations, knowns = [], []
        for o in bad:
            k = (self.pid, o.rule, o.construct)
            if k in known:
                knowns.append((o, known[k]))
            else:
                violations.append(o)
        evidence_dir = EVIDENCE_DIR
        replay_dir = REPLAY_DIR
        if os.path.realpath(self.prog.repo) != os.path.realpath('/repo') or os.environ.get('PKSTATIC_NO_EVIDENCE'):
            # analysing a scratch copy (self-test variant, seeded change): never touch the real evidence
            import tempfile
            evidence_dir = os.path.join(tempfile.gettempdir(), f'pkstatic-scratch-{os.getpid()}')
            replay_dir = os.path.join(evidence_dir, 'replay')
        os.makedirs(evidence_dir, exist_ok=True)
        wall = time.time() - self.t0
        rules = sorted(self.instances)
        samples = [o.as_dict() for o in self._sample()]
        cov = {
            'explanation': (
                f'static analysis (ast) of /repo/pokerkit: {len(self.obs)} obligations over '
                f'{len(rules)} rules; each obligation is a structural clause that is a necessary '
                'condition of the property; see DESIGN.md section 3 for what is and is not decided'),
            'obligations': len(self.obs),
            'discharged': len(self.obs) - len(bad),
            'rule': 'one obligation per (rule, construct) instance discovered in the source by role; '
                    'vacuity floors per rule: ' + json.dumps(self.floors, sort_keys=True),
            'rules': {r: self.instances[r] for r in rules},
            'samples': samples,
            'analysed': dict(self.analysed, digests=self.prog.digest(), **self.prog.stats()),
            'known_findings': [f'{o.rule} {o.construct}' for o, _ in knowns],
            'notes': self.notes,
            'exhaustive': True,
        }
        cov.update(self.extra)
        ev = {
            'property_id': self.pid,
            'tier': self.tier,
            'seed': int(os.environ.get('VERIF_SEED', '0') or 0),
            'level': 'other',
            'coverage': cov,
            'assumptions': self.assumptions,
            'wall_s': round(wall, 3),
            'violations': len(violations),
        }
        with open(os.path.join(evidence_dir, f'{self.pid}.json'), 'w', encoding='utf-8') as fp:
            json.dump(ev, fp, indent=1, sort_keys=True)
            fp.write('\n')
        for o, text in knowns:
            print(f'KNOWN-FINDING: property={self.pid} rule={o.rule} construct={o.construct} {text}')
        print(f'{self.pid} [{self.tier}] obligations={len(self.obs)} discharged={len(self.obs) - len(bad)} '
              f'rules={len(rules)} known={len(knowns)} violations={len(violations)} wall={wall:.2f}s')
        if violations:
            os.makedirs(replay_dir, exist_ok=True)
            path = os.path.join(replay_dir, f'{self.pid}.json')
            with open(path, 'w', encoding='utf-8') as fp:
                json.dump({'property_id': self.pid, 'tier': self.tier,
                           'violations': [o.as_dict() for o in violations]}, fp, indent=1)
            for o in violations:
                print(f'  FAIL {o.rule} {o.construct} at {o.loc}: {o.detail}')
                if o.got or o.want:
                    print(f'       got : {o.got}\n       want: {o.want}')
            print(f'VIOLATION property={self.pid} replay={path}')
            self._cleanup(evidence_dir)
            return 1
        self._cleanup(evidence_dir)
        return 0

    @staticmethod
    def _cleanup(evidence_dir):
        if evidence_dir != EVIDENCE_DIR:
            import shutil
            shutil.rmtree(evidence_dir, ignore_errors=True)

    def _sample(self):
        seen, out = set(), []
        for o in self.obs:           # every failing one, then one per rule
            if not o.ok:
                out.append(o)
        for o in self.obs:
            if o.rule not in seen and o.ok:
                seen.add(o.rule)
                out.append(o)
        return out[:60]


def explain(path: str) -> int:
    with open(path, encoding='utf-8') as fp:
        d = json.load(fp)
    print(f"property {d['property_id']} ({d['tier']}): {len(d['violations'])} violation(s)")
    for v in d['violations']:
        print(f"- rule {v['rule']}  construct {v['construct']}  at {v['loc']}\n    {v['detail']}")
        if v.get('got') or v.get('want'):
            print(f"    got : {v.get('got')}\n    want: {v.get('want')}")
    return 0
