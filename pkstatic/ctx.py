"""Shared analysis context: program model + effects + cached path walks."""
from __future__ import annotations

import ast

from .effects import Effects
from .model import AnalysisError, FuncInfo, Program, loc, stmt_text
from .paths import Path, Walker


class Ctx:
    def __init__(self, repo: str | None = None, tier: str = 'quick'):
        self.prog = Program(repo)
        self.tier = tier
        self.depth = 2 if tier == 'quick' else 4
        self.state = self.prog.cls('State')
        self.eff = Effects(self.prog, self.state)
        self._paths: dict = {}
        self.touched: dict = {}
        from .match import Matcher
        self.m = Matcher(self.prog)

    def fi(self, qualname: str) -> FuncInfo:
        return self.prog.func(qualname)

    def sfi(self, name: str) -> FuncInfo:
        """method of State"""
        if name not in self.state.methods:
            raise AnalysisError(f'anchor State.{name} vanished')
        self.touched[self.state.methods[name].qualname] = self.state.methods[name]
        return self.state.methods[name]

    def paths(self, fi: FuncInfo, **kw) -> list[Path]:
        self.touched[fi.qualname] = fi
        k = (fi.qualname, tuple(sorted((a, repr(b)) for a, b in kw.items() if a != 'inline_attr')), id(kw.get('inline_attr')))
        if k not in self._paths:
            modstar = self.eff.mod if fi.cls is self.state else {}
            self._paths[k] = Walker(fi.node, modstar=modstar, **kw).run()
        return self._paths[k]

    def definite_assignment(self, chk) -> None:
        """<PID>.defined: one obligation per function the property's rules analysed (see defined.py)"""
        from .defined import undefined_reads
        import json
        import os
        names = {}
        # the functions the property is anchored in (frozen by name from the anchors of properties.jsonl) are in scope too
        try:
            with open(os.path.join(os.path.dirname(os.path.abspath(__file__)), 'anchored_functions.json'), encoding='utf-8') as fp:
                anchored = json.load(fp).get(chk.pid, [])
        except OSError:
            anchored = []
        gone = []
        for ref in anchored:
            mod, _, qn = ref.partition(':')
            mi = self.prog.modules.get(mod)
            fi = None
            if mi is not None:
                if '.' in qn:
                    cn, _, fn = qn.partition('.')
                    ci = mi.classes.get(cn)
                    fi = ci.methods.get(fn) if ci is not None else None
                else:
                    fi = mi.functions.get(qn)
            if fi is None:
                gone.append(ref)
            else:
                self.touched.setdefault(fi.qualname, fi)
        if gone:
            chk.note('anchored functions no longer present under that name (not in the scope of <PID>.defined): ' + ', '.join(gone))
        # ... and so are the private helpers they do their work with (self._h() / cls._h() / module-level _h(), two calls deep)
        frontier = list(self.touched.values())
        for _ in range(2):
            nxt = []
            for fi in frontier:
                ci = fi.cls
                mi = self.prog.modules[fi.module]
                for n in ast.walk(fi.node):
                    if not isinstance(n, ast.Call):
                        continue
                    tgt = None
                    f = n.func
                    if isinstance(f, ast.Attribute) and isinstance(f.value, ast.Name) and f.value.id in ('self', 'cls') and ci is not None \
                            and f.attr.startswith('_') and not f.attr.startswith('__'):
                        tgt = self.prog.resolve_method(ci, f.attr)
                    elif isinstance(f, ast.Name) and f.id.startswith('_') and f.id in mi.functions:
                        tgt = mi.functions[f.id]
                    if tgt is not None and hasattr(tgt, 'qualname') and tgt.qualname not in self.touched:
                        self.touched[tgt.qualname] = tgt
                        nxt.append(tgt)
            frontier = nxt
        for qn, fi in sorted(self.touched.items()):
            mi = self.prog.modules[fi.module]
            if fi.module not in names:
                g = set(mi.imports) | set(mi.functions) | set(mi.classes) | {k for k in mi.assigns if '.' not in k}
                for st in mi.tree.body:
                    for n in ast.walk(st) if not isinstance(st, (ast.FunctionDef, ast.ClassDef)) else ():
                        if isinstance(n, ast.Name) and isinstance(n.ctx, ast.Store):
                            g.add(n.id)
                        elif isinstance(n, (ast.Import, ast.ImportFrom)):
                            g |= {(al.asname or al.name).split('.')[0] for al in n.names}
                names[fi.module] = g
            enclosing = ()
            bad = undefined_reads(fi.node, names[fi.module], enclosing)
            from .defined import swapped_arguments
            sw = swapped_arguments(self.prog, mi, fi.cls, fi.node)
            from .defined import mutable_defaults
            sw = list(sw) + mutable_defaults(fi.node)
            from .defined import oneshot_params
            sw = sw + oneshot_params(fi.node)
            chk.ob(f'{chk.pid}.arguments', qn, not sw, loc(fi, sw[0][0]) if sw else loc(fi, fi.node),
                   'arguments passed by name to a callee of the package sit in the positions of the parameters of the same name (no two swapped); '
                   'no parameter defaults to a mutable object (it would be shared between calls, hands and instances); a parameter that may be a '
                   'one-shot iterator is materialised before it is read twice or in a loop',
                   got='; '.join(w for _, w in sw[:2]) if sw else '')
            if True:
                kw = _known_writes().get(f'{fi.module}:{qn}')
                if kw is not None:
                    from .defined import written_attrs
                    now = written_attrs(fi.node, names[fi.module])
                    kw = {k: v for k, v in kw.items() if not k.startswith('<')}
                    new = sorted(a for a in now if a not in kw)
                    more = sorted(f'{a}: {now[a]} writing sites, {kw[a]} when reviewed' for a in now if a in kw and now[a] > kw[a])
                    where = fi.node
                    for a in new or [m.split(':')[0] for m in more]:
                        for n in ast.walk(fi.node):
                            if isinstance(n, ast.Attribute) and n.attr == a and isinstance(n.value, ast.Name) and n.value.id in ('self', 'cls'):
                                where = n
                        break
                    new = new + more
                    chk.ob(f'{chk.pid}.writers', qn, not new, loc(fi, where),
                           'the function writes the attributes it wrote when the rules were written, at no more places: a new write is a side effect '
                           '(a second writer of a field the phase logic owns, a cache that can go stale, a value overridden after it was set as '
                           'prescribed) that no clause of the property accounts for',
                           got=new or '')
            dyn = _dynamic(self.prog, fi)
            chk.ob(f'{chk.pid}.static', qn, not dyn, loc(fi, dyn[0][0]) if dyn else loc(fi, fi.node),
                   'the function runs when and as its body says: no decorator beyond the plain ones of the code base (a cache answers from '
                   'an earlier state; a wrapper runs other code), and its class has no hook that reroutes attribute access or rewrites class '
                   'attributes (__getattr__, __setattr__, __init_subclass__, a metaclass)', got='; '.join(w for _, w in dyn[:3]) if dyn else '')
            chk.ob(f'{chk.pid}.defined', qn, not bad, loc(fi, bad[0][1]) if bad else loc(fi, fi.node),
                   'every name the function reads is bound on the way: nothing is read that no statement defines, and a local bound '
                   'in a try body is also bound by each handler that falls through to its use (no NameError part-way)',
                   got='; '.join(f'{n}: {why}' for n, _, why in bad[:4]) if bad else '')

    def loc(self, fi: FuncInfo, node: ast.AST | None = None) -> str:
        return loc(fi, node if node is not None else fi.node)

    # -- role discovery on State ------------------------------------------
    def state_methods(self):
        return self.state.methods

    def properties(self):
        return {n: f for n, f in self.state.methods.items() if f.is_property}

    def triples(self):
        """discover (operation, verifier, query) triples by role: a ``can_*``
        whose body is one ``try: self.verify_*(...)`` returning constants, and
        the public non-property method that calls the same verifier."""
        out = []
        ms = self.state.methods
        for name, f in ms.items():
            if not name.startswith('can_'):
                continue
            trys = [s for s in f.body if isinstance(s, ast.Try)]
            if len(trys) != 1:
                continue
            vcalls = [n for s in trys[0].body for n in ast.walk(s)
                      if isinstance(n, ast.Call) and isinstance(n.func, ast.Attribute)
                      and isinstance(n.func.value, ast.Name) and n.func.value.id == 'self'
                      and n.func.attr.startswith('verify_')]
            if len(vcalls) != 1:
                continue
            v = vcalls[0].func.attr
            ops = []
            for on, of in ms.items():
                if on.startswith(('can_', 'verify_', '_')) or of.is_property:
                    continue
                for n in ast.walk(of.node):
                    if isinstance(n, ast.Call) and isinstance(n.func, ast.Attribute) \
                            and isinstance(n.func.value, ast.Name) and n.func.value.id == 'self' \
                            and n.func.attr == v:
                        ops.append(on)
                        break
            out.append((ops, v, name))
        return out


__all__ = ['Ctx', 'stmt_text']


PLAIN_DECORATORS = {'abstractmethod', 'classmethod', 'staticmethod', 'property', 'dataclass', 'total_ordering', 'unique', 'overload', 'override'}
CLASS_HOOKS = {'__init_subclass__', '__getattr__', '__getattribute__', '__setattr__', '__delattr__', '__set_name__', '__class_getitem__',
               '__prepare__', '__instancecheck__', '__subclasscheck__', '__new__'}


def _dynamic(prog, fi):
    """[(node, message)]: decorators outside the closed set of the code base on the function, rerouting hooks on its class (and bases)"""
    out = []
    for d in fi.node.decorator_list:
        head = d.func if isinstance(d, ast.Call) else d
        name = head.id if isinstance(head, ast.Name) else head.attr if isinstance(head, ast.Attribute) else ast.unparse(head)
        if name in PLAIN_DECORATORS or (isinstance(head, ast.Attribute) and head.attr in ('setter', 'getter', 'deleter')):
            continue
        out.append((d, f'decorator @{ast.unparse(d)}'))
    ci = fi.cls
    if ci is not None:
        for c in prog.mro(ci):
            for h in CLASS_HOOKS & set(c.methods):
                out.append((c.methods[h].node, f'{c.name}.{h}'))
            if any(k.arg == 'metaclass' for k in c.node.keywords):
                out.append((c.node, f'{c.name} has a metaclass'))
            for d in c.decorators:
                head = d.func if isinstance(d, ast.Call) else d
                name = head.id if isinstance(head, ast.Name) else head.attr if isinstance(head, ast.Attribute) else ast.unparse(head)
                if name not in PLAIN_DECORATORS:
                    out.append((d, f'class decorator @{ast.unparse(d)} on {c.name}'))
    return out


_KW = None


def _known_writes() -> dict:
    global _KW
    if _KW is None:
        import json
        import os
        try:
            with open(os.path.join(os.path.dirname(os.path.abspath(__file__)), 'known_writes.json'), encoding='utf-8') as fp:
                _KW = json.load(fp)
        except OSError:
            _KW = {}
    return _KW
