"""Whole-package behaviour-preserving AST transformations used by the checker self-test:
every check must stay silent on the transformed sources (rename of every local variable,
flipped comparison orientation, swapped if/else branches, all of them together)."""
from __future__ import annotations

import ast

MODS = ('utilities', 'lookups', 'hands', 'state', 'games', 'notation', 'analysis')


class RenameLocals(ast.NodeTransformer):
    """rename every local variable of every function (not parameters, not names used by nested defs/globals)"""

    def visit_FunctionDef(self, node):
        self.generic_visit(node)
        params = {a.arg for a in node.args.posonlyargs + node.args.args + node.args.kwonlyargs}
        if node.args.vararg:
            params.add(node.args.vararg.arg)
        if node.args.kwarg:
            params.add(node.args.kwarg.arg)
        nested_free = set()
        for n in ast.walk(node):
            if n is not node and isinstance(n, (ast.FunctionDef, ast.Lambda)):
                for m in ast.walk(n):
                    if isinstance(m, ast.Name):
                        nested_free.add(m.id)
            if isinstance(n, (ast.Nonlocal, ast.Global)):
                nested_free |= set(n.names)
        stored = set()
        for n in ast.walk(node):
            if isinstance(n, ast.Name) and isinstance(n.ctx, ast.Store):
                stored.add(n.id)
            if isinstance(n, ast.ExceptHandler) and n.name:
                pass
            if isinstance(n, ast.MatchAs) and n.name:
                nested_free.add(n.name)
            if isinstance(n, ast.MatchStar) and n.name:
                nested_free.add(n.name)
        # names of nested function defs stay
        for n in ast.walk(node):
            if n is not node and isinstance(n, ast.FunctionDef):
                nested_free.add(n.name)
        targets = {s for s in stored if s not in params and s not in nested_free and not s.startswith('__') and s != '_'}
        if not targets:
            return node

        class R(ast.NodeTransformer):
            def visit_Name(self, n):
                if n.id in targets:
                    return ast.copy_location(ast.Name(id=n.id + '_r', ctx=n.ctx), n)
                return n

            def visit_FunctionDef(self, n):
                return n if n is not node else self.generic_visit(n)

            def visit_Lambda(self, n):
                return n
        R().visit(node)
        return node


class FlipCompare(ast.NodeTransformer):
    """a < b -> b > a ; a <= b -> b >= a ; a == b -> b == a (single comparisons)"""
    MAP = {ast.Lt: ast.Gt, ast.Gt: ast.Lt, ast.LtE: ast.GtE, ast.GtE: ast.LtE, ast.Eq: ast.Eq, ast.NotEq: ast.NotEq}

    def visit_Compare(self, node):
        self.generic_visit(node)
        if len(node.ops) == 1 and type(node.ops[0]) in self.MAP:
            return ast.copy_location(ast.Compare(left=node.comparators[0], ops=[self.MAP[type(node.ops[0])]()], comparators=[node.left]), node)
        return node


class SwapIf(ast.NodeTransformer):
    """if c: A else: B  ->  if not c: B else: A   (only plain if/else, no elif)"""

    def visit_If(self, node):
        self.generic_visit(node)
        if node.orelse and not (len(node.orelse) == 1 and isinstance(node.orelse[0], ast.If)):
            return ast.copy_location(ast.If(test=ast.UnaryOp(op=ast.Not(), operand=node.test), body=node.orelse, orelse=node.body), node)
        return node


class AugExpand(ast.NodeTransformer):
    """x += e  ->  x = x + e   (also -=), for any target"""

    def visit_AugAssign(self, node):
        self.generic_visit(node)
        if isinstance(node.op, (ast.Add, ast.Sub)):
            import copy
            load = copy.deepcopy(node.target)
            for n in ast.walk(load):
                if hasattr(n, 'ctx'):
                    n.ctx = ast.Load()
            return ast.copy_location(ast.Assign(targets=[node.target], value=ast.BinOp(left=load, op=node.op, right=node.value)), node)
        return node


def _names(node, ctx_type):
    return {ast.unparse(n) for n in ast.walk(node) if isinstance(n, (ast.Name, ast.Attribute, ast.Subscript)) and isinstance(getattr(n, 'ctx', None), ctx_type)}


class Reorder(ast.NodeTransformer):
    """swap two adjacent simple assignments that are independent (no calls, disjoint reads/writes)"""

    def _simple(self, st):
        if not isinstance(st, (ast.Assign, ast.AugAssign)):
            return False
        return not any(isinstance(n, (ast.Call, ast.Yield, ast.YieldFrom, ast.NamedExpr, ast.Await)) for n in ast.walk(st))

    def _swap(self, body):
        out = list(body)
        i = 0
        while i + 1 < len(out):
            a, b = out[i], out[i + 1]
            if self._simple(a) and self._simple(b):
                wa, wb = _names(a, ast.Store), _names(b, ast.Store)
                ra, rb = _names(a, ast.Load), _names(b, ast.Load)
                roots = lambda s: {x.split('[')[0].split('.')[0] + ('.' + x.split('.')[1].split('[')[0] if x.startswith('self.') else '') for x in s}  # noqa
                if not (roots(wa) & (roots(rb) | roots(wb))) and not (roots(wb) & roots(ra)):
                    out[i], out[i + 1] = b, a
                    i += 2
                    continue
            i += 1
        return out

    def generic_visit(self, node):
        super().generic_visit(node)
        for fld in ('body', 'orelse', 'finalbody'):
            v = getattr(node, fld, None)
            if isinstance(v, list) and v and isinstance(v[0], ast.stmt):
                setattr(node, fld, self._swap(v))
        return node


class RetLocal(ast.NodeTransformer):
    """return <expr>  ->  result_ = <expr>; return result_     (non-trivial expressions, not in generators/lambdas)"""

    def visit_FunctionDef(self, node):
        self.generic_visit(node)
        if any(isinstance(n, (ast.Yield, ast.YieldFrom)) for n in ast.walk(node)):
            return node

        def fix(stmts):
            out = []
            for st in stmts:
                for fld in ('body', 'orelse', 'finalbody'):
                    v = getattr(st, fld, None)
                    if isinstance(v, list) and v and isinstance(v[0], ast.stmt) and not isinstance(st, (ast.FunctionDef, ast.ClassDef)):
                        setattr(st, fld, fix(v))
                if isinstance(st, ast.Try):
                    for h in st.handlers:
                        h.body = fix(h.body)
                if isinstance(st, ast.Match):
                    for c in st.cases:
                        c.body = fix(c.body)
                if isinstance(st, ast.Return) and st.value is not None and not isinstance(st.value, (ast.Name, ast.Constant)):
                    out.append(ast.copy_location(ast.Assign(targets=[ast.Name(id='result_', ctx=ast.Store())], value=st.value), st))
                    out.append(ast.copy_location(ast.Return(value=ast.Name(id='result_', ctx=ast.Load())), st))
                else:
                    out.append(st)
            return out
        node.body = fix(node.body)
        return node


class DeMorgan(ast.NodeTransformer):
    """not a and not b -> not (a or b);  not a or not b -> not (a and b)"""

    def visit_BoolOp(self, node):
        self.generic_visit(node)
        if len(node.values) >= 2 and all(isinstance(v, ast.UnaryOp) and isinstance(v.op, ast.Not) for v in node.values):
            inner = ast.BoolOp(op=ast.Or() if isinstance(node.op, ast.And) else ast.And(), values=[v.operand for v in node.values])
            return ast.copy_location(ast.UnaryOp(op=ast.Not(), operand=inner), node)
        return node


class TernaryToIf(ast.NodeTransformer):
    """x = a if c else b  ->  if c: x = a  else: x = b     (simple assignments whose value is a conditional expression)"""

    def _fix(self, stmts):
        out = []
        for st in stmts:
            if isinstance(st, ast.Assign) and isinstance(st.value, ast.IfExp) and len(st.targets) == 1 and isinstance(st.targets[0], ast.Name):
                import copy
                a = ast.Assign(targets=[copy.deepcopy(st.targets[0])], value=st.value.body)
                b = ast.Assign(targets=[copy.deepcopy(st.targets[0])], value=st.value.orelse)
                out.append(ast.copy_location(ast.If(test=st.value.test, body=[a], orelse=[b]), st))
            else:
                out.append(st)
        return out

    def generic_visit(self, node):
        super().generic_visit(node)
        for fld in ('body', 'orelse', 'finalbody'):
            v = getattr(node, fld, None)
            if isinstance(v, list) and v and isinstance(v[0], ast.stmt):
                setattr(node, fld, self._fix(v))
        return node


class ChainSplit(ast.NodeTransformer):
    """a <= b < c  ->  a <= b and b < c   (middle operand a plain name, attribute or constant)"""

    def visit_Compare(self, node):
        self.generic_visit(node)
        if len(node.ops) == 2 and isinstance(node.comparators[0], (ast.Name, ast.Constant)):
            import copy
            mid = node.comparators[0]
            l = ast.Compare(left=node.left, ops=[node.ops[0]], comparators=[mid])
            r = ast.Compare(left=copy.deepcopy(mid), ops=[node.ops[1]], comparators=[node.comparators[1]])
            return ast.copy_location(ast.BoolOp(op=ast.And(), values=[l, r]), node)
        return node


def _jumps(stmts):
    return bool(stmts) and isinstance(stmts[-1], (ast.Return, ast.Raise, ast.Continue, ast.Break))


class ElseAfterJump(ast.NodeTransformer):
    """if c: ...; return/raise     ->  if c: ...; return/raise
       rest                            else: rest                    (guard clause folded into if/else)"""

    def _fix(self, stmts):
        for i, st in enumerate(stmts):
            if isinstance(st, ast.If) and not st.orelse and _jumps(st.body) and i + 1 < len(stmts):
                rest = self._fix(stmts[i + 1:])
                return stmts[:i] + [ast.copy_location(ast.If(test=st.test, body=st.body, orelse=rest), st)]
        return stmts

    def generic_visit(self, node):
        super().generic_visit(node)
        for fld in ('body', 'orelse', 'finalbody'):
            v = getattr(node, fld, None)
            if isinstance(v, list) and v and isinstance(v[0], ast.stmt) and not isinstance(node, ast.ClassDef):
                setattr(node, fld, self._fix(v))
        return node


class DropElseAfterJump(ast.NodeTransformer):
    """if c: ...; return/raise  else: rest   ->   if c: ...; return/raise ; rest      (the converse)"""

    def _fix(self, stmts):
        out = []
        for st in stmts:
            if isinstance(st, ast.If) and st.orelse and _jumps(st.body):
                out.append(ast.copy_location(ast.If(test=st.test, body=st.body, orelse=[]), st))
                out.extend(self._fix(st.orelse))
            else:
                out.append(st)
        return out

    def generic_visit(self, node):
        super().generic_visit(node)
        for fld in ('body', 'orelse', 'finalbody'):
            v = getattr(node, fld, None)
            if isinstance(v, list) and v and isinstance(v[0], ast.stmt) and not isinstance(node, ast.ClassDef):
                setattr(node, fld, self._fix(v))
        return node


class ExtractCond(ast.NodeTransformer):
    """if <compound test>: ...  ->  cond_N = <compound test>; if cond_N: ...   (plain `if` statements, not elif arms)"""

    def __init__(self):
        self.n = 0

    def _fix(self, stmts):
        out = []
        for st in stmts:
            if isinstance(st, ast.If) and isinstance(st.test, (ast.BoolOp, ast.Compare)) \
                    and not any(isinstance(n, (ast.NamedExpr, ast.Yield, ast.Await)) for n in ast.walk(st.test)):
                self.n += 1
                nm = f'cond_{self.n}'
                out.append(ast.copy_location(ast.Assign(targets=[ast.Name(id=nm, ctx=ast.Store())], value=st.test), st))
                out.append(ast.copy_location(ast.If(test=ast.Name(id=nm, ctx=ast.Load()), body=st.body, orelse=st.orelse), st))
            else:
                out.append(st)
        return out

    def generic_visit(self, node):
        super().generic_visit(node)
        for fld in ('body', 'finalbody'):
            v = getattr(node, fld, None)
            if isinstance(v, list) and v and isinstance(v[0], ast.stmt) and not isinstance(node, ast.ClassDef):
                setattr(node, fld, self._fix(v))
        return node


TRANSFORMS = {'rename': [RenameLocals], 'reformat': [], 'flipcmp': [FlipCompare], 'swapif': [SwapIf], 'all': [RenameLocals, FlipCompare, SwapIf], 'augexpand': [AugExpand], 'reorder': [Reorder], 'retlocal': [RetLocal], 'demorgan': [DeMorgan], 'ternary': [TernaryToIf], 'chainsplit': [ChainSplit], 'elsejump': [ElseAfterJump], 'dropelse': [DropElseAfterJump], 'extractcond': [ExtractCond]}




def transform_source(src: str, name: str) -> str:
    tree = ast.parse(src)
    for t in TRANSFORMS[name]:
        tree = t().visit(tree)
    ast.fix_missing_locations(tree)
    out = ast.unparse(tree)
    compile(out, '<transformed>', 'exec')
    return out
