"""Whole-package behaviour-preserving AST transformations used by the checker self-test:
every check must stay silent on the transformed sources (rename of every local variable,
flipped comparison orientation, swapped if/else branches, all of them together)."""
from __future__ import annotations

import ast

MODS = ('utilities', 'lookups', 'hands', 'state', 'games', 'notation', 'analysis')


class RenameLocals(ast.NodeTransformer):
    """rename every local variable of every function (not parameters, not names used by nested defs/globals)"""

    def visit_FunctionDef(self, node):
        self.generic_visit(node)
        params = {a.arg for a in node.args.posonlyargs + node.args.args + node.args.kwonlyargs}
        if node.args.vararg:
            params.add(node.args.vararg.arg)
        if node.args.kwarg:
            params.add(node.args.kwarg.arg)
        nested_free = set()
        for n in ast.walk(node):
            if n is not node and isinstance(n, (ast.FunctionDef, ast.Lambda)):
                for m in ast.walk(n):
                    if isinstance(m, ast.Name):
                        nested_free.add(m.id)
            if isinstance(n, (ast.Nonlocal, ast.Global)):
                nested_free |= set(n.names)
        stored = set()
        for n in ast.walk(node):
            if isinstance(n, ast.Name) and isinstance(n.ctx, ast.Store):
                stored.add(n.id)
            if isinstance(n, ast.ExceptHandler) and n.name:
                pass
            if isinstance(n, ast.MatchAs) and n.name:
                nested_free.add(n.name)
            if isinstance(n, ast.MatchStar) and n.name:
                nested_free.add(n.name)
        # names of nested function defs stay
        for n in ast.walk(node):
            if n is not node and isinstance(n, ast.FunctionDef):
                nested_free.add(n.name)
        targets = {s for s in stored if s not in params and s not in nested_free and not s.startswith('__') and s != '_'}
        if not targets:
            return node

        class R(ast.NodeTransformer):
            def visit_Name(self, n):
                if n.id in targets:
                    return ast.copy_location(ast.Name(id=n.id + '_r', ctx=n.ctx), n)
                return n

            def visit_FunctionDef(self, n):
                return n if n is not node else self.generic_visit(n)

            def visit_Lambda(self, n):
                return n
        R().visit(node)
        return node


class FlipCompare(ast.NodeTransformer):
    """a < b -> b > a ; a <= b -> b >= a ; a == b -> b == a (single comparisons)"""
    MAP = {ast.Lt: ast.Gt, ast.Gt: ast.Lt, ast.LtE: ast.GtE, ast.GtE: ast.LtE, ast.Eq: ast.Eq, ast.NotEq: ast.NotEq}

    def visit_Compare(self, node):
        self.generic_visit(node)
        if len(node.ops) == 1 and type(node.ops[0]) in self.MAP:
            return ast.copy_location(ast.Compare(left=node.comparators[0], ops=[self.MAP[type(node.ops[0])]()], comparators=[node.left]), node)
        return node


class SwapIf(ast.NodeTransformer):
    """if c: A else: B  ->  if not c: B else: A   (only plain if/else, no elif)"""

    def visit_If(self, node):
        self.generic_visit(node)
        if node.orelse and not (len(node.orelse) == 1 and isinstance(node.orelse[0], ast.If)):
            return ast.copy_location(ast.If(test=ast.UnaryOp(op=ast.Not(), operand=node.test), body=node.orelse, orelse=node.body), node)
        return node


TRANSFORMS = {'rename': [RenameLocals], 'reformat': [], 'flipcmp': [FlipCompare], 'swapif': [SwapIf], 'all': [RenameLocals, FlipCompare, SwapIf]}




def transform_source(src: str, name: str) -> str:
    tree = ast.parse(src)
    for t in TRANSFORMS[name]:
        tree = t().visit(tree)
    ast.fix_missing_locations(tree)
    out = ast.unparse(tree)
    compile(out, '<transformed>', 'exec')
    return out
