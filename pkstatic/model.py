"""Engine A: program model of /repo/pokerkit built from the source only (ast).

Nothing from pokerkit is imported or executed.  The model gives: parsed modules
with digests, class table with C3 linearisation, class-attribute resolution
through the MRO, function tables (methods, properties, classmethods), and a
resolved call graph for ``self.m()`` / ``self.prop`` / ``super().m()`` calls.
"""
from __future__ import annotations

import ast
import hashlib
import os
from dataclasses import dataclass, field

REPO = os.environ.get('PKSTATIC_REPO', '/repo')
PKG = 'pokerkit'
MODULES = (
    'utilities', 'lookups', 'hands', 'state', 'games', 'notation', 'analysis',
)


class AnalysisError(Exception):
    """The analysis itself cannot run (exit 2, never a VIOLATION)."""


@dataclass
class FuncInfo:
    name: str
    qualname: str
    module: str
    node: ast.FunctionDef
    cls: 'ClassInfo | None' = None
    is_property: bool = False
    is_classmethod: bool = False
    is_staticmethod: bool = False
    is_abstract: bool = False

    @property
    def params(self) -> list[str]:
        a = self.node.args
        return [x.arg for x in a.posonlyargs + a.args + a.kwonlyargs]

    @property
    def pos_params(self) -> list[str]:
        a = self.node.args
        return [x.arg for x in a.posonlyargs + a.args]

    @property
    def kwonly_params(self) -> list[str]:
        return [x.arg for x in self.node.args.kwonlyargs]

    @property
    def loc(self) -> str:
        return f'{PKG}/{self.module}.py:{self.node.lineno}'

    @property
    def body(self) -> list[ast.stmt]:
        return strip_docstring(self.node.body)


@dataclass
class ClassInfo:
    name: str
    module: str
    node: ast.ClassDef
    base_names: list[str]
    methods: dict[str, FuncInfo] = field(default_factory=dict)
    # class-level simple assignments / annotated assignments, in order
    attrs: dict[str, ast.expr] = field(default_factory=dict)
    ann: dict[str, ast.expr] = field(default_factory=dict)
    attr_nodes: dict[str, ast.stmt] = field(default_factory=dict)
    decorators: list[ast.expr] = field(default_factory=list)

    @property
    def loc(self) -> str:
        return f'{PKG}/{self.module}.py:{self.node.lineno}'


@dataclass
class ModuleInfo:
    name: str
    path: str
    src: str
    tree: ast.Module
    sha256: str
    imports: dict[str, str] = field(default_factory=dict)  # local name -> dotted
    functions: dict[str, FuncInfo] = field(default_factory=dict)
    classes: dict[str, ClassInfo] = field(default_factory=dict)
    assigns: dict[str, ast.expr] = field(default_factory=dict)


def strip_docstring(body: list[ast.stmt]) -> list[ast.stmt]:
    if (
            body
            and isinstance(body[0], ast.Expr)
            and isinstance(body[0].value, ast.Constant)
            and isinstance(body[0].value.value, str)
    ):
        return body[1:]
    return body


def is_docstring_stmt(st: ast.stmt) -> bool:
    return (
        isinstance(st, ast.Expr)
        and isinstance(st.value, ast.Constant)
        and isinstance(st.value.value, str)
    )


def deco_names(node) -> list[str]:
    out = []
    for d in node.decorator_list:
        if isinstance(d, ast.Call):
            d = d.func
        out.append(ast.unparse(d))
    return out


class _CanonAug(ast.NodeTransformer):
    """source-level canonicalisation applied before any rule looks at the tree:
    ``T = T <op> E`` is read as ``T <op>= E`` (both spellings mean the same to every rule)"""

    def visit_Assign(self, node):
        self.generic_visit(node)
        if len(node.targets) == 1 and isinstance(node.value, ast.BinOp) \
                and isinstance(node.value.op, (ast.Add, ast.Sub, ast.Mult, ast.FloorDiv, ast.Mod)) \
                and isinstance(node.targets[0], (ast.Name, ast.Attribute, ast.Subscript)):
            t = node.targets[0]
            if _dump_load(t) == _dump_load(node.value.left):
                return ast.copy_location(ast.AugAssign(target=t, op=node.value.op, value=node.value.right), node)
        return node


class _CanonRet(ast.NodeTransformer):
    """``x = E; return x`` (adjacent) is read as ``return E``"""

    def generic_visit(self, node):
        super().generic_visit(node)
        for fld in ('body', 'orelse', 'finalbody'):
            v = getattr(node, fld, None)
            if isinstance(v, list) and len(v) >= 2 and isinstance(v[0], ast.stmt):
                out = []
                i = 0
                while i < len(v):
                    a = v[i]
                    b = v[i + 1] if i + 1 < len(v) else None
                    if isinstance(a, ast.Assign) and len(a.targets) == 1 and isinstance(a.targets[0], ast.Name) \
                            and isinstance(b, ast.Return) and isinstance(b.value, ast.Name) and b.value.id == a.targets[0].id:
                        out.append(ast.copy_location(ast.Return(value=a.value), a))
                        i += 2
                        continue
                    out.append(a)
                    i += 1
                setattr(node, fld, out)
        return node


def _gen1(e):
    """(target, iter, [conds], elt) of a one-clause generator / list comprehension, else None"""
    if isinstance(e, (ast.GeneratorExp, ast.ListComp)) and len(e.generators) == 1 and not e.generators[0].is_async:
        g = e.generators[0]
        return g.target, g.iter, list(g.ifs), e.elt
    return None


def _and(conds):
    return conds[0] if len(conds) == 1 else ast.BoolOp(op=ast.And(), values=list(conds))


_LISTCOMP_TO_LOOP = False      # tried: three rule families (C02.winners, C13.table, C18.icm) read the closed comprehension form


class _CanonGuards(ast.NodeTransformer):
    """in a procedure (no value is ever returned), a guard clause in tail position is read as the if / else it abbreviates:
       if c: return            ->  if not c: <rest>
       <rest>
       if c: S; return         ->  if c: S  else: <rest>
       <rest>
    (tail position only: inside a loop a bare return leaves more than the block it stands in)"""

    @staticmethod
    def _neg(test):
        if isinstance(test, ast.UnaryOp) and isinstance(test.op, ast.Not):
            return test.operand
        if isinstance(test, ast.Compare) and len(test.ops) == 1:
            flip = {ast.In: ast.NotIn, ast.NotIn: ast.In, ast.Is: ast.IsNot, ast.IsNot: ast.Is, ast.Eq: ast.NotEq, ast.NotEq: ast.Eq}
            t = flip.get(type(test.ops[0]))
            if t is not None:
                return ast.copy_location(ast.Compare(left=test.left, ops=[t()], comparators=test.comparators), test)
        return ast.copy_location(ast.UnaryOp(op=ast.Not(), operand=test), test)

    def _fix(self, stmts):
        for i, st in enumerate(stmts):
            if isinstance(st, ast.If) and not st.orelse and st.body and isinstance(st.body[-1], ast.Return) and st.body[-1].value is None \
                    and i + 1 < len(stmts):
                rest = self._fix(stmts[i + 1:])
                if len(st.body) == 1:
                    new = ast.If(test=self._neg(st.test), body=rest, orelse=[])
                else:
                    new = ast.If(test=st.test, body=self._fix(st.body[:-1]), orelse=rest)
                return stmts[:i] + [ast.copy_location(new, st)]
        if stmts and isinstance(stmts[-1], ast.If):
            last = stmts[-1]
            last.body = self._fix(last.body)
            if last.orelse:
                last.orelse = self._fix(last.orelse)
        return stmts

    def visit_FunctionDef(self, node):
        self.generic_visit(node)
        own = [n for n in walk_no_nested(node) if isinstance(n, ast.Return)]
        if own and all(r.value is None for r in own) and not any(isinstance(n, (ast.Yield, ast.YieldFrom)) for n in walk_no_nested(node)):
            node.body = self._fix(node.body)
            if node.body and isinstance(node.body[-1], ast.Return) and len(node.body) > 1:
                node.body = node.body[:-1]
        return node


class _CanonLoops(ast.NodeTransformer):
    """the functional spellings of four loop idioms are read as the loops the code base writes them as:
       if not any(C for T in IT): S          ->  for T in IT: (if C: break)  else: S
       f = any(C for T in IT)                ->  f = False; for T in IT: if C: f = True; break
       if any(C for T in IT): S              ->  f = any(...) as above; if f: S
       n = sum(1 for T in IT if C)           ->  n = 0; for T in IT: if C: n += 1
       acc.extend(E for T in IT if C)        ->  for T in IT: if C: acc.append(E)
    and inside a loop ``if C: continue`` followed by the rest of the body is read as ``if not C: <rest>``"""

    def __init__(self, only_sums=False):
        # a first pass before single-use locals are inlined: a sum over a generator bound to a name of its own stays a loop of its own
        self.only_sums = only_sums

    def _stmts(self, stmts, in_loop):
        if self.only_sums:
            out = []
            for st in stmts:
                if isinstance(st, ast.Assign) and len(st.targets) == 1 and isinstance(st.targets[0], ast.Name) and isinstance(st.value, ast.Call) \
                        and isinstance(st.value.func, ast.Name) and st.value.func.id == 'sum' and len(st.value.args) == 1 and not st.value.keywords \
                        and isinstance(st.value.args[0], ast.GeneratorExp) and _gen1(st.value.args[0]):
                    out.extend(self._one(st))
                else:
                    out.append(st)
            return out
        out = []
        for i, st in enumerate(stmts):
            if in_loop and isinstance(st, ast.If) and len(st.body) == 1 and isinstance(st.body[0], ast.Continue) \
                    and (i + 1 < len(stmts) or st.orelse):
                rest = self._stmts(list(st.orelse) + stmts[i + 1:], in_loop)
                out.append(ast.copy_location(ast.If(test=ast.UnaryOp(op=ast.Not(), operand=st.test), body=rest, orelse=[]), st))
                return out
            out.extend(self._one(st))
        return out

    def _one(self, st):
        # if not any(genexp): S
        if isinstance(st, ast.If) and not st.orelse and isinstance(st.test, ast.UnaryOp) and isinstance(st.test.op, ast.Not) \
                and isinstance(st.test.operand, ast.Call) and isinstance(st.test.operand.func, ast.Name) and st.test.operand.func.id == 'any' \
                and len(st.test.operand.args) == 1 and _gen1(st.test.operand.args[0]):
            t, it, conds, elt = _gen1(st.test.operand.args[0])
            inner = ast.If(test=_and(conds + [elt]), body=[ast.Break()], orelse=[])
            return [ast.copy_location(ast.For(target=t, iter=it, body=[inner], orelse=st.body, type_comment=None), st)]
        # if any(genexp): raise E / return X   ->   for T in IT: if C: raise E / return X     (leaving at the first hit is the same thing)
        if isinstance(st, ast.If) and not st.orelse and len(st.body) == 1 and isinstance(st.body[0], (ast.Raise, ast.Return)) \
                and isinstance(st.test, ast.Call) and isinstance(st.test.func, ast.Name) and st.test.func.id == 'any' \
                and len(st.test.args) == 1 and not st.test.keywords and _gen1(st.test.args[0]):
            t, it, conds, elt = _gen1(st.test.args[0])
            inner = ast.If(test=_and(conds + [elt]), body=[st.body[0]], orelse=[])
            return [ast.copy_location(ast.For(target=t, iter=it, body=[inner], orelse=[], type_comment=None), st)]
        # if any(genexp): S [else: R]   ->   f = any(genexp); if f: S [else: R]    (then the next form)
        if isinstance(st, ast.If) and isinstance(st.test, ast.Call) and isinstance(st.test.func, ast.Name) and st.test.func.id == 'any' \
                and len(st.test.args) == 1 and not st.test.keywords and _gen1(st.test.args[0]):
            flag = f'_any_{st.lineno}_{st.col_offset}'
            first = ast.copy_location(ast.Assign(targets=[ast.Name(id=flag, ctx=ast.Store())], value=st.test), st)
            test = ast.copy_location(ast.Name(id=flag, ctx=ast.Load()), st.test)
            return self._one(first) + [ast.copy_location(ast.If(test=test, body=st.body, orelse=st.orelse), st)]
        if isinstance(st, ast.Assign) and len(st.targets) == 1 and isinstance(st.targets[0], ast.Name) and isinstance(st.value, ast.Call) \
                and isinstance(st.value.func, ast.Name) and len(st.value.args) == 1 and not st.value.keywords and _gen1(st.value.args[0]):
            t, it, conds, elt = _gen1(st.value.args[0])
            name = st.targets[0].id
            if st.value.func.id == 'any':
                body = [ast.Assign(targets=[ast.Name(id=name, ctx=ast.Store())], value=ast.Constant(True)), ast.Break()]
                loop = ast.For(target=t, iter=it, body=[ast.If(test=_and(conds + [elt]), body=body, orelse=[])], orelse=[], type_comment=None)
                return [ast.copy_location(ast.Assign(targets=[ast.Name(id=name, ctx=ast.Store())], value=ast.Constant(False)), st),
                        ast.copy_location(loop, st)]
            if st.value.func.id == 'sum' and isinstance(st.value.args[0], ast.GeneratorExp):
                inc = ast.AugAssign(target=ast.Name(id=name, ctx=ast.Store()), op=ast.Add(), value=elt)
                body = [ast.If(test=_and(conds), body=[inc], orelse=[])] if conds else [inc]
                loop = ast.For(target=t, iter=it, body=body, orelse=[], type_comment=None)
                return [ast.copy_location(ast.Assign(targets=[ast.Name(id=name, ctx=ast.Store())], value=ast.Constant(0)), st),
                        ast.copy_location(loop, st)]
        # for I, X in enumerate(IT, START): BODY   ->   I = START; for X in IT: BODY; I += 1      (BODY without continue / rebinding of I)
        if isinstance(st, ast.For) and not st.orelse and isinstance(st.iter, ast.Call) and isinstance(st.iter.func, ast.Name) and st.iter.func.id == 'enumerate' \
                and (len(st.iter.args) == 2 or any(k.arg == 'start' for k in st.iter.keywords)) and isinstance(st.target, ast.Tuple) and len(st.target.elts) == 2 \
                and isinstance(st.target.elts[0], ast.Name):
            start = st.iter.args[1] if len(st.iter.args) == 2 else next(k.value for k in st.iter.keywords if k.arg == 'start')
            cnt = st.target.elts[0].id
            clean = not any(isinstance(x, ast.Continue) for b in st.body for x in ast.walk(b)) and \
                not any(isinstance(x, ast.Name) and x.id == cnt and isinstance(x.ctx, ast.Store) for b in st.body for x in ast.walk(b))
            if clean:
                init = ast.copy_location(ast.Assign(targets=[ast.Name(id=cnt, ctx=ast.Store())], value=start), st)
                step = ast.copy_location(ast.AugAssign(target=ast.Name(id=cnt, ctx=ast.Store()), op=ast.Add(), value=ast.Constant(1)), st)
                loop = ast.copy_location(ast.For(target=st.target.elts[1], iter=st.iter.args[0], body=list(st.body) + [step], orelse=[], type_comment=None), st)
                return [init, loop]
        # L = [E for T in IT if C]   ->   L = []; for T in IT: if C: L.append(E)
        if isinstance(st, ast.Assign) and len(st.targets) == 1 and isinstance(st.targets[0], ast.Name) and isinstance(st.value, ast.ListComp) \
                and _gen1(st.value) and _LISTCOMP_TO_LOOP:
            t, it, conds, elt = _gen1(st.value)
            name = st.targets[0].id
            if not any(isinstance(n, ast.Name) and n.id == name for n in ast.walk(st.value)):
                app = ast.Expr(value=ast.Call(func=ast.Attribute(value=ast.Name(id=name, ctx=ast.Load()), attr='append', ctx=ast.Load()), args=[elt], keywords=[]))
                body = [ast.If(test=_and(conds), body=[app], orelse=[])] if conds else [app]
                return [ast.copy_location(ast.Assign(targets=[ast.Name(id=name, ctx=ast.Store())], value=ast.List(elts=[], ctx=ast.Load())), st),
                        ast.copy_location(ast.For(target=t, iter=it, body=body, orelse=[], type_comment=None), st)]
        if isinstance(st, ast.Expr) and isinstance(st.value, ast.Call) and isinstance(st.value.func, ast.Attribute) and st.value.func.attr == 'extend' \
                and len(st.value.args) == 1 and isinstance(st.value.args[0], ast.GeneratorExp) and _gen1(st.value.args[0]):
            t, it, conds, elt = _gen1(st.value.args[0])
            app = ast.Expr(value=ast.Call(func=ast.Attribute(value=st.value.func.value, attr='append', ctx=ast.Load()), args=[elt], keywords=[]))
            body = [ast.If(test=_and(conds), body=[app], orelse=[])] if conds else [app]
            return [ast.copy_location(ast.For(target=t, iter=it, body=body, orelse=[], type_comment=None), st)]
        return [st]

    def generic_visit(self, node):
        super().generic_visit(node)
        for fld in ('body', 'orelse', 'finalbody'):
            v = getattr(node, fld, None)
            if isinstance(v, list) and v and isinstance(v[0], ast.stmt) and not isinstance(node, ast.ClassDef):
                setattr(node, fld, self._stmts(v, isinstance(node, (ast.For, ast.While)) and fld == 'body'))
        return node


class _CanonAnn(ast.NodeTransformer):
    """inside a function ``x: T = E`` is read as ``x = E`` and a bare ``x: T`` as nothing (annotations of locals mean nothing at run time)"""

    def __init__(self):
        self.depth = 0

    def visit_FunctionDef(self, node):
        self.depth += 1
        self.generic_visit(node)
        self.depth -= 1
        return node

    def visit_ClassDef(self, node):
        d, self.depth = self.depth, 0
        self.generic_visit(node)
        self.depth = d
        return node

    def visit_AnnAssign(self, node):
        if self.depth and isinstance(node.target, ast.Name):
            if node.value is None:
                return ast.copy_location(ast.Pass(), node)
            return ast.copy_location(ast.Assign(targets=[node.target], value=node.value), node)
        return node


class _CanonTernary(ast.NodeTransformer):
    """``x = A if c else B`` (a statement of its own) is read as ``if c: x = A  else: x = B``"""

    def generic_visit(self, node):
        super().generic_visit(node)
        for fld in ('body', 'orelse', 'finalbody'):
            v = getattr(node, fld, None)
            if isinstance(v, list) and v and isinstance(v[0], ast.stmt):
                out = []
                for st in v:
                    if isinstance(st, ast.Return) and isinstance(st.value, ast.IfExp):
                        a = ast.copy_location(ast.Return(value=st.value.body), st)
                        b = ast.copy_location(ast.Return(value=st.value.orelse), st)
                        out.append(ast.copy_location(ast.If(test=st.value.test, body=[a], orelse=[b]), st))
                        continue
                    if isinstance(st, ast.Assign) and isinstance(st.value, ast.IfExp) and len(st.targets) == 1 \
                            and (isinstance(st.targets[0], ast.Name) or (isinstance(st.targets[0], ast.Attribute)
                                                                      and isinstance(st.targets[0].value, ast.Name))):
                        import copy
                        a = ast.copy_location(ast.Assign(targets=[copy.deepcopy(st.targets[0])], value=st.value.body), st)
                        b = ast.copy_location(ast.Assign(targets=[copy.deepcopy(st.targets[0])], value=st.value.orelse), st)
                        out.append(ast.copy_location(ast.If(test=st.value.test, body=[a], orelse=[b]), st))
                    else:
                        out.append(st)
                setattr(node, fld, out)
        return node


class _CanonInline(ast.NodeTransformer):
    """``t = E; <statement reading t once>`` (adjacent; t a local with this one definition and this one use in the
    whole function, the use not under a lambda / comprehension / loop body and not preceded, inside that statement,
    by another call) is read as the statement with E in place of t: naming a condition or an operand changes nothing."""

    def visit_FunctionDef(self, node):
        self.generic_visit(node)
        stores, loads, banned = {}, {}, set()
        for n in ast.walk(node):
            if isinstance(n, ast.Name):
                d = stores if isinstance(n.ctx, ast.Store) else loads
                d[n.id] = d.get(n.id, 0) + 1
                if isinstance(n.ctx, ast.Del):
                    banned.add(n.id)
            elif isinstance(n, (ast.Global, ast.Nonlocal)):
                banned |= set(n.names)
            elif n is not node and isinstance(n, (ast.FunctionDef, ast.Lambda, ast.ListComp, ast.SetComp, ast.DictComp, ast.GeneratorExp)):
                for m in ast.walk(n):
                    if isinstance(m, ast.Name):
                        banned.add(m.id)
            elif isinstance(n, (ast.MatchAs, ast.MatchStar)) and n.name:
                banned.add(n.name)
            elif isinstance(n, ast.ExceptHandler) and n.name:
                banned.add(n.name)
        for a in node.args.posonlyargs + node.args.args + node.args.kwonlyargs + [x for x in (node.args.vararg, node.args.kwarg) if x]:
            banned.add(a.arg)
        cand = {k for k in stores if stores[k] == 1 and loads.get(k, 0) == 1 and k not in banned}
        if cand:
            self._blocks(node, cand)
        return node

    def _header(self, st):
        """the expressions of `st` that are evaluated exactly once, right when the statement is reached"""
        if isinstance(st, (ast.If,)):
            return [st.test]
        if isinstance(st, ast.For):
            return [st.iter]
        if isinstance(st, (ast.Assign, ast.AugAssign, ast.AnnAssign, ast.Return, ast.Expr)):
            return [st.value] if st.value is not None else []
        if isinstance(st, ast.Assert):
            return [st.test]
        if isinstance(st, ast.Raise):
            return [st.exc] if st.exc is not None else []
        return []

    def _blocks(self, node, cand):
        for fld in ('body', 'orelse', 'finalbody', 'handlers', 'cases'):
            v = getattr(node, fld, None)
            if not isinstance(v, list):
                continue
            for ch in v:
                if isinstance(ch, (ast.FunctionDef, ast.ClassDef)):
                    continue
                if isinstance(ch, (ast.stmt, ast.ExceptHandler, ast.match_case)):
                    self._blocks(ch, cand)
            if v and isinstance(v[0], ast.stmt):
                changed = True
                while changed:
                    changed = False
                    out = []
                    for st in v:
                        prev = out[-1] if out else None
                        if isinstance(prev, ast.Assign) and len(prev.targets) == 1 and isinstance(prev.targets[0], ast.Name) \
                                and prev.targets[0].id in cand and self._try(prev, st):
                            out.pop()
                            changed = True
                        out.append(st)
                    v = out
                setattr(node, fld, v)

    def _try(self, a, st):
        name = a.targets[0].id
        for h in self._header(st):
            use = [n for n in ast.walk(h) if isinstance(n, ast.Name) and n.id == name and isinstance(n.ctx, ast.Load)]
            if len(use) != 1:
                continue
            u = use[0]
            has_call = any(isinstance(n, (ast.Call, ast.Yield, ast.YieldFrom, ast.Await, ast.NamedExpr)) for n in ast.walk(a.value))
            if has_call:
                post = []

                def po(n):
                    for ch in ast.iter_child_nodes(n):
                        po(ch)
                    post.append(n)
                po(h)
                k = next(i for i, n in enumerate(post) if n is u)
                if any(isinstance(c, (ast.Call, ast.NamedExpr)) for c in post[:k]):
                    return False      # something with a possible effect is evaluated before the use
                # short-circuit operands to the left would make the evaluation conditional
                for b in ast.walk(h):
                    if isinstance(b, ast.BoolOp) and any(x is u for v2 in b.values[1:] for x in ast.walk(v2)):
                        return False
                    if isinstance(b, ast.IfExp) and any(x is u for v2 in (b.body, b.orelse) for x in ast.walk(v2)):
                        return False

            class R(ast.NodeTransformer):
                def visit_Name(self, n):
                    return a.value if n is u else n
            R().visit(st) if not isinstance(h, ast.Name) else None
            if isinstance(h, ast.Name):      # the header is the bare name itself
                for fld in ('test', 'iter', 'value', 'exc'):
                    if getattr(st, fld, None) is h:
                        setattr(st, fld, a.value)
            return True
        return False


def _dump_load(e):
    import copy
    e = copy.deepcopy(e)
    for n in ast.walk(e):
        if hasattr(n, 'ctx'):
            n.ctx = ast.Load()
    return ast.dump(e)


class Program:
    def __init__(self, repo: str | None = None, modules=MODULES):
        self.repo = repo or REPO
        self.modules: dict[str, ModuleInfo] = {}
        self.classes: dict[str, ClassInfo] = {}
        self._mro: dict[str, list[ClassInfo]] = {}
        self.inlined_helpers: dict[str, list] = {}
        for m in modules:
            self._load(m)
        self._register_signatures()
        self._canon_kwargs()

    # ------------------------------------------------------------------ load
    def _load(self, name: str) -> None:
        path = os.path.join(self.repo, PKG, f'{name}.py')
        try:
            with open(path, encoding='utf-8') as fp:
                src = fp.read()
            tree = ast.parse(src, filename=path)
            from .inline import inline_unknown_helpers
            tree, self.inlined_helpers[name] = inline_unknown_helpers(name, tree)
            tree = ast.fix_missing_locations(_CanonGuards().visit(_CanonRet().visit(_CanonAug().visit(_CanonAnn().visit(tree)))))
            tree = ast.fix_missing_locations(_CanonAug().visit(_CanonLoops().visit(_CanonInline().visit(_CanonLoops(only_sums=True).visit(_CanonTernary().visit(tree))))))
        except (OSError, SyntaxError) as e:
            raise AnalysisError(f'cannot parse {path}: {e}') from e
        mi = ModuleInfo(
            name, path, src, tree, hashlib.sha256(src.encode()).hexdigest(),
        )
        for st in tree.body:
            if isinstance(st, ast.ImportFrom) and st.module:
                for al in st.names:
                    mi.imports[al.asname or al.name] = f'{st.module}.{al.name}'
            elif isinstance(st, ast.Import):
                for al in st.names:
                    mi.imports[al.asname or al.name] = al.name
            elif isinstance(st, ast.FunctionDef):
                mi.functions[st.name] = FuncInfo(st.name, st.name, name, st)
            elif isinstance(st, ast.ClassDef):
                ci = self._load_class(st, name)
                mi.classes[st.name] = ci
                if st.name in self.classes:
                    raise AnalysisError(f'duplicate class name {st.name}')
                self.classes[st.name] = ci
            elif isinstance(st, ast.Assign) and len(st.targets) == 1:
                t = st.targets[0]
                if isinstance(t, ast.Name):
                    mi.assigns[t.id] = st.value
                elif isinstance(t, ast.Attribute):
                    mi.assigns[ast.unparse(t)] = st.value
            elif isinstance(st, ast.AnnAssign) and st.value is not None:
                if isinstance(st.target, ast.Name):
                    mi.assigns[st.target.id] = st.value
        self.modules[name] = mi

    def _load_class(self, node: ast.ClassDef, module: str) -> ClassInfo:
        bases = []
        for b in node.bases:
            if isinstance(b, ast.Subscript):
                b = b.value
            bases.append(ast.unparse(b))
        ci = ClassInfo(node.name, module, node, bases,
                       decorators=list(node.decorator_list))
        for st in node.body:
            if isinstance(st, ast.FunctionDef):
                decos = deco_names(st)
                fi = FuncInfo(
                    st.name, f'{node.name}.{st.name}', module, st, ci,
                    is_property='property' in decos,
                    is_classmethod='classmethod' in decos,
                    is_staticmethod='staticmethod' in decos,
                    is_abstract='abstractmethod' in decos,
                )
                ci.methods[st.name] = fi
            elif isinstance(st, ast.Assign) and len(st.targets) == 1 \
                    and isinstance(st.targets[0], ast.Name):
                ci.attrs[st.targets[0].id] = st.value
                ci.attr_nodes[st.targets[0].id] = st
            elif isinstance(st, ast.AnnAssign) \
                    and isinstance(st.target, ast.Name):
                ci.ann[st.target.id] = st.annotation
                ci.attr_nodes[st.target.id] = st
                if st.value is not None:
                    ci.attrs[st.target.id] = st.value
        return ci

    # ----------------------------------------------- keyword arguments -> positional
    def _signature(self, ci_or_fn, bound: bool):
        """positional parameter names of a function, or of the constructor of a class (dataclass fields in MRO order up to
        the KW_ONLY sentinel); None when unknown"""
        if isinstance(ci_or_fn, ClassInfo):
            ci = ci_or_fn
            init = self.resolve_method(ci, '__init__')
            if init is not None:
                return [p for p in init.pos_params if p != 'self']
            if not any('dataclass' in ast.unparse(d) for c in self.mro(ci) for d in c.decorators):
                return None
            names = []
            for c in reversed(self.mro(ci)):
                kw_only = False
                for st in c.node.body:
                    if isinstance(st, ast.AnnAssign) and isinstance(st.target, ast.Name):
                        ann = ast.unparse(st.annotation)
                        if st.target.id == '_' and 'KW_ONLY' in ann:
                            kw_only = True
                            continue
                        if 'ClassVar' in ann:
                            continue
                        if st.value is not None and isinstance(st.value, ast.Call) and ast.unparse(st.value.func) == 'field' \
                                and any(k.arg == 'init' and isinstance(k.value, ast.Constant) and k.value.value is False for k in st.value.keywords):
                            continue
                        if st.target.id in names:
                            continue
                        if not kw_only:
                            names.append(st.target.id)
            return names
        a = ci_or_fn.args
        ps = [x.arg for x in a.posonlyargs + a.args]
        return ps[1:] if bound and ps else ps

    def _register_signatures(self) -> None:
        """hand the positional parameter lists of the package's functions, classes and methods to the term normaliser, which
        reads ``f(a, y=b)`` as ``f(a, b)`` when ``y`` is the next positional parameter - in the code and in the spec formulas alike"""
        from . import terms as T
        fns, meths = {}, {}
        for mi in self.modules.values():
            for name, fi in mi.functions.items():
                fns.setdefault(name, []).append(self._signature(fi.node, bound=False))
        for name, ci in self.classes.items():
            sig = self._signature(ci, bound=False)
            if sig is not None:
                fns.setdefault(name, []).append(sig)
            for mname, fi in ci.methods.items():
                if not fi.is_property:
                    meths.setdefault(mname, []).append(self._signature(fi.node, bound=not fi.is_staticmethod))
        T.SIGNATURES = {k: v[0] for k, v in fns.items() if all(x == v[0] for x in v) and v[0]}
        T.METHOD_SIGNATURES = {k: v[0] for k, v in meths.items() if all(x == v[0] for x in v) and v[0]}

    def _canon_kwargs(self) -> None:
        """``f(a, y=b)`` is read as ``f(a, b)`` when ``y`` is the next positional parameter of the resolved callee (methods through
        the MRO, module-level functions and classes of the package, nested functions): how an argument is passed changes nothing"""
        for mi in self.modules.values():
            def visit(body, ci):
                for st in body:
                    if isinstance(st, ast.ClassDef):
                        visit(st.body, self.classes.get(st.name))
                    elif isinstance(st, ast.FunctionDef):
                        self._canon_kwargs_fn(mi, ci, st)
            visit(mi.tree.body, None)

    def _canon_kwargs_fn(self, mi, ci, fn) -> None:
        nested = {n.name: n for n in ast.walk(fn) if isinstance(n, ast.FunctionDef) and n is not fn}
        for call in [n for n in ast.walk(fn) if isinstance(n, ast.Call)]:
            if not call.keywords or any(k.arg is None for k in call.keywords) or any(isinstance(a, ast.Starred) for a in call.args):
                continue
            f = call.func
            sig = None
            if isinstance(f, ast.Attribute) and isinstance(f.value, ast.Name) and f.value.id in ('self', 'cls') and ci is not None:
                m = self.resolve_method(ci, f.attr)
                if m is not None and not m.is_property:
                    sig = self._signature(m.node, bound=not m.is_staticmethod)
            elif isinstance(f, ast.Attribute) and isinstance(f.value, ast.Call) and isinstance(f.value.func, ast.Name) \
                    and f.value.func.id == 'super' and ci is not None:
                m = self.resolve_method(ci, f.attr, after=ci)
                if m is not None and not m.is_property:
                    sig = self._signature(m.node, bound=not m.is_staticmethod)
            elif isinstance(f, ast.Name):
                if f.id in nested:
                    sig = self._signature(nested[f.id], bound=False)
                elif f.id in self.classes and (f.id in mi.classes or f.id in mi.imports):
                    sig = self._signature(self.classes[f.id], bound=False)
                elif f.id in mi.functions:
                    sig = self._signature(mi.functions[f.id].node, bound=False)
                elif f.id in mi.imports and mi.imports[f.id].startswith('pokerkit.'):
                    mod, _, name = mi.imports[f.id].rpartition('.')
                    tm = self.modules.get(mod.split('.')[-1])
                    if tm is not None and name in tm.functions:
                        sig = self._signature(tm.functions[name].node, bound=False)
            if not sig:
                continue
            kws = {k.arg: k for k in call.keywords}
            args = list(call.args)
            i = len(args)
            while i < len(sig) and sig[i] in kws:
                args.append(kws.pop(sig[i]).value)
                i += 1
            if len(args) != len(call.args):
                call.args = args
                call.keywords = [k for k in call.keywords if k.arg in kws]

    # ------------------------------------------------------------- accessors
    def module(self, name: str) -> ModuleInfo:
        if name not in self.modules:
            raise AnalysisError(f'module {name} missing')
        return self.modules[name]

    def cls(self, name: str) -> ClassInfo:
        if name not in self.classes:
            raise AnalysisError(f'anchor class {name} vanished')
        return self.classes[name]

    def func(self, qualname: str) -> FuncInfo:
        """'State.push_chips' or 'utilities.rake' (module function)."""
        a, _, b = qualname.partition('.')
        if a in self.classes and b in self.classes[a].methods:
            return self.classes[a].methods[b]
        if a in self.modules and b in self.modules[a].functions:
            return self.modules[a].functions[b]
        if a in self.classes:
            fi = self.resolve_method(self.classes[a], b)
            if fi is not None:
                return fi
        raise AnalysisError(f'anchor function {qualname} vanished')

    def has_func(self, qualname: str) -> bool:
        try:
            self.func(qualname)
        except AnalysisError:
            return False
        return True

    # ------------------------------------------------------------------- mro
    def mro(self, ci: ClassInfo) -> list[ClassInfo]:
        if ci.name in self._mro:
            return self._mro[ci.name]
        seqs = []
        for b in ci.base_names:
            b = b.split('.')[-1]
            if b in self.classes:
                seqs.append(list(self.mro(self.classes[b])))
        seqs.append([
            self.classes[b.split('.')[-1]] for b in ci.base_names
            if b.split('.')[-1] in self.classes
        ])
        res = [ci]
        seqs = [s for s in seqs if s]
        while seqs:
            for s in seqs:
                cand = s[0]
                if not any(cand in t[1:] for t in seqs):
                    break
            else:
                raise AnalysisError(f'inconsistent MRO for {ci.name}')
            res.append(cand)
            seqs = [[x for x in s if x is not cand] for s in seqs]
            seqs = [s for s in seqs if s]
        self._mro[ci.name] = res
        return res

    def resolve_attr(self, ci: ClassInfo, name: str):
        """(owner class, value expr) of a class attribute through the MRO."""
        for c in self.mro(ci):
            if name in c.attrs:
                return c, c.attrs[name]
        return None, None

    def resolve_method(self, ci: ClassInfo, name: str, after: ClassInfo | None = None):
        mro = self.mro(ci)
        if after is not None:
            mro = mro[mro.index(after) + 1:]
        for c in mro:
            if name in c.methods:
                return c.methods[name]
        return None

    def subclasses(self, base: str) -> list[ClassInfo]:
        b = self.cls(base)
        return [c for c in self.classes.values()
                if c is not b and b in self.mro(c)]

    def is_abstract(self, ci: ClassInfo) -> bool:
        return any(b.split('.')[-1] == 'ABC' for b in ci.base_names)

    # ------------------------------------------------------------ statistics
    def digest(self) -> dict[str, str]:
        return {f'{PKG}/{m}.py': mi.sha256 for m, mi in self.modules.items()}

    def stats(self) -> dict:
        nf = sum(len(m.functions) for m in self.modules.values())
        nm = sum(len(c.methods) for c in self.classes.values())
        return {
            'modules': len(self.modules),
            'classes': len(self.classes),
            'module_functions': nf,
            'methods': nm,
        }


# -------------------------------------------------------------- ast helpers
def self_attr(node: ast.AST) -> str | None:
    """name of X if node is ``self.X``"""
    if (
            isinstance(node, ast.Attribute)
            and isinstance(node.value, ast.Name)
            and node.value.id == 'self'
    ):
        return node.attr
    return None


def self_call(node: ast.AST) -> str | None:
    """name of m if node is the call ``self.m(...)``"""
    if isinstance(node, ast.Call):
        return self_attr(node.func)
    return None


def walk_no_nested(node: ast.AST):
    """ast.walk that does not descend into nested function/lambda bodies."""
    todo = [node]
    first = True
    while todo:
        n = todo.pop()
        if not first and isinstance(n, (ast.FunctionDef, ast.AsyncFunctionDef, ast.ClassDef)):
            continue
        first = False
        yield n
        todo.extend(ast.iter_child_nodes(n))


def loc(fi_or_module, node: ast.AST) -> str:
    m = fi_or_module.module if hasattr(fi_or_module, 'module') else fi_or_module
    return f'{PKG}/{m}.py:{getattr(node, "lineno", 0)}'


def stmt_text(node: ast.AST, limit: int = 160) -> str:
    t = ' '.join(ast.unparse(node).split())
    return t if len(t) <= limit else t[:limit - 3] + '...'
