"""Self-test corpus of the checker (thorough tier).

Each entry is a textual edit of one module of /repo/pokerkit that still
compiles.  `fire` entries break a property (the named check must report a
violation whose rule id starts with `rule`); `silent` entries are behaviour
preserving refactorings (every listed check must stay green).  Entries whose
`old` text is no longer present in the tree are skipped and counted as stale
(the corpus follows the code, it does not pin it).  The seeded changes under
/verif/seeded/*/patch.diff are added automatically as `fire` entries for the
property they were written against.
"""

S = 'state'
FIRE = [
    # ---- C01
    ('C01', S, "                    self.stacks[i] += overbet\n                    self.payoffs[i] += overbet", "                    self.stacks[i] += overbet", 'C01.mirror'),
    ('C01', S, "        self.payoffs[player_index] += amount\n        self.bets[player_index] = 0", "        self.payoffs[player_index] += amount", 'C01.'),
    ('C01', S, "        delta = amount - self.bets[player_index]", "        delta = amount - max(self.bets)", 'C01.'),
    ('C01', S, "                if i == player_indices[0]:\n                    sub_sub_sub_amount += remainder", "                if i == player_indices[-1]:\n                    sub_sub_sub_amount += remainder", 'C01.divmod'),
    ('C01', S, "                    if not j:\n                        sub_amount += remainder", "                    if j:\n                        sub_amount += remainder", 'C01.divmod'),
    ('C01', S, "                amount += pots.pop().amount", "                amount += pots.pop().unraked_amount", 'C01.pots'),
    ('C01', 'utilities', "    raked_amount = min(raked_amount, cap)\n    unraked_amount = amount - raked_amount", "    unraked_amount = amount - raked_amount\n    raked_amount = min(raked_amount, cap)", 'C01.helpers'),
    ('C01', S, "        return min(self.stacks[player_index], self.bring_in)", "        return self.bring_in", 'C01.bounds'),
    ('C01', S, "            self.chips_pulling_statuses[i] = self.bets[i] > 0", "            self.chips_pulling_statuses[i] = self.bets[i] > 1", 'C01.terminal'),
    # ---- C02
    ('C02', S, "                if (\n                        pending_contributions[i] >= contribution\n                        and self.statuses[i]\n                ):", "                if pending_contributions[i] >= contribution:", 'C02.eligible'),
    ('C02', S, "                i for i in pot.player_indices if hands[i] == max_hand", "                i for i in self.player_indices if hands[i] == max_hand", 'C02.winners'),
    ('C02', S, "            max_hand = max_or_none(\n                map(partial(getitem, hands), pot.player_indices),\n            )\n            player_indices = [", "            max_hand = max_or_none(hands)\n            player_indices = [", 'C02.winners'),
    # ---- C03
    ('C03', S, "        amount = max(\n            self.completion_betting_or_raising_amount,\n            self.street.min_completion_betting_or_raising_amount,\n        )", "        amount = self.street.min_completion_betting_or_raising_amount", 'C03.S3'),
    ('C03', S, "                completion_betting_or_raising_amount\n                >= self.completion_betting_or_raising_amount\n        ):", "                completion_betting_or_raising_amount\n                > self.completion_betting_or_raising_amount\n        ):", 'C03.S9'),
    ('C03', S, "            if self.mode == Mode.TOURNAMENT:\n                raise ValueError(message)", "            if self.mode != Mode.TOURNAMENT:\n                raise ValueError(message)", 'C03.S8'),
    ('C03', S, "            max(0, effective_stacks[-2] - self.bets[player_index]),", "            max(0, effective_stacks[-1] - self.bets[player_index]),", 'C03.S12'),
    ('C03', S, "        self.actor_indices.rotate(-self.opener_index)", "        self.actor_indices.rotate(self.opener_index)", 'C03.S10'),
    ('C03', S, "            case BettingStructure.FIXED_LIMIT:\n                amount = self.min_completion_betting_or_raising_to_amount", "            case BettingStructure.FIXED_LIMIT:\n                amount = self.pot_completion_betting_or_raising_to_amount", 'C03.S5'),
    # ---- C04
    ('C04', 'hands', "ordering = self.entry > other.entry", "ordering = self.entry >= other.entry", 'C04.operators'),
    ('C04', 'lookups', "self.__entry_count += 1", "pass", 'C04.lookup_core'),
    ('C04', 'lookups', "        self._add_multisets(Counter({1: 5}), (True,), Label.FLUSH)\n        self._add_multisets(Counter({3: 1, 2: 1}), (False,), Label.FULL_HOUSE)", "        self._add_multisets(Counter({3: 1, 2: 1}), (False,), Label.FULL_HOUSE)\n        self._add_multisets(Counter({1: 5}), (True,), Label.FLUSH)", 'C04.categories'),
    ('C04', 'utilities', "return len(set(cls.get_suits(cards))) <= 1", "return len(set(cls.get_suits(cards))) < 1", 'C04.validity'),
    ('C04', 'hands', "return self.entry == other.entry", "return self.cards == other.cards", 'C04.operators'),
    # ---- C05
    ('C05', 'hands', "hand = super().from_game(hole_cards, combination)", "hand = super().from_game(combination, hole_cards)", 'C05.source'),
    ('C05', 'hands', "if max_hand is None or hand > max_hand:", "if max_hand is None or hand < max_hand:", 'C05.polarity'),
    ('C05', 'hands', "for count in range(4, 0, -1):", "for count in range(1, 5):", 'C05.badugi'),
    ('C05', 'hands', "for combination in combinations(hole_cards, cls.hole_card_count):", "for combination in combinations(hole_cards, cls.board_card_count):", 'C05.source'),
    # ---- C06
    ('C06', S, "        self._consume_cards((card,))\n\n        self.card_burning_status = False", "        self.card_burning_status = False", 'C06.move'),
    ('C06', S, "            self.mucked_cards.clear()\n            self.burn_cards.clear()", "            self.mucked_cards.clear()", 'C06.consume'),
    ('C06', S, "        if deal_count is None or deal_count > len(self.deck_cards):\n            cards += tuple(shuffled(self.reserved_cards))", "        if deal_count is None or deal_count >= 0:\n            cards += tuple(shuffled(self.reserved_cards))", 'C06.engine_cards'),
    ('C06', S, "            self.discarded_cards[self.street_index].append(card)", "            self.mucked_cards.append(card)", 'C06.destinations'),
    ('C06', S, "            cards = dealable_cards[:cards]", "            cards = dealable_cards[-cards:]", 'C06.engine_cards'),
    ('C06', S, "        self._consume_cards(cards)\n\n        for card in cards:\n            status = self.hole_dealing_statuses[player_index].popleft()", "        self._consume_cards(cards[1:])\n\n        for card in cards:\n            status = self.hole_dealing_statuses[player_index].popleft()", 'C06.move'),
    # ---- C07
    ('C07', S, "        self._begin_chips_pushing()\n\n    @property\n    def hand_killing_indices", "        self._begin_chips_pulling()\n\n    @property\n    def hand_killing_indices", 'C07.graph'),
    ('C07', S, "        elif self.street is self.streets[-1] or self.all_in_status:\n            self._begin_showdown()", "        elif self.street is self.streets[-1] and self.all_in_status:\n            self._begin_showdown()", 'C07.transitions'),
    ('C07', S, "        operation = Folding(player_index, commentary=commentary)\n\n        self._update_betting(operation)", "        operation = Folding(player_index, commentary=commentary)\n\n        self._update(operation)", 'C07.update_last'),
    ('C07', S, "                    while self.hole_dealee_index is not None:\n                        self.deal_hole()", "                    while any(self.hole_dealing_statuses):\n                        self.deal_hole()", 'C07.reentrancy'),
    # ---- C08
    ('C08', S, "        self.verify_bet_collection()\n\n        assert self.bet_collection_status", "        self.bet_collection_status = False\n        self.verify_bet_collection()\n\n        assert self.bet_collection_status", 'C08.verify_first'),
    ('C08', S, "    def _verify_hand_killing(self) -> None:\n        if not any(self.hand_killing_statuses):", "    def _verify_hand_killing(self) -> None:\n        self.actor_indices.clear()\n        if not any(self.hand_killing_statuses):", 'C08.pure'),
    ('C08', S, "            self.verify_chips_pulling(player_index)\n        except (ValueError, UserWarning):", "            self.verify_chips_pulling()\n        except (ValueError, UserWarning):", 'C08.forwarding'),
    ('C08', S, "            self.verify_folding()\n        except (ValueError, UserWarning):", "            self.verify_folding()\n        except ValueError:", 'C08.wrappers'),
    ('C08', S, "                if i in self.actor_indices:\n                    self.actor_indices.remove(i)", "                self.actor_indices.remove(i)", 'C08.loop_membership'),
    ('C08', S, "        player_index = self.verify_ante_posting(player_index)\n        amount = self.get_effective_ante(player_index)", "        amount = self.get_effective_ante(player_index)\n        player_index = self.verify_ante_posting(player_index)", 'C08.raw_use'),
    # ---- C09
    ('C09', S, "        if not self.actor_indices or sum(self.statuses) <= 1 or status:\n            self._end_betting()", "        if not self.actor_indices or sum(self.statuses) <= 1 or status:\n            self._end_betting()\n        elif Automation.BET_COLLECTION in self.automations and self.can_check_or_call() and not self.checking_or_calling_amount and len(self.actor_indices) == 1:\n            self.check_or_call()", 'C09.'),
    # ---- C10
    ('C10', S, "                key=lambda i: (len(self.hole_dealing_statuses[i]), -i),", "                key=lambda i: (len(self.hole_dealing_statuses[i]), i),", 'C10.order'),
    ('C10', S, "            self.hole_dealing_statuses[player_index].append(\n                self.hole_card_statuses[player_index][index],\n            )", "            self.hole_dealing_statuses[player_index].append(False)", 'C10.draw'),
    ('C10', S, "        self.board_dealing_counts[board_index] -= len(cards)", "        self.board_dealing_counts[board_index] = 0", 'C10.board'),
    ('C10', S, "        elif self.hole_dealing_statuses and self.draw_status:", "        elif self.hole_dealing_statuses and self.draw_status and self.board_dealing_count:", 'C10.street'),
    # ---- C11
    ('C11', 'games', "class FixedLimitRazz(FixedLimitPokerMixin, SevenCardStud):", "class FixedLimitRazz(NoLimitPokerMixin, SevenCardStud):", 'C11.'),
    ('C11', 'games', "    deck = Deck.REGULAR\n    hand_types = (RegularLowHand,)\n    low = True", "    deck = Deck.STANDARD\n    hand_types = (RegularLowHand,)\n    low = True", 'C11.table'),
    ('C11', 'notation', "        'FR': FixedLimitRazz,", "        'FR': FixedLimitSevenCardStud,", 'C11.codes'),
    # ---- C12
    ('C12', S, "            status = self.all_in_status or self.can_win_now(player_index)", "            status = self.can_win_now(player_index)", 'C12.default'),
    ('C12', S, "max_hand is None or max_hand <= hand", "max_hand is None or max_hand < hand", 'C12.coverage'),
    # ---- C13
    ('C13', S, "                self.opener_index = entries.index(max_or_none(entries))", "                self.opener_index = entries.index(min_or_none(entries))", 'C13.table'),
    ('C13', S, "            blind_or_straddle = abs(self.blinds_or_straddles[not player_index])", "            blind_or_straddle = abs(self.blinds_or_straddles[player_index])", 'C13.heads_up'),
    # ---- C14
    ('C14', S, "                self.runout_count = 1", "                pass", 'C14.consensus'),
    ('C14', S, "                    index //= self.runout_count", "                    index %= self.runout_count", 'C14.indexing'),
    ('C14', S, "                self.street_return_count = self.runout_count - 1", "                self.street_return_count = self.runout_count", 'C14.once'),
    ('C14', S, "            board_count = self.starting_board_count * self.runout_count", "            board_count = self.starting_board_count + self.runout_count", 'C14.board_count'),
    # ---- C15
    ('C15', S, "        operation = AntePosting(player_index, amount, commentary=commentary)", "        operation = AntePosting(player_index, self.antes[player_index], commentary=commentary)", 'C15.record'),
    ('C15', S, "        operation = Folding(player_index, commentary=commentary)", "        operation = Folding(player_index)", 'C15.record'),
    ('C15', S, "    acted_player_indices: set[int] = field(default_factory=set, init=False)", "    acted_player_indices: set[int] = field(default=set(), init=False)", 'C15.instance_state'),
    # ---- C16
    ('C16', 'notation', "        kwargs.setdefault('ante_trimming_status', game.ante_trimming_status)\n", "", 'C16.fields'),
    ('C16', 'notation', "                action = f'p{operation.player_index + 1} cc'", "                action = f'p{operation.player_index + 1} c'", 'C16.verbs'),
    ('C16', 'notation', "        case player, 'f':", "        case player, 'fold':", 'C16.verbs'),
    ('C16', 'notation', "            if '\\'' not in value and not controls & set(value):", "            if not controls & set(value):", 'C16.toml_writer'),
    # seed C16_1 ported to the repaired writer: the basic-string arm no longer escapes backslash / double quote
    ('C16', 'notation', "                if c == '\\\\' or c == '\"':\n                    escaped_value += f'\\\\{c}'\n                elif c in controls:", "                if c in controls:", 'C16.toml_writer'),
    # ---- C17
    ('C17', 'notation', "                    amount = -state.payoffs[operation.player_index]\n                    actions += f'r{amount}'", "                    amount = operation.amount\n                    actions += f'r{amount}'", 'C17.cumulative'),
    ('C17', 'notation', "                    max_amount = amount\n                    amount -= previous_max_amount", "                    amount -= previous_max_amount\n                    max_amount = amount", 'C17.cumulative'),
    ('C17', 'notation', "            raw_payoffs.append(finishing_stack - starting_stack)", "            raw_payoffs.append(starting_stack - finishing_stack)", 'C17.payoff'),
    # ---- C18
    ('C18', 'analysis', "                yield from iterate(permutations(__SUITS, 2))", "                yield from iterate(combinations(__SUITS, 2))", 'C18.cardinality'),
    ('C18', 'analysis', "        if max_hand is not None:\n            statuses.append", "        if True:\n            statuses.append", 'C18.nullable_max'),
    ('C18', 'analysis', "            probability *= chip_percentage / denominator\n            denominator -= chip_percentage", "            denominator -= chip_percentage\n            probability *= chip_percentage / denominator", 'C18.icm'),
    # ---- C19
    ('C19', 'utilities', "            parsed_values[key] += value", "            parsed_values[key] = value", 'C19.values'),
    ('C19', S, "        elif min(self.starting_stacks) <= 0:", "        elif min(self.starting_stacks) < 0:", 'C19.validation'),
    ('C19', 'utilities', "    elif isinstance(values, Mapping):", "    elif isinstance(values, dict):", 'C19.values'),
    # ---- C20
    ('C20', 'notation', "        return bets[player] + completion_betting_or_raising_amount\n\n\n@dataclass\nclass FullTiltPokerParser", "        return completion_betting_or_raising_amount\n\n\n@dataclass\nclass FullTiltPokerParser", 'C20.conventions'),
    ('C20', 'notation', "                bets[formatted_player] = max(bets.values(), default=0)\n", "", 'C20.bookkeeping'),
    ('C20', 'notation', "    FOLDING = compile(r'(?P<player>.+): folds')", "    FOLDING = compile(r'(?P<name>.+): folds')", 'C20.patterns'),
]

# behaviour-preserving edits: (checks that must stay silent, module, old, new)
SILENT = [
    (('C15', 'C08', 'C01'), S, "        amount = self.get_effective_ante(player_index)\n\n        assert self.ante_posting_statuses[player_index]", "        amount = self.get_effective_ante(player_index)\n        raw = self.antes[player_index]  # noqa\n\n        assert self.ante_posting_statuses[player_index]"),
    (('C07', 'C09'), S, "            if self.bet_collection_status:\n                self.collect_bets()", "            self.collect_bets()"),
    (('C05',), 'hands', "                if max_hand is None or hand > max_hand:\n                    max_hand = hand\n\n        if max_hand is None:\n            raise ValueError(\n                (\n                    f'No valid {cls.__qualname__} hand can be formed'", "                if max_hand is None or not hand <= max_hand:\n                    max_hand = hand\n\n        if max_hand is None:\n            raise ValueError(\n                (\n                    f'No valid {cls.__qualname__} hand can be formed'"),
    (('C03', 'C01'), S, "        return min(self.stacks[player_index], self.bring_in)", "        return min(self.bring_in, self.stacks[player_index])"),
    (('C03',), S, "        if (\n                self.stacks[player_index]\n                <= max(self.bets) - self.bets[player_index]\n        ):", "        if not (\n                self.stacks[player_index]\n                > max(self.bets) - self.bets[player_index]\n        ):"),
    (('C03', 'C01'), S, "            max(self.bets) - self.bets[player_index],\n        )\n\n    def verify_checking_or_calling", "            -self.bets[player_index] + max(self.bets),\n        )\n\n    def verify_checking_or_calling"),
    (('C01', 'C15', 'C08', 'C07'), S, "        self.stacks[player_index] -= amount\n        self.payoffs[player_index] -= amount\n\n        operation = CheckingOrCalling(", "        self.payoffs[player_index] -= amount\n        self.stacks[player_index] -= amount\n\n        operation = CheckingOrCalling("),
    (('C08', 'C07', 'C09', 'C15', 'C01'), S, "            raise ValueError('Nobody can post the ante.')", "            raise ValueError('No ante is pending.')"),
    (('C19',), S, "        elif self.player_count < 2:", "        elif not self.player_count >= 2:"),
    (('C02', 'C01', 'C12'), S, "            player_indices = [\n                i for i in pot.player_indices if hands[i] == max_hand\n            ]", "            player_indices = [\n                k for k in pot.player_indices if hands[k] == max_hand\n            ]"),
    (('C10', 'C07'), S, "            if self.statuses[i]:\n                self.hole_dealing_statuses[i].extend(\n                    self.street.hole_dealing_statuses,\n                )\n                self.standing_pat_or_discarding_statuses[i] = (\n                    self.street.draw_status\n                )", "            if self.statuses[i]:\n                self.standing_pat_or_discarding_statuses[i] = (\n                    self.street.draw_status\n                )\n                self.hole_dealing_statuses[i].extend(\n                    self.street.hole_dealing_statuses,\n                )"),
    (('C04',), 'hands', "        if self.low:\n            ordering = self.entry > other.entry\n        else:\n            ordering = self.entry < other.entry", "        if not self.low:\n            ordering = self.entry < other.entry\n        else:\n            ordering = other.entry < self.entry"),
    (('C14', 'C08'), S, "        elif runout_count is not None and runout_count < 1:", "        elif runout_count is not None and not runout_count >= 1:"),
    (('C18',), 'analysis', "            probability *= chip_percentage / denominator", "            probability *= (chip_percentage / denominator)"),
    (('C06', 'C15'), S, "        self.card_burning_status = False\n        self.burn_cards.append(card)", "        self.burn_cards.append(card)\n        self.card_burning_status = False"),
    (('C13', 'C03'), S, "        self.bring_in_status = (\n            self.street is self.streets[0]\n            and self.bring_in > 0\n        )", "        self.bring_in_status = (\n            self.bring_in > 0\n            and self.street is self.streets[0]\n        )"),
    (('C11',), 'games', "class FixedLimitRazz(FixedLimitPokerMixin, SevenCardStud):\n", "class FixedLimitRazz(FixedLimitPokerMixin, SevenCardStud):\n    # razz: seven card stud played for the lowest ace-to-five hand\n"),
    (('C16',), 'notation', "            elif isinstance(operation, Folding):\n                action = f'p{operation.player_index + 1} f'\n            elif isinstance(operation, CheckingOrCalling):\n                action = f'p{operation.player_index + 1} cc'", "            elif isinstance(operation, CheckingOrCalling):\n                action = f'p{operation.player_index + 1} cc'\n            elif isinstance(operation, Folding):\n                action = f'p{operation.player_index + 1} f'"),
]
