"""Which properties are claimed, with the level text and trusted base of each.
MANIFEST.json is generated from this table (tools/gen_manifest.py)."""

PENDING = 'static check for this property is still under construction in this session; the clause planned for it is in DESIGN.md section 3'

CHECKS = {
    'C11': {
        'level': 'Static evaluation of the variant declarations (class attributes through the C3 MRO, the literal Street(...) tuples of the '
                 'constructor chains with symbolic parameters, the factories, Poker.__call__, the PHH code tables) compared with a table '
                 'transcribed from docs/simulation.rst and the rules; exhaustive over the 12 classes because configuration is declaration, not behaviour.',
        'note': 'Decides the configuration each variant creates, for all parameter values at once; how the engine behaves on that configuration '
                'is the subject of C03/C10. Trusts the spec table in pkstatic/rules/c11.py and the Python MRO semantics re-implemented in model.py.',
        'technique': 'static evaluation of declarations + MRO resolution vs documented table',
    },
}

ALL = [f'C{i:02d}' for i in range(1, 21)]
NOT_APPLICABLE = {p: PENDING for p in ALL if p not in CHECKS}
