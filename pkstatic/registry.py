"""Which properties are claimed, with the level text and trusted base of each.
MANIFEST.json is generated from this table (tools/gen_manifest.py)."""

PENDING = 'static check for this property is still under construction in this session; the clause planned for it is in DESIGN.md section 3'

CHECKS = {
    'C11': {
        'level': 'Static evaluation of the variant declarations (class attributes through the C3 MRO, the literal Street(...) tuples of the '
                 'constructor chains with symbolic parameters, the factories, Poker.__call__, the PHH code tables) compared with a table '
                 'transcribed from docs/simulation.rst and the rules; exhaustive over the 12 classes because configuration is declaration, not behaviour.',
        'note': 'Decides the configuration each variant creates, for all parameter values at once; how the engine behaves on that configuration '
                'is the subject of C03/C10. Trusts the spec table in pkstatic/rules/c11.py and the Python MRO semantics re-implemented in model.py.',
        'technique': 'static evaluation of declarations + MRO resolution vs documented table',
    },
}

CHECKS['C04'] = {
    'level': 'Static evaluation of the declarations that define hand strength: rank orders, decks, the literal category sequence of every '
             'lookup (_add_entries call sequence incl. loops over literal ranges), the attribute table of the 11 hand classes through the MRO; '
             'path summaries of __lt__/__eq__/__hash__/__init__/has_entry/_get_key against spec terms.',
    'note': 'Decides category order, rank conventions, low/high polarity, equality/hash basis and the validity gate for every hand of every type at once. '
            'Does NOT decide the kicker order inside one category (produced by Lookup.__hash_multisets, an algorithm over thousands of classes; '
            'no static argument in reach - the md5 tests pin it). Trusts the spec tables in pkstatic/rules/c04.py.',
    'technique': 'static evaluation of lookup/hand declarations + operator path summaries vs spec terms',
}
CHECKS['C05'] = {
    'level': 'Search-shape agreement: for every from_game implementation the enumerated collection, the class attribute used as combination size, '
             'the arguments handed to super(), the polarity of the maximisation (siblings must agree), error discipline and the badugi '
             'largest-first search are extracted from the path summaries and compared with the composition rule of each game.',
    'note': 'Decides that the search ranges over exactly the legal combinations and keeps the strongest; optimality on concrete cards follows from that '
            'plus the order decided in C04, as an argument, not as an enumeration of deals. Trusts itertools.combinations.',
    'technique': 'path-sensitive summaries of the best-of searches vs composition-rule table',
}

CHECKS['C07'] = {
    'level': 'Typestate + re-entrancy analysis of the hand-written phase machine: the phase graph and hand-over conditions extracted from the '
             '_begin/_update/_end methods (all paths, loop bodies 0/1x) against the documented graph; operation shape (log + own update step last), '
             'progress on the pending structure per operation, no raise after first write / in the cascade; and the stale-guard rule: every operation '
             'called from inside the cascade must be called under a statement of its phase precondition (negated raise guards of its verifier) that '
             'is fresh w.r.t. the transitive MOD sets of the calls since.',
    'note': 'Decides local hand-over, progress and re-entrancy for every path and every automation subset at once. Does NOT decide the numeric '
            'termination bound of a betting round, "exactly one phase" as a global invariant, or deck-size preconditions. Phase preconditions are '
            'the state-only top-level raise guards of the verifier chain; asserts are beliefs.',
    'technique': 'typestate/phase-graph extraction + stale-guard (re-entrancy) dataflow over MOD* sets',
}
CHECKS['C08'] = {
    'level': 'Triple agreement: (operation, verifier, query) triples discovered by role and compared with the documented table; name-to-name forwarding '
             'of arguments and of verifier returns; verifier call dominates every write/mutating call on every path; empty transitive MOD set for every '
             'verifier, query, property and public getter; RAISES* of verifiers within {ValueError, UserWarning} and covered by every wrapper; no write '
             'indexed by a raw argument; lookup-and-remove loops covered by a multiplicity bound.',
    'note': 'Decides the contract for all states and argument values that the structure can see. Does NOT decide exceptions from ill-typed arguments '
            'or from library calls (next(), list.index) beyond the loop-membership rule; truth of asserts is not assumed.',
    'technique': 'sibling cross-check of verify/can/operate triples + MOD/RAISES effect closure + dominance on enumerated paths',
}
CHECKS['C09'] = {
    'level': 'Non-interference: the automation tuple is read only in phase update steps as a membership test; members <-> guarded sites <-> documented '
             'operations are in bijection; automated calls are the public operations with default arguments, in the update step of their own phase, '
             'under a freshly re-evaluated precondition; nothing reachable from an operation outside the update steps consults the tuple.',
    'note': 'Decides that automation can only change who invokes the same method with the same defaults at the moment it becomes available, for all 2^11 '
            'subsets at once. Does NOT decide the relative order of two simultaneously available steps versus an arbitrary manual order.',
    'technique': 'information-flow confinement of the automation flag + site/operation bijection + stale-guard dataflow',
}

CHECKS['C01'] = {
    'level': 'Ledger / effect analysis on every path of every method that writes the chips: symbolic per-cell deltas of stacks, payoffs and bets '
             '(mirror, transfer), the refund rule of the collection, pot <- -payoffs - bets and rake plumbing, quotient/remainder distribution at every '
             'divmod site (loop arity derived from the getters, remainder exactly once for the first element), static upper bounds of every stack '
             'decrement through inlined getters, symbolic identities of the default divmod/rake, ledger ownership over all modules, terminal pull rule, '
             'and exhaustiveness of the arms that queue pots.',
    'note': 'Conservation is reduced to clauses that are each visible on every path: stack-payoff mirror + pots computed from -payoffs-bets imply '
            'stack+bet+pot = starting stack. Does NOT decide the arithmetic of the contribution-layer loop on concrete values, float/Decimal rounding, '
            'or user-supplied divmod/rake callbacks. Forced bets assume bet==0 on entry (asserted in the code; reported as an assumption).',
    'technique': 'path-sensitive symbolic delta (ledger) analysis + divmod distribution rule + bound inference',
}

CHECKS['C02'] = {
    'level': 'Eligibility dataflow: who is appended to a pot (live AND paid >= level), winners drawn from exactly pot.player_indices by equality with the '
             'maximum over exactly that set, hand types of a split data-dependent on the pot\'s own contenders, lone-survivor arm pays the one live '
             'player, dead players hold no hand on any path, showdown hands made from the right cards, writer/reader agreement and FIFO order of the '
             'sub-pot records.',
    'note': 'Decides the structural necessary conditions of correct awarding for every pot/board/hand-type at once. Does NOT decide hand strength '
            '(C04/C05), the amounts of the layers (C01), or pots whose every eligible player mucked (known finding under C01).',
    'technique': 'control/data-dependence of eligibility and winner selection on enumerated paths vs spec terms',
}
CHECKS['C06'] = {
    'level': 'Move-semantics / ownership analysis of the six card places: on every path of every mover each add is covered by a preceding '
             '_consume_cards of the same cards or a paired removal, each removal by an add or a preceding _produce_cards; replenish arm, reserve '
             'accessors, dealable-card rule, destinations of fold/kill/muck/burn/discard, and exclusive ownership of the containers.',
    'note': 'Decides no-duplication / no-loss for engine-moved cards as pairing obligations on all paths. Does NOT decide duplicates introduced by '
            'explicitly passed cards (the engine only warns, by design) nor concrete deck-size arithmetic.',
    'technique': 'linear (move) typestate of card containers over enumerated paths',
}
CHECKS['C15'] = {
    'level': 'Record fidelity: for every operation path the record fields are compared with the terms actually applied (player index = index written, '
             'amount = stack delta / new bet, cards = cards consumed), parameters all recorded, log append-only via _update; frozen records; every '
             'mutable State field per-instance, no class/global writes, no custom copy protocol; nondeterminism limited to the two shuffles; no set iteration.',
    'note': 'Decides the necessary conditions of replayability, determinism and copy independence. Does NOT decide equality of replayed or copied '
            'runs (a relation between runs).',
    'technique': 'path-sensitive record-vs-effect agreement + per-instance state and nondeterminism lints',
}

CHECKS['C03'] = {
    'level': 'Symbolic summaries against rule formulas: for each betting query, verifier and mutator the path-sensitive summary (path condition -> returned '
             'term / raise / writes) is compared clause by clause (S1-S13: call amount, bring-in, minimum / pot / maximum raise-to per structure, the '
             'refusal rules incl. cap and short all-in, range check, fold rule per mode, effects of a raise, round set-up and end, effective stack) with '
             'formulas written from the rules and pushed through the same normaliser.',
    'note': 'Decides each clause for all states and amounts at once, modulo the normaliser (AC, comparison orientation, linear arithmetic, negation). '
            'Does NOT decide that the clauses together admit exactly the legal histories (a statement about sequences); clockwise order is decided only '
            'as "deque rotated by the opener, popped from the left".',
    'technique': 'path-sensitive symbolic summaries compared with spec formulas through one term normaliser',
}

CHECKS['C10'] = {
    'level': 'Flow table of the dealing phase: each pending structure set by _begin_dealing flows from the matching Street attribute (live players only), '
             'the stud hole-to-board fallback, the refusal-guard sets of the burn/hole/board/draw verifiers and their defaults, the dealee order key, '
             'facings popped in order, draws re-queue the facing of the discarded card, betting gated by the all-clear guard, Street validation.',
    'note': 'Decides the protocol clauses for every street definition and survivor set at once. Does NOT decide counts on concrete histories.',
    'technique': 'def-use flow extraction on enumerated paths + guard-set comparison with spec terms',
}
CHECKS['C12'] = {
    'level': 'Default show/muck decision, kill set, coverage of can_win_now (boards x hand types x pots, ties accepted), sibling agreement of the best-hand '
             'expression with push_chips, tournament show-all constraints and showdown order, each as a path summary compared with a spec term.',
    'note': 'Decides that the automatic decision is "show iff all-in or can win" and "kill iff cannot win" with a can-win test that over-approximates '
            'winning. Does NOT decide equality of payoffs with the show-everything twin (a relation between runs).',
    'technique': 'path summaries vs spec terms + sibling cross-check (can_win_now ~ push_chips)',
}
CHECKS['C13'] = {
    'level': 'The opener term of each arm of the (exhaustive) match over Opening is compared with the rule table (position with signed blinds; low/high '
             'up-card with the right ace convention and suit tie-break; best/lowest exposed hand, earliest seat on ties); rank orders of the two opening '
             'lookups; heads-up reversal applied alike in the ante and blind accessors; bring-in condition; pruning of players who cannot act.',
    'note': 'Decides the selection rule for every layout and every assignment of up-cards at once. Category tables of the opening lookups are decided '
            'under C04. Does NOT decide concrete up-card assignments or the kicker order inside a category.',
    'technique': 'symbolic summary of the opening match arms vs rule table',
}
CHECKS['C14'] = {
    'level': 'Offer conditions of the run-out selection, single-writer rules for runout_count / street_return_* / selection flag, the consensus rule by '
             'path conditions, validated-count = applied-count forwarding, board_count, the shared-row indexing (board // r before the return street), '
             'the row arithmetic of deal_board and the even split over boards.',
    'note': 'Decides the structural clauses for all preference vectors, selection orders and b, r at once. Does NOT decide completeness of every board '
            'on concrete histories.',
    'technique': 'single-writer (ownership) rules + path-condition case analysis vs spec terms',
}

CHECKS['C16'] = {
    'level': 'Writer/reader tables: operation class -> verb (from_game_state) composed with verb -> method (parse_action) and method -> record class '
             '(operations) is the identity; player numbering inverse; every serialisable field create_game consumes is populated by from_game_state and '
             'listed for dumping; constructor keyword names per variant; repair branches call the operation their guard names; leftover actions raise; '
             'bool before int; totality of the TOML string/key writer over str by abstract interpretation over the character classes of the TOML grammar.',
    'note': 'Decides agreement of the two directions of the format and totality of the writer. Does NOT decide textual identity of dump(load(dump(x))) on '
            'concrete values nor tomllib itself.',
    'technique': 'writer/reader table agreement + abstract interpretation of the TOML writer over grammar character classes',
}
CHECKS['C17'] = {
    'level': 'Sibling agreement of the two protocol writers with each other and with the patterns and dispatch of the parser: action letters, cumulative '
             'no-limit raise size (-payoff) and its inverse per-street conversion with the baseline updated exactly at a separator, card visibility per '
             'viewer, payoff field, variant gates, terminal-only parse.',
    'note': 'Decides the clause-level agreement of writers and parser. Does NOT decide equality of emitted lines with the played hand on concrete histories.',
    'technique': 'cross-check of sibling implementations (two writers, one parser) against one letter/amount table',
}
CHECKS['C18'] = {
    'level': 'Static evaluation of the suit-combination expressions of the range parser over the four suits (6/4/12/16, disjointness and union), recursion '
             'of the + / - forms through base forms with the suitedness marker kept, separators, the nullable-maximum rule and share formula of the equity '
             'calculator, the selection filter over hole cards AND board, unused-deck sampling, and the ICM recurrence.',
    'note': 'Decides set identities of the notation (finite, evaluated exhaustively over suits) and the structure of the share/ICM formulas. Does NOT decide '
            'Monte-Carlo values or ICM numerics.',
    'technique': 'static evaluation of itertools declarations + formula-shape comparison',
}
CHECKS['C19'] = {
    'level': 'Type-dispatch order and arms of clean_values and Card.clean (abstract Mapping before generic Iterable, str before Iterable), card text '
             '(one distinct character per rank/suit, repr rank-then-suit, parse in two-character steps after 10->T), the complete guard list of '
             'State.__post_init__ against the rule table (and nothing else rejected), parse_value, and the symbolic identities of the default divmod / rake.',
    'note': 'Decides that every representation is normalised by the same total dispatch and that exactly the documented invalid layouts are rejected. '
            'Does NOT decide equality of created states.',
    'technique': 'dispatch-table extraction + guard-set comparison with spec terms + symbolic identities',
}
CHECKS['C20'] = {
    'level': 'Pattern tables: each site parser defines every pattern the generic driver reads, each matchable regex (parsed with re._parser) carries the '
             'named groups the driver subscripts (derived from the driver and compared with a table), variant alternatives enumerated from the regex are '
             'all mapped to PHH codes, the per-site raise-by/raise-to convention as a path summary, the per-street bet table bookkeeping, error handlers '
             'raise or warn, seat ordering / heads-up reversal / late posts.',
    'note': 'Decides the structural agreement between patterns, driver and conventions for all six sites. Does NOT decide agreement of a replay with the '
            'amounts of a concrete log (the corpora are not in the sandbox).',
    'technique': 'regex-AST (re._parser) group/alternative analysis + sibling agreement of site conventions',
}

ALL = [f'C{i:02d}' for i in range(1, 21)]
NOT_APPLICABLE = {p: PENDING for p in ALL if p not in CHECKS}


# ---- additions made after the seeded rounds 2-4 and the mutation audits (DESIGN.md section 3, last paragraphs)
ADDENDA = {
    'C02': ' Also: the pot arithmetic of C01 re-filed as C02.amounts (layers, merge, rake plumbing, quotient to every winner / board / hand type and '
           'the odd chips to the first of them), the face-up flags of a partial show (only tabled cards take part), the hand-type list in loop or comprehension form; C02.strongest = the best-of-combinations search clauses of C05 re-filed '
           '(the hand taken to the showdown is the one Hand.from_game forms); the default division of every variant is the package divmod.',
    'C04': ' Also: strict prime lookup of the rank hash, the full shape of the dense re-indexing, the window arithmetic of the straights, the None key of has_entry, unknown_status.',
    'C05': ' Also: C05.observed (State.get_hand / get_up_hand hand the evaluator the known / face-up cards and the asked board).',
    'C06': ' Also: C06.rows (one new list per player / street in _setup, no replicated mutable row anywhere in State), C06.show_fill (cards kept '
           'face down at a partial show are the held known cards not among the shown ones).',
    'C07': ' Also: C07.no_overdraw (amounts taken from a stack are bounded by it), C07.available (per-player steps and fold/check/bring-in are refused '
           'only for reasons the phase-end condition knows), C07.phase_check, the street closed only where chips pushing begins.',
    'C08': ' Also: every public verifier asks its phase verifier first; the operation itself neither raises nor warns.',
    'C11': ' Also: pot-limit semantics (pot-sized raise over bets + every collected pot, rake included); a side pot is halved only over hand types one of its own contenders holds.',
    'C12': ' Also: C12.show_flags (exactly the named cards are face up).',
    'C14': ' Also: board_dealing_count / verify_board_dealing (which board is dealt next).',
    'C15': ' Also: no field stores a closure / lambda / bound method / partial over the instance; contents of the BetCollection and HoleDealing records; a logged unknown card handed back at replay is a value (absence is tested with `is None`).',
    'C16': ' Also: every written action text compared part by part (f-strings included); parse_value reads back what dumps writes.',
    'C18': ' Also: per-sample isolation (copies), disjoint distribution of the drawn cards, mapper choice, number of opponents, statistics sources.',
    'C19': ' Also: the number / mapping / iterable arms reject nothing.',
    'C20': ' Also: the four-way button summary of _get_ordered_players; utilities.rotated.',
}
COMMON = (' Every check also runs four clauses over the functions the property is anchored in and the private helpers they call: <PID>.defined (no read of an '
          'undefined name, no local left unbound by a falling-through handler or if-arm), <PID>.arguments (named arguments in the positions of the '
          'same-named parameters, no mutable parameter default, a possibly one-shot iterable materialised before it is read twice), <PID>.writers '
          '(the attributes and module-level objects a function writes, and the number of writing sites, are those of the reviewed tree) and '
          '<PID>.static (no decorator beyond the plain ones of the code base, no attribute-rerouting or class-rewriting hook) - on sources put into '
          'normal form first (unknown helpers inlined at their call sites, functional spellings of the loop idioms, adjacent single-use locals, '
          'conditional expressions).')
for _pid, _c in CHECKS.items():
    _c['level'] = _c['level'] + ADDENDA.get(_pid, '') + COMMON
