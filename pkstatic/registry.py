"""Which properties are claimed, with the level text and trusted base of each.
MANIFEST.json is generated from this table (tools/gen_manifest.py)."""

PENDING = 'static check for this property is still under construction in this session; the clause planned for it is in DESIGN.md section 3'

CHECKS = {
    'C11': {
        'level': 'Static evaluation of the variant declarations (class attributes through the C3 MRO, the literal Street(...) tuples of the '
                 'constructor chains with symbolic parameters, the factories, Poker.__call__, the PHH code tables) compared with a table '
                 'transcribed from docs/simulation.rst and the rules; exhaustive over the 12 classes because configuration is declaration, not behaviour.',
        'note': 'Decides the configuration each variant creates, for all parameter values at once; how the engine behaves on that configuration '
                'is the subject of C03/C10. Trusts the spec table in pkstatic/rules/c11.py and the Python MRO semantics re-implemented in model.py.',
        'technique': 'static evaluation of declarations + MRO resolution vs documented table',
    },
}

CHECKS['C04'] = {
    'level': 'Static evaluation of the declarations that define hand strength: rank orders, decks, the literal category sequence of every '
             'lookup (_add_entries call sequence incl. loops over literal ranges), the attribute table of the 11 hand classes through the MRO; '
             'path summaries of __lt__/__eq__/__hash__/__init__/has_entry/_get_key against spec terms.',
    'note': 'Decides category order, rank conventions, low/high polarity, equality/hash basis and the validity gate for every hand of every type at once. '
            'Does NOT decide the kicker order inside one category (produced by Lookup.__hash_multisets, an algorithm over thousands of classes; '
            'no static argument in reach - the md5 tests pin it). Trusts the spec tables in pkstatic/rules/c04.py.',
    'technique': 'static evaluation of lookup/hand declarations + operator path summaries vs spec terms',
}
CHECKS['C05'] = {
    'level': 'Search-shape agreement: for every from_game implementation the enumerated collection, the class attribute used as combination size, '
             'the arguments handed to super(), the polarity of the maximisation (siblings must agree), error discipline and the badugi '
             'largest-first search are extracted from the path summaries and compared with the composition rule of each game.',
    'note': 'Decides that the search ranges over exactly the legal combinations and keeps the strongest; optimality on concrete cards follows from that '
            'plus the order decided in C04, as an argument, not as an enumeration of deals. Trusts itertools.combinations.',
    'technique': 'path-sensitive summaries of the best-of searches vs composition-rule table',
}

ALL = [f'C{i:02d}' for i in range(1, 21)]
NOT_APPLICABLE = {p: PENDING for p in ALL if p not in CHECKS}
