"""Engine D: flow-insensitive MOD / CALLS / RAISES per method of a class,
closed transitively over the resolved ``self`` call graph."""
from __future__ import annotations

import ast
from collections import defaultdict

from .model import ClassInfo, FuncInfo, Program, self_attr, walk_no_nested

MUTATORS = {
    'append', 'extend', 'pop', 'clear', 'remove', 'rotate', 'popleft',
    'appendleft', 'add', 'insert', 'sort', 'reverse', 'update', 'discard',
    'extendleft', 'setdefault', 'popitem', '__setitem__', '__delitem__',
}


def storage_roots(node: ast.AST, aliases: dict[str, set]) -> set:
    """``self.X`` reached by peeling Subscript/Attribute layers (or through a
    local alias of such storage); empty for fresh values."""
    while True:
        a = self_attr(node)
        if a is not None:
            return {a}
        if isinstance(node, (ast.Subscript, ast.Attribute)):
            node = node.value
            continue
        if isinstance(node, ast.Name):
            return set(aliases.get(node.id, ()))
        return set()


def storage_root(node: ast.AST, aliases: dict[str, set]) -> str | None:
    r = storage_roots(node, aliases)
    return sorted(r)[0] if r else None


def local_aliases(fn: ast.FunctionDef) -> dict[str, set]:
    """locals that alias storage reachable from self: ``x = self.A[i]``,
    ``for x in self.A`` / ``for i, x in enumerate(self.A)``.  One level, as
    the code base uses it; a call result (``.copy()``, ``list(...)``) is
    fresh."""
    aliases: dict[str, set] = {}
    changed = True
    while changed:
        changed = False
        for n in walk_no_nested(fn):
            pairs = []
            if isinstance(n, ast.Assign) and len(n.targets) == 1 \
                    and isinstance(n.targets[0], ast.Name):
                if isinstance(n.value, (ast.Subscript, ast.Attribute, ast.Name)):
                    pairs.append((n.targets[0].id, n.value))
            elif isinstance(n, ast.For):
                it = n.iter
                if isinstance(it, ast.Call) and isinstance(it.func, ast.Name) \
                        and it.func.id == 'enumerate' and it.args \
                        and isinstance(n.target, ast.Tuple) and len(n.target.elts) == 2 \
                        and isinstance(n.target.elts[1], ast.Name):
                    pairs.append((n.target.elts[1].id, it.args[0]))
                elif isinstance(n.target, ast.Name):
                    pairs.append((n.target.id, it))
            for name, src in pairs:
                r = storage_roots(src, aliases)
                # self.X itself bound to a name is an alias too, but a bare
                # scalar read (x = self.count) is harmless: only container
                # mutation / attribute stores through x are counted.
                if r - aliases.get(name, set()):
                    aliases.setdefault(name, set()).update(r)
                    changed = True
    return aliases


class Effects:
    def __init__(self, prog: Program, ci: ClassInfo):
        self.prog = prog
        self.ci = ci
        self.methods: dict[str, FuncInfo] = dict(ci.methods)
        self.direct_mod: dict[str, set[str]] = defaultdict(set)
        self.direct_raise: dict[str, set[str]] = defaultdict(set)
        self.calls: dict[str, set[str]] = defaultdict(set)
        self.reads: dict[str, set[str]] = defaultdict(set)
        self.write_sites: dict[str, list[tuple[str, ast.AST]]] = defaultdict(list)
        self.unresolved: list[tuple[str, str, int]] = []
        self.resolved_calls = 0
        for name, fi in self.methods.items():
            self._scan(name, fi)
        self.mod = self._close(self.direct_mod)
        self.raises = self._close(self.direct_raise)
        self.reach = self._reach()

    # ---------------------------------------------------------------- scan
    def _scan(self, name: str, fi: FuncInfo) -> None:
        fn = fi.node
        aliases = local_aliases(fn)
        for n in ast.walk(fn):
            targets = []
            if isinstance(n, ast.Assign):
                targets = n.targets
            elif isinstance(n, (ast.AugAssign, ast.AnnAssign)):
                targets = [n.target]
            elif isinstance(n, ast.Delete):
                targets = n.targets
            elif isinstance(n, (ast.For, ast.comprehension)):
                targets = [n.target]
            for t in targets:
                for y in (t.elts if isinstance(t, (ast.Tuple, ast.List)) else [t]):
                    if isinstance(y, ast.Starred):
                        y = y.value
                    if isinstance(y, ast.Name):
                        # ``x = self.A`` ... ``x += more``: for a list / deque / set / dict that is an in-place change of self.A
                        if isinstance(n, ast.AugAssign):
                            for b in walk_no_nested(fn):
                                if isinstance(b, ast.Assign) and len(b.targets) == 1 and isinstance(b.targets[0], ast.Name) \
                                        and b.targets[0].id == y.id and self_attr(b.value) is not None:
                                    ann = self.ci.ann.get(self_attr(b.value))
                                    if ann is not None and ast.unparse(ann).split('[')[0].strip() in ('list', 'deque', 'set', 'dict', 'defaultdict', 'Counter'):
                                        self.direct_mod[name].add(self_attr(b.value))
                                        self.write_sites[name].append((self_attr(b.value), n))
                        continue
                    for r in storage_roots(y, aliases):
                        self.direct_mod[name].add(r)
                        self.write_sites[name].append((r, n))
            if isinstance(n, ast.Call) and isinstance(n.func, ast.Attribute):
                if n.func.attr in MUTATORS:
                    for r in storage_roots(n.func.value, aliases):
                        self.direct_mod[name].add(r)
                        self.write_sites[name].append((r, n))
                if isinstance(n.func.value, ast.Name) and n.func.value.id in ('setattr', 'object'):
                    pass
            if isinstance(n, ast.Call) and isinstance(n.func, ast.Name) \
                    and n.func.id in ('setattr', 'delattr') and n.args \
                    and isinstance(n.args[0], ast.Name) and n.args[0].id == 'self':
                self.direct_mod[name].add('*')
                self.write_sites[name].append(('*', n))
            if isinstance(n, ast.Call) and isinstance(n.func, ast.Name) \
                    and n.func.id in ('shuffle',) and n.args:
                for r in storage_roots(n.args[0], aliases):
                    self.direct_mod[name].add(r)
                    self.write_sites[name].append((r, n))
            a = self_attr(n)
            if a is not None and isinstance(getattr(n, 'ctx', None), ast.Load):
                tgt = self.prog.resolve_method(self.ci, a)
                if tgt is not None:
                    self.calls[name].add(a)
                    self.resolved_calls += 1
                else:
                    self.reads[name].add(a)
            if isinstance(n, ast.Raise):
                self.direct_raise[name].add(raise_name(n))
            if isinstance(n, ast.Call) and isinstance(n.func, ast.Name) and n.func.id == 'warn':
                self.direct_raise[name].add(warn_category(n))
            if isinstance(n, ast.Call) and isinstance(n.func, ast.Attribute) \
                    and isinstance(n.func.value, ast.Call) \
                    and isinstance(n.func.value.func, ast.Name) \
                    and n.func.value.func.id == 'super':
                self.calls[name].add(n.func.attr)

    def _close(self, direct) -> dict[str, set[str]]:
        out = {k: set(direct.get(k, ())) for k in self.methods}
        changed = True
        while changed:
            changed = False
            for k in self.methods:
                for c in self.calls.get(k, ()):
                    new = out.get(c, set()) - out[k]
                    if new:
                        out[k] |= new
                        changed = True
        return out

    def _reach(self) -> dict[str, set[str]]:
        out = {k: set(self.calls.get(k, ())) for k in self.methods}
        changed = True
        while changed:
            changed = False
            for k in self.methods:
                for c in list(out[k]):
                    new = out.get(c, set()) - out[k]
                    if new:
                        out[k] |= new
                        changed = True
        return out

    def callers(self, name: str) -> set[str]:
        return {k for k, v in self.calls.items() if name in v}


def raise_name(n: ast.Raise) -> str:
    e = n.exc
    if e is None:
        return 're-raise'
    if isinstance(e, ast.Call):
        e = e.func
    if isinstance(e, ast.Name):
        return e.id
    return ast.unparse(e)


def warn_category(call: ast.Call) -> str:
    """the category a ``warn(message[, category])`` call issues: UserWarning unless one is named"""
    cat = call.args[1] if len(call.args) > 1 else next((k.value for k in call.keywords if k.arg == 'category'), None)
    if cat is None and call.args and isinstance(call.args[0], ast.Call) and isinstance(call.args[0].func, ast.Name) \
            and call.args[0].func.id.endswith('Warning'):
        cat = call.args[0].func          # warn(SomeWarning('...'))
    if cat is None or (isinstance(cat, ast.Constant) and cat.value is None):
        return 'UserWarning'
    return cat.id if isinstance(cat, ast.Name) else ast.unparse(cat)
