"""placeholder until the abstract interpreter of the TOML writer is in place"""


def check_writer(chk, ctx, dm, nested) -> None:
    chk.note('C16.toml_writer: abstract interpretation of the string/key writer pending')
