"""Engine E: static evaluation of *declarations* (no import of pokerkit).

Evaluates enum literal tables, class attributes through the MRO, literal
tuples / dicts, ``(False,) * n``, conditional expressions on class attributes
and a whitelist of pure builtins/itertools over those values.  Constructor
calls of repo classes become ``Obj`` records; parameters become ``Sym``.
Anything else evaluates to ``Unknown`` (never guessed).
"""
from __future__ import annotations

import ast
import itertools
from collections import Counter
from dataclasses import dataclass

from .model import AnalysisError, ClassInfo, Program


@dataclass(frozen=True)
class EnumMember:
    cls: str
    name: str
    value: object

    def __repr__(self):
        return f'{self.cls}.{self.name}'

    def __iter__(self):
        return iter(self.value)

    def __len__(self):
        return len(self.value)

    def __getitem__(self, i):
        return self.value[i]


@dataclass(frozen=True)
class ClassRef:
    name: str

    def __repr__(self):
        return self.name


@dataclass(frozen=True)
class Obj:
    cls: str
    args: tuple
    kwargs: tuple = ()

    def __repr__(self):
        a = [repr(x) for x in self.args] + [f'{k}={v!r}' for k, v in self.kwargs]
        return f'{self.cls}({", ".join(a)})'


@dataclass(frozen=True)
class Sym:
    name: str

    def __repr__(self):
        return f'${self.name}'


@dataclass(frozen=True)
class Unknown:
    text: str

    def __repr__(self):
        return f'?<{self.text}>'


def _unwrap(v):
    return v.value if isinstance(v, EnumMember) else v


ENUM_BASES = {'Enum', 'StrEnum', 'IntEnum'}


class SEval:
    def __init__(self, prog: Program):
        self.prog = prog
        self._enum_cache: dict[str, dict[str, EnumMember]] = {}
        self._busy: set = set()
        self._scope: list[str] = []   # class bodies being evaluated (their names are in scope)

    # ------------------------------------------------------------------ enum
    def is_enum(self, ci: ClassInfo) -> bool:
        return any(b.split('.')[-1] in ENUM_BASES for b in ci.base_names)

    def enum_members(self, cname: str) -> dict[str, EnumMember]:
        if cname in self._enum_cache:
            return self._enum_cache[cname]
        ci = self.prog.cls(cname)
        out: dict[str, EnumMember] = {}
        self._enum_cache[cname] = out
        for name, expr in ci.attrs.items():
            if name.startswith('_'):
                continue
            v = self.ev(expr, ci.module, {})
            out[name] = EnumMember(cname, name, v)
        return out

    # ------------------------------------------------------------- class attr
    def class_attr(self, cname: str, attr: str, default=None):
        ci = self.prog.cls(cname)
        owner, expr = self.prog.resolve_attr(ci, attr)
        if expr is None:
            return default
        self._scope.append(owner.name)
        try:
            return self.ev(expr, owner.module, {}, self_cls=cname)
        finally:
            self._scope.pop()

    # ------------------------------------------------------------------- eval
    def ev(self, e, module: str, env: dict, self_cls: str | None = None):
        try:
            return self._ev(e, module, env, self_cls)
        except RecursionError:
            raise
        except (TypeError, ValueError, KeyError, IndexError, AttributeError) as ex:
            return Unknown(f'{type(ex).__name__}: {ast.unparse(e)[:60]}')

    def _ev(self, e, module, env, self_cls):
        ev = lambda x: self._ev(x, module, env, self_cls)  # noqa
        if isinstance(e, ast.Constant):
            return e.value
        if isinstance(e, ast.Tuple):
            return tuple(self._seq(e.elts, module, env, self_cls))
        if isinstance(e, ast.List):
            return list(self._seq(e.elts, module, env, self_cls))
        if isinstance(e, ast.Set):
            return frozenset(self._seq(e.elts, module, env, self_cls))
        if isinstance(e, ast.Dict):
            d = {}
            for k, v in zip(e.keys, e.values):
                if k is None:
                    d.update(ev(v))
                else:
                    d[ev(k)] = ev(v)
            return d
        if isinstance(e, ast.Name):
            return self.name(e.id, module, env)
        if isinstance(e, ast.Attribute):
            if isinstance(e.value, ast.Name) and e.value.id in ('self', 'cls') and self_cls \
                    and e.value.id not in env:
                v = self.class_attr(self_cls, e.attr, default=Unknown(f'self.{e.attr}'))
                return v
            base = ev(e.value)
            return self.getattr(base, e.attr)
        if isinstance(e, ast.Subscript):
            base = ev(e.value)
            if isinstance(base, (Unknown, Sym, ClassRef)):
                return Unknown(ast.unparse(e))
            if isinstance(e.slice, ast.Slice):
                lo = None if e.slice.lower is None else ev(e.slice.lower)
                hi = None if e.slice.upper is None else ev(e.slice.upper)
                stp = None if e.slice.step is None else ev(e.slice.step)
                return _unwrap(base)[lo:hi:stp]
            return _unwrap(base)[ev(e.slice)]
        if isinstance(e, ast.UnaryOp):
            v = ev(e.operand)
            if isinstance(v, (Unknown, Sym)):
                return Unknown(ast.unparse(e))
            if isinstance(e.op, ast.Not):
                return not v
            if isinstance(e.op, ast.USub):
                return -v
            return Unknown(ast.unparse(e))
        if isinstance(e, ast.BinOp):
            a, b = _unwrap(ev(e.left)), _unwrap(ev(e.right))
            if any(isinstance(x, (Unknown, Sym, ClassRef, Obj)) for x in (a, b)):
                return Unknown(ast.unparse(e))
            op = type(e.op)
            if op is ast.Add:
                return a + b
            if op is ast.Sub:
                return a - b
            if op is ast.Mult:
                return a * b
            if op is ast.BitOr:
                return a | b
            if op is ast.FloorDiv:
                return a // b
            if op is ast.Mod:
                return a % b
            return Unknown(ast.unparse(e))
        if isinstance(e, ast.BoolOp):
            vals = [ev(v) for v in e.values]
            if any(isinstance(x, (Unknown, Sym)) for x in vals):
                return Unknown(ast.unparse(e))
            r = vals[0]
            for v in vals[1:]:
                r = (r and v) if isinstance(e.op, ast.And) else (r or v)
            return r
        if isinstance(e, ast.Compare) and len(e.ops) == 1:
            a, b = ev(e.left), ev(e.comparators[0])
            if any(isinstance(x, (Unknown, Sym)) for x in (a, b)):
                return Unknown(ast.unparse(e))
            op = type(e.ops[0])
            if op is ast.Eq:
                return a == b
            if op is ast.NotEq:
                return a != b
            if op is ast.Is:
                return a is b or a == b
            if op is ast.In:
                return a in _unwrap(b)
            a, b = _unwrap(a), _unwrap(b)
            if op is ast.Lt:
                return a < b
            if op is ast.LtE:
                return a <= b
            if op is ast.Gt:
                return a > b
            if op is ast.GtE:
                return a >= b
            return Unknown(ast.unparse(e))
        if isinstance(e, ast.IfExp):
            c = ev(e.test)
            if isinstance(c, (Unknown, Sym)):
                return Unknown(ast.unparse(e))
            return ev(e.body) if c else ev(e.orelse)
        if isinstance(e, ast.Call):
            return self.call(e, module, env, self_cls)
        if isinstance(e, (ast.ListComp, ast.GeneratorExp, ast.SetComp)) and len(e.generators) == 1:
            g = e.generators[0]
            it = _unwrap(ev(g.iter))
            if isinstance(it, (Unknown, Sym)):
                return Unknown(ast.unparse(e))
            out = []
            for x in it:
                env2 = dict(env)
                self._bind(g.target, x, env2)
                if all(self._ev(c, module, env2, self_cls) for c in g.ifs):
                    out.append(self._ev(e.elt, module, env2, self_cls))
            return frozenset(out) if isinstance(e, ast.SetComp) else out
        if isinstance(e, ast.DictComp) and len(e.generators) == 1:
            g = e.generators[0]
            it = _unwrap(ev(g.iter))
            out = {}
            for x in it:
                env2 = dict(env)
                self._bind(g.target, x, env2)
                out[self._ev(e.key, module, env2, self_cls)] = self._ev(e.value, module, env2, self_cls)
            return out
        if isinstance(e, ast.JoinedStr):
            return Unknown('f-string')
        if isinstance(e, ast.Lambda):
            return Unknown('lambda')
        return Unknown(ast.unparse(e)[:80])

    def _seq(self, elts, module, env, self_cls):
        out = []
        for x in elts:
            if isinstance(x, ast.Starred):
                out.extend(_unwrap(self._ev(x.value, module, env, self_cls)))
            else:
                out.append(self._ev(x, module, env, self_cls))
        return out

    def _bind(self, target, value, env):
        if isinstance(target, ast.Name):
            env[target.id] = value
        elif isinstance(target, (ast.Tuple, ast.List)):
            for t, v in zip(target.elts, value):
                self._bind(t, v, env)

    # ------------------------------------------------------------------ names
    def name(self, ident: str, module: str, env: dict):
        if ident in env:
            return env[ident]
        if self._scope:
            ci = self.prog.classes.get(self._scope[-1])
            k = ('cls', self._scope[-1], ident)
            if ci is not None and ident in ci.attrs and k not in self._busy:
                self._busy.add(k)
                try:
                    return self.ev(ci.attrs[ident], ci.module, {})
                finally:
                    self._busy.discard(k)
        mi = self.prog.modules.get(module)
        if mi is not None:
            if ident in mi.classes:
                return ClassRef(ident)
            if ident in mi.assigns:
                k = (module, ident)
                if k in self._busy:
                    return Unknown(ident)
                self._busy.add(k)
                try:
                    return self.ev(mi.assigns[ident], module, {})
                finally:
                    self._busy.discard(k)
            if ident in mi.functions:
                return Obj('function', (f'{module}.{ident}',))
            if ident in mi.imports:
                dotted = mi.imports[ident]
                parts = dotted.split('.')
                if parts[0] == 'pokerkit' and len(parts) == 3 and parts[1] in self.prog.modules:
                    return self.name(parts[2], parts[1], {})
                return Obj('import', (dotted,))
        if ident in ('True', 'False', 'None'):
            return {'True': True, 'False': False, 'None': None}[ident]
        return Obj('builtin', (ident,))

    def getattr(self, base, attr: str):
        if isinstance(base, ClassRef):
            ci = self.prog.classes.get(base.name)
            if ci is None:
                return Unknown(f'{base.name}.{attr}')
            if self.is_enum(ci):
                ms = self.enum_members(base.name)
                if attr in ms:
                    return ms[attr]
            v = self.class_attr(base.name, attr, default=None)
            if v is not None:
                return v
            if self.prog.resolve_method(ci, attr) is not None:
                return Obj('method', (base.name, attr))
            return Unknown(f'{base.name}.{attr}')
        if isinstance(base, EnumMember):
            if attr == 'value':
                return base.value
            if attr == 'name':
                return base.name
            if attr in ('index', 'count'):
                return Obj('boundmethod', (base, attr))
        if isinstance(base, Obj) and base.cls == 'import':
            return Obj('import', (base.args[0] + '.' + attr,))
        if isinstance(base, (dict,)) and attr in ('get', 'keys', 'values', 'items'):
            return Obj('boundmethod', (_Hashable(base), attr))
        if isinstance(base, (tuple, list, str)) and attr in ('index', 'count', 'join', 'split'):
            return Obj('boundmethod', (_Hashable(base), attr))
        return Unknown(f'{base!r}.{attr}')

    # ------------------------------------------------------------------ calls
    PURE = {
        'tuple': tuple, 'list': list, 'dict': dict, 'set': frozenset, 'frozenset': frozenset,
        'zip': lambda *a: list(zip(*a)), 'range': lambda *a: list(range(*a)), 'len': len,
        'sorted': sorted, 'min': min, 'max': max, 'sum': sum, 'any': any, 'all': all,
        'reversed': lambda a: list(reversed(a)), 'enumerate': lambda a: list(enumerate(a)),
        'bool': bool, 'int': int, 'str': str, 'abs': abs,
    }
    PURE_IMPORTS = {
        'itertools.product': lambda *a, **k: list(itertools.product(*a, **k)),
        'itertools.chain': lambda *a: list(itertools.chain(*a)),
        'itertools.combinations': lambda a, n: list(itertools.combinations(a, n)),
        'itertools.permutations': lambda a, n=None: list(itertools.permutations(a, n)),
        'itertools.repeat': lambda a, n: [a] * n,
        'collections.Counter': lambda *a, **k: Counter(*a, **k),
    }

    def call(self, e: ast.Call, module, env, self_cls):
        f = self._ev(e.func, module, env, self_cls)
        args = self._seq(e.args, module, env, self_cls)
        kwargs = {k.arg: self._ev(k.value, module, env, self_cls) for k in e.keywords if k.arg}
        if isinstance(f, ClassRef):
            return Obj(f.name, tuple(args), tuple(sorted(kwargs.items())))
        if isinstance(f, Obj) and f.cls == 'builtin' and f.args[0] in self.PURE:
            if any(isinstance(_unwrap(a), (Unknown, Sym)) for a in args):
                return Unknown(ast.unparse(e)[:80])
            return self.PURE[f.args[0]](*[_unwrap(a) for a in args], **kwargs)
        if isinstance(f, Obj) and f.cls == 'import':
            dotted = f.args[0]
            if dotted in self.PURE_IMPORTS:
                if any(isinstance(_unwrap(a), (Unknown, Sym)) for a in args):
                    return Unknown(ast.unparse(e)[:80])
                return self.PURE_IMPORTS[dotted](*[_unwrap(a) for a in args], **kwargs)
            if dotted == 'itertools.starmap' and isinstance(args[0], ClassRef):
                return [Obj(args[0].name, tuple(x)) for x in _unwrap(args[1])]
            if dotted in ('re.compile',):
                return Obj('Pattern', tuple(args), tuple(sorted(kwargs.items())))
            return Obj('call:' + dotted, tuple(_freeze(a) for a in args), tuple(sorted((k, _freeze(v)) for k, v in kwargs.items())))
        if isinstance(f, Obj) and f.cls == 'boundmethod':
            recv, m = f.args
            recv = recv.v if isinstance(recv, _Hashable) else _unwrap(recv)
            return getattr(recv, m)(*args)
        if isinstance(f, Obj) and f.cls == 'function':
            return Obj('call:' + f.args[0], tuple(_freeze(a) for a in args), tuple(sorted((k, _freeze(v)) for k, v in kwargs.items())))
        return Unknown(ast.unparse(e)[:80])


class _Hashable:
    def __init__(self, v):
        self.v = v

    def __hash__(self):
        return id(self.v)

    def __eq__(self, o):
        return isinstance(o, _Hashable) and o.v is self.v


def _freeze(v):
    if isinstance(v, list):
        return tuple(_freeze(x) for x in v)
    if isinstance(v, dict):
        return tuple(sorted((repr(k), _freeze(x)) for k, x in v.items()))
    return v


# ----------------------------------------------------------- constructor chains
def init_chain(prog: Program, sev: SEval, cname: str) -> dict:
    """Follow ``super().__init__(...)`` chains of class ``cname`` symbolically
    up to the root ``__init__`` (the one that stores ``self.X = param``) and
    return {stored attribute: value} with ``Sym`` leaves for the constructor
    parameters of ``cname``."""
    ci = prog.cls(cname)
    fi = prog.resolve_method(ci, '__init__')
    if fi is None:
        raise AnalysisError(f'{cname} has no __init__')
    env = {p: Sym(p) for p in fi.params if p != 'self'}
    # defaults of keyword-only parameters stay symbolic on purpose
    hops = 0
    while True:
        hops += 1
        if hops > 12:
            raise AnalysisError(f'{cname}: constructor chain too long')
        sup = None
        for n in ast.walk(fi.node):
            if isinstance(n, ast.Call) and isinstance(n.func, ast.Attribute) and n.func.attr == '__init__' \
                    and isinstance(n.func.value, ast.Call) and isinstance(n.func.value.func, ast.Name) \
                    and n.func.value.func.id == 'super':
                sup = n
        if sup is None:
            break
        nxt = prog.resolve_method(ci, '__init__', after=fi.cls)
        if nxt is None:
            raise AnalysisError(f'{cname}: super().__init__ has no target after {fi.cls.name}')
        pos = [p for p in nxt.pos_params if p != 'self']
        new_env = {}
        env = dict(env)
        _exec_before(sev, fi, sup, env, cname)
        vals = [sev.ev(a, fi.module, env, self_cls=cname) for a in sup.args]
        for p, v in zip(pos, vals):
            new_env[p] = v
        if len(vals) > len(pos):
            new_env['*extra'] = tuple(vals[len(pos):])
        for k in sup.keywords:
            if k.arg:
                new_env[k.arg] = sev.ev(k.value, fi.module, env, self_cls=cname)
        new_env['*missing'] = tuple(p for p in pos[len(vals):] if p not in new_env
                                    and not _has_default(nxt, p))
        fi, env = nxt, new_env
    stored = {}
    for st in fi.body:
        tgt = val = None
        if isinstance(st, ast.Assign) and len(st.targets) == 1:
            tgt, val = st.targets[0], st.value
        elif isinstance(st, ast.AnnAssign) and st.value is not None:
            tgt, val = st.target, st.value
        if tgt is not None and isinstance(tgt, ast.Attribute) and isinstance(tgt.value, ast.Name) \
                and tgt.value.id == 'self':
            stored[tgt.attr] = sev.ev(val, fi.module, env, self_cls=cname)
    stored['*root'] = fi.qualname
    stored['*missing'] = env.get('*missing', ())
    stored['*extra'] = env.get('*extra', ())
    return stored


def _exec_before(sev, fi, stop_call, env, cname, budget=400) -> None:
    """evaluate the plain statements of a constructor that precede its ``super().__init__`` call: assignments to locals,
    ``if`` on an evaluable test (both arms merged when it is not), ``for`` over an evaluable finite collection, ``.append`` /
    ``.extend`` on a local list.  Declarations only - no method of the package is called."""
    left = [budget]

    def contains(st):
        return any(n is stop_call for n in ast.walk(st))

    def run(stmts, env):
        for st in stmts:
            left[0] -= 1
            if left[0] < 0 or contains(st):
                return False
            if isinstance(st, (ast.Assign, ast.AnnAssign)):
                val = st.value
                tgts = st.targets if isinstance(st, ast.Assign) else [st.target]
                if val is None:
                    continue
                v = sev.ev(val, fi.module, env, self_cls=cname)
                for t in tgts:
                    if isinstance(t, ast.Name):
                        env[t.id] = v
                    elif isinstance(t, (ast.Tuple, ast.List)) and isinstance(_unwrap(v), (tuple, list)) and len(_unwrap(v)) == len(t.elts):
                        for el, x in zip(t.elts, _unwrap(v)):
                            if isinstance(el, ast.Name):
                                env[el.id] = x
            elif isinstance(st, ast.If):
                c = _unwrap(sev.ev(st.test, fi.module, env, self_cls=cname))
                if isinstance(c, (Unknown, Sym)) or not isinstance(c, (bool, int, type(None))):
                    a, b = dict(env), dict(env)
                    run(st.body, a)
                    run(st.orelse, b)
                    for k in set(a) | set(b):
                        if k in a and k in b and repr(a[k]) == repr(b[k]):
                            env[k] = a[k]
                        else:
                            env[k] = Unknown(f'{k} (differs between the arms of an undecided if)')
                else:
                    if not run(st.body if c else st.orelse, env):
                        return False
            elif isinstance(st, ast.For) and not st.orelse:
                it = _unwrap(sev.ev(st.iter, fi.module, env, self_cls=cname))
                if isinstance(it, (tuple, list, range)) and len(it) <= 32:
                    for x in it:
                        x = _unwrap(x)
                        if isinstance(st.target, ast.Name):
                            env[st.target.id] = x
                        elif isinstance(st.target, (ast.Tuple, ast.List)) and isinstance(x, (tuple, list)) and len(x) == len(st.target.elts):
                            for el, y in zip(st.target.elts, x):
                                if isinstance(el, ast.Name):
                                    env[el.id] = y
                        if not run(st.body, env):
                            return False
                else:
                    for n in ast.walk(st):
                        if isinstance(n, ast.Name) and isinstance(n.ctx, ast.Store):
                            env[n.id] = Unknown(f'{n.id} (bound in a loop that cannot be unrolled)')
            elif isinstance(st, ast.Expr) and isinstance(st.value, ast.Call) and isinstance(st.value.func, ast.Attribute) \
                    and isinstance(st.value.func.value, ast.Name) and st.value.func.attr in ('append', 'extend') and len(st.value.args) == 1:
                name = st.value.func.value.id
                cur = env.get(name)
                v = sev.ev(st.value.args[0], fi.module, env, self_cls=cname)
                if isinstance(cur, list):
                    if st.value.func.attr == 'append':
                        env[name] = cur + [v]
                    elif isinstance(_unwrap(v), (tuple, list)):
                        env[name] = cur + list(_unwrap(v))
                    else:
                        env[name] = Unknown(f'{name}.extend(<unknown>)')
            elif isinstance(st, ast.AugAssign) and isinstance(st.target, ast.Name) and isinstance(st.op, ast.Add):
                cur = env.get(st.target.id)
                v = _unwrap(sev.ev(st.value, fi.module, env, self_cls=cname))
                if isinstance(cur, (list, tuple)) and isinstance(v, (list, tuple)):
                    env[st.target.id] = type(cur)(list(cur) + list(v))
                else:
                    env[st.target.id] = Unknown(f'{st.target.id} += ...')
            elif isinstance(st, (ast.Expr, ast.Pass, ast.Assert)):
                continue
            else:
                for n in ast.walk(st):
                    if isinstance(n, ast.Name) and isinstance(n.ctx, ast.Store):
                        env[n.id] = Unknown(f'{n.id} (bound by a statement the evaluator does not interpret)')
        return True
    run(fi.body, env)


def _has_default(fi, p) -> bool:
    a = fi.node.args
    pos = a.posonlyargs + a.args
    nd = len(a.defaults)
    names = [x.arg for x in pos]
    if p in names:
        return names.index(p) >= len(names) - nd
    for x, d in zip(a.kwonlyargs, a.kw_defaults):
        if x.arg == p:
            return d is not None
    return False
