"""Throwaway reconnaissance: if/elif chains without else whose arms all compare the same term with constants."""
import ast, glob, os
for p in sorted(glob.glob('/repo/pokerkit/*.py')):
    t = ast.parse(open(p).read())
    for f in [n for n in ast.walk(t) if isinstance(n, ast.FunctionDef)]:
        seen = set()
        for st in ast.walk(f):
            if not isinstance(st, ast.If) or id(st) in seen: continue
            arms = []; cur = st
            while isinstance(cur, ast.If):
                seen.add(id(cur)); arms.append(cur.test)
                if len(cur.orelse) == 1 and isinstance(cur.orelse[0], ast.If): cur = cur.orelse[0]
                else: break
            has_else = bool(cur.orelse)
            if len(arms) < 2 or has_else: continue
            lhs = set()
            ok = True
            for a in arms:
                if isinstance(a, ast.Compare) and len(a.ops) == 1 and isinstance(a.comparators[0], ast.Constant) and isinstance(a.comparators[0].value, int):
                    lhs.add(ast.unparse(a.left))
                else: ok = False
            if ok and len(lhs) == 1:
                print(f"{os.path.basename(p)}:{st.lineno} {f.name}: arms {[ast.unparse(a) for a in arms]} and no else")
