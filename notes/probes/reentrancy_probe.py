"""Throwaway reconnaissance: stale-guard (re-entrancy) analysis of the automation call sites."""
import ast, collections
tree = ast.parse(open('/repo/pokerkit/state.py').read())
State = next(n for n in tree.body if isinstance(n, ast.ClassDef) and n.name == 'State')
funcs = {n.name: n for n in State.body if isinstance(n, ast.FunctionDef)}
props = {n.name for n in funcs.values() if any(isinstance(d, ast.Name) and d.id == 'property' for d in n.decorator_list)}
MUT = {'append','extend','pop','clear','remove','rotate','popleft','appendleft','add','insert','sort','reverse','update','discard'}
def root_attr(node):
    while isinstance(node, (ast.Subscript, ast.Attribute)):
        if isinstance(node, ast.Attribute) and isinstance(node.value, ast.Name) and node.value.id == 'self': return node.attr
        node = node.value
    return None
direct_mod = collections.defaultdict(set); calls = collections.defaultdict(set)
for name, f in funcs.items():
    aliases = {}
    for n in ast.walk(f):
        if isinstance(n, ast.Assign) and len(n.targets) == 1 and isinstance(n.targets[0], ast.Name):
            a = root_attr(n.value)
            if a and isinstance(n.value, ast.Subscript): aliases[n.targets[0].id] = a
    for n in ast.walk(f):
        tg = n.targets if isinstance(n, ast.Assign) else [n.target] if isinstance(n, (ast.AugAssign, ast.AnnAssign)) else []
        for x in tg:
            for y in (x.elts if isinstance(x, ast.Tuple) else [x]):
                a = root_attr(y)
                if a: direct_mod[name].add(a)
                if isinstance(y, ast.Attribute) and isinstance(y.value, ast.Name) and y.value.id in aliases: direct_mod[name].add(aliases[y.value.id])
        if isinstance(n, ast.Call) and isinstance(n.func, ast.Attribute) and n.func.attr in MUT:
            a = root_attr(n.func.value)
            if a: direct_mod[name].add(a)
        if isinstance(n, ast.Attribute) and isinstance(n.value, ast.Name) and n.value.id == 'self' and n.attr in funcs and isinstance(n.ctx, ast.Load):
            calls[name].add(n.attr)      # method call or property read
modstar = {k: set(v) for k, v in direct_mod.items()}
for k in funcs: modstar.setdefault(k, set())
changed = True
while changed:
    changed = False
    for k in funcs:
        for c in calls[k]:
            new = modstar[c] - modstar[k]
            if new: modstar[k] |= new; changed = True
print("pure (MOD* empty) verify/can:", all(not modstar[k] for k in funcs if k.startswith(('verify_', '_verify_', 'can_'))))
print("impure properties:", [p for p in props if modstar[p]])
print("MOD*(deal_hole) size", len(modstar['deal_hole']), "contains card_burning_status:", 'card_burning_status' in modstar['deal_hole'])

def self_reads(e):
    return {n.attr for n in ast.walk(e) if isinstance(n, ast.Attribute) and isinstance(n.value, ast.Name) and n.value.id == 'self'}
def only_self(e):
    return all(not isinstance(n, ast.Name) or n.id in ('self', 'any', 'all', 'sum', 'len', 'not', 'None') for n in ast.walk(e))
def norm(e): return ast.unparse(e)
def neg(s): return s[4:] if s.startswith('not ') else 'not ' + s
def raise_guards(f):
    """conditions (as text) under which the function raises, for a top-level if/elif chain of raises"""
    out = []
    for st in f.body:
        cur = st
        while isinstance(cur, ast.If):
            if any(isinstance(x, ast.Raise) for x in cur.body) and only_self(cur.test): out.append(cur.test)
            cur = cur.orelse[0] if len(cur.orelse) == 1 else None
    return out
# operation table: op -> verifier
ops = {}
for name, f in funcs.items():
    if name.startswith('can_') and name != 'can_win_now':
        v = next(n.func.attr for n in ast.walk(f) if isinstance(n, ast.Call) and isinstance(n.func, ast.Attribute) and n.func.attr.startswith('verify_'))
        op = next(k for k, g in funcs.items() if not k.startswith(('can_', 'verify_', '_')) and k not in props and any(isinstance(n, ast.Call) and isinstance(n.func, ast.Attribute) and n.func.attr == v for n in ast.walk(g)))
        ops[op] = v
def phase_pre(op):
    v = funcs[ops[op]]
    inner = [n.func.attr for n in ast.walk(v) if isinstance(n, ast.Call) and isinstance(n.func, ast.Attribute) and n.func.attr.startswith('_verify_') and n.func.attr != '_verify_cards_consumption']
    guards = []
    for g in ([funcs[i] for i in inner] + [v]): guards += raise_guards(g)
    return [neg(norm(g)) for g in guards]     # each must be implied
for op in ops: print(f"  PP({op}) = {phase_pre(op)}")

# wrappers: property p is verified-or-None wrapper of _verify_X
wrapper = {}
for p in props:
    f = funcs[p]
    for n in ast.walk(f):
        if isinstance(n, ast.Try):
            c = [m.func.attr for b in n.body for m in ast.walk(b) if isinstance(m, ast.Call) and isinstance(m.func, ast.Attribute) and m.func.attr.startswith('_verify_')]
            if c: wrapper[p] = c[0]
print("wrappers:", wrapper)

def analyse(fname):
    f = funcs[fname]; reports = []
    def kill(facts, callee):
        return [(t, r) for (t, r) in facts if not (r & modstar[callee])]
    def add(facts, test):
        # split conjunctions
        parts = test.values if isinstance(test, ast.BoolOp) and isinstance(test.op, ast.And) else [test]
        return facts + [(norm(p), self_reads(p)) for p in parts]
    def calls_in(node):
        return [n.func.attr for n in ast.walk(node) if isinstance(n, ast.Call) and isinstance(n.func, ast.Attribute) and isinstance(n.func.value, ast.Name) and n.func.value.id == 'self' and n.func.attr in funcs]
    def walk(stmts, facts):
        for st in stmts:
            if isinstance(st, ast.If):
                walk(st.body, add(facts, st.test))
                walk(st.orelse, add(facts, ast.UnaryOp(op=ast.Not(), operand=st.test)))
                for c in calls_in(st): facts = kill(facts, c)
            elif isinstance(st, ast.While):
                inner = list(facts)
                for c in calls_in(st): inner = kill(inner, c)      # back edge: anything the body may call kills outer facts
                walk(st.body, add(inner, st.test))
                facts = inner
            elif isinstance(st, ast.Expr) and isinstance(st.value, ast.Call):
                c = st.value.func.attr if isinstance(st.value.func, ast.Attribute) else None
                if c in ops:
                    have = {t for t, _ in facts}
                    for need in phase_pre(c):
                        ok = need in have or neg(need) == 'not ' + need and False
                        # disjunction: any disjunct of a negated-conjunction
                        if not ok and need.startswith('not (') is False and ' and ' in need:
                            pass
                        if not ok:
                            # need = "not (A and B)"  <=  fact "not A" or fact "not B"; here just try disjuncts of De Morgan
                            g = ast.parse(need, mode='eval').body
                            if isinstance(g, ast.UnaryOp) and isinstance(g.operand, ast.BoolOp) and isinstance(g.operand.op, ast.And):
                                ok = any(neg(norm(v)) in have for v in g.operand.values)
                        if not ok:
                            for w, ver in wrapper.items():
                                if f'self.{w} is not None' in have and ver in [n.func.attr for n in ast.walk(funcs[ops[c]]) if isinstance(n, ast.Call) and isinstance(n.func, ast.Attribute)]: ok = True
                        if not ok: reports.append((fname, st.lineno, c, need, sorted(have)))
                if c in funcs: facts = kill(facts, c)
        return facts
    walk(f.body, [])
    return reports
total = 0
for u in [k for k in funcs if k.startswith('_update_')]:
    for r in analyse(u):
        total += 1; print("STALE", r[0], r[1], f"call {r[2]}() needs [{r[3]}] fresh; have {r[4]}")
print("reports:", total)
